#!/usr/bin/env python3
"""gen_seed_table.py <sweep-output>  - rewrites the table of DESIGN.md section 10 from the output of
`seeded/run.sh --all-props` (one line per seed: "<id> DETECTED by<rule:key> ..." or "<id> missed ...")
and the seeds' meta.json files.  Maintenance tool; no check depends on it."""
import json, os, re, sys

VERIF = os.path.dirname(os.path.dirname(os.path.abspath(__file__)))
sweep = {}
for line in open(sys.argv[1]):
    parts = line.split()
    if len(parts) < 2:
        continue
    sid = parts[0]
    if parts[1] == 'DETECTED':
        rules = []
        for tok in line.split('DETECTED by', 1)[1].split():
            m = re.match(r'(C\d\d\.[A-Za-z0-9]+)', tok)
            if m and m.group(1) not in rules:
                rules.append(m.group(1))
        sweep[sid] = rules
    else:
        sweep[sid] = None


def order(sid):
    meta = json.load(open(os.path.join(VERIF, 'seeded', sid, 'meta.json')))
    kind = 0 if re.match(r'C\d\d-\d+$', sid) else (1 if sid.startswith('fixrev') else 2)
    return (meta['property'], kind, sid)


rows = []
for sid in sorted(sweep, key=order):
    meta = json.load(open(os.path.join(VERIF, 'seeded', sid, 'meta.json')))
    prop = meta['property']
    rules = sweep[sid]
    if rules is None:
        col = '**missed**'
    else:
        own = [r for r in rules if r.startswith(prop + '.')]
        other = [r for r in rules if not r.startswith(prop + '.')]
        col = ', '.join(own) if own else '**not by its own property**'
        if other:
            col += ' (also ' + ', '.join(other[:4]) + ')'
    what = (meta.get('what_it_breaks') or meta.get('what') or meta.get('description') or '').replace('|', '/').replace('\n', ' ')
    rows.append('| %s | %s | %s | %s |' % (sid, prop, col, what[:110]))

p = os.path.join(VERIF, 'DESIGN.md')
s = open(p).read()
head = '| seeded change | property | reported by rule(s) | what the change does |\n|---|---|---|---|\n'
a = s.index(head)
b = s.index('\n\n', a)
s = s[:a] + head + '\n'.join(rows) + s[b:]
open(p, 'w').write(s)
n_missed = sum(1 for v in sweep.values() if v is None)
n_other = sum(1 for sid, v in sweep.items() if v is not None and not any(
    r.startswith(json.load(open(os.path.join(VERIF, 'seeded', sid, 'meta.json')))['property'] + '.') for r in v))
print('%d seeds, %d missed, %d reported only by another property' % (len(sweep), n_missed, n_other))
