#!/usr/bin/env python3
"""Generates my own mutants (one small, compiling, test-passing regression per rule that the independently
seeded changes do not exercise) into /verif/seeded/own-<prop>-<name>/ . Run from anywhere; uses a scratch
worktree of /repo HEAD under /tmp and removes it. Each mutant is kept only if it builds and the 195 baseline
tests still pass."""
import json, os, subprocess, sys, shutil
ENV=dict(os.environ, GOFLAGS='-mod=mod', GOPROXY='off', GOSUMDB='off', GOTOOLCHAIN='local')
W='/tmp/zs_own'
PK='./pkg/common ./pkg/error ./pkg/exec ./pkg/io ./pkg/runtime ./pkg/syntax/... ./pkg/value ./stdlib/file ./stdlib/json'.split()
TP='./pkg/exec ./pkg/io ./pkg/runtime ./pkg/syntax/... ./pkg/value'.split()
M=[
 # (prop, name, file, old, new, what)
 ("C01","prec-star-at-plus-level","pkg/syntax/zh/zh_ast.go","p.tryConsume(TypePlus, TypeMinus); match","p.tryConsume(TypePlus, TypeMinus, TypeIntDivMark); match","| accepted at the + − level as well (binds looser than * /)"),
 ("C01","map-gt-lt-swapped","pkg/syntax/zh/zh_ast.go","TypeGTMark:      syntax.LogicGT,","TypeGTMark:      syntax.LogicLT,","the > mark is parsed as 'less than'"),
 ("C01","assoc-right-leaning","pkg/syntax/zh/zh_ast.go","""				Type:      syntax.LogicOR,
				LeftExpr:  el,
				RightExpr: exprR,""","""				Type:      syntax.LogicOR,
				LeftExpr:  exprR,
				RightExpr: el,""","operands of 或 swapped in the tree"),
 ("C01","zero-test-dropped-intdiv","pkg/exec/eval.go","""		// python style intDiv, where result close to the closet lower integer e.g. -15 // 2 = -8 (instead of -7)
		if rightNum.GetValue() == 0 {
			return nil, zerr.ArithDivZero()
		}
""","""		// python style intDiv, where result close to the closet lower integer e.g. -15 // 2 = -8 (instead of -7)
""","zero test of | removed"),
 ("C01","dispatch-gte-uses-gt","pkg/exec/eval.go","cmpRes, cmpErr = compareLogicGTE(left, right)","cmpRes, cmpErr = compareLogicGT(left, right)",">= evaluated with >"),
 ("C01","types-unchecked-number","pkg/exec/eval.go","""	rightNum, ok := rightExpr.(*value.Number)
	if !ok {
		return nil, zerr.InvalidExprType("number")
	}

	// calculate num""","""	rightNum, _ := rightExpr.(*value.Number)

	// calculate num""","right operand of arithmetic not type-tested"),
 ("C02","signals-break-ignored-in-dict-pass","pkg/exec/eval.go","""					if s.SigType == zerr.SigTypeBreak {
						return nil
					}
				}
				return err
			}
			// 输出 has been executed inside the loop block: stop looping
			if vm.GetReturnValue() != nil {
				return nil
			}
		}
	default:""","""					if s.SigType == zerr.SigTypeBreak {
						continue
					}
				}
				return err
			}
			// 输出 has been executed inside the loop block: stop looping
			if vm.GetReturnValue() != nil {
				return nil
			}
		}
	default:""","结束循环 in a dictionary 遍历 only skips the pass"),
 ("C02","branch-fallthrough","pkg/exec/eval.go","""		if vOtherExprI.GetValue() {
			// create inner scope for if statement
			_, err := evalPureStmtBlock(vm, node.OtherBlocks[idx])
			return err
		}""","""		if vOtherExprI.GetValue() {
			// create inner scope for if statement
			if _, err := evalPureStmtBlock(vm, node.OtherBlocks[idx]); err != nil {
				return err
			}
		}""","after a 再如 block the following branches are still tested"),
 ("C02","iter-zero-based","pkg/exec/eval.go","realIdx := idx + 1","realIdx := idx","list iteration index 0-based"),
 ("C03","switch-case-dropped","pkg/syntax/zh/zh_ast.go","""		case TypeContinueW:
			s = ParseContinueStmt(p)
		}""","""		}""","继续循环 is accepted by ParseStatement but has no case (nil statement)"),
 ("C03","syn-de-not-accepted-in-import","pkg/syntax/zh/zh_ast.go","match2, _ := p.tryConsume(TypeObjDotW, TypeObjDotIIW)","match2, _ := p.tryConsume(TypeObjDotW)","导入…的… no longer accepted (only 之)"),
 ("C03","sections-backwards","pkg/syntax/zh/zh_ast.go","""				execBlock.CatchBlock = append(execBlock.CatchBlock, ParseCatchErrorStmt(p))
			} else {
				// only 拦截 blocks are allowed after the first 拦截 block
				panic(p.getInvalidSyntaxPeek())
			}""","""				execBlock.CatchBlock = append(execBlock.CatchBlock, ParseCatchErrorStmt(p))
			} else {
				// go on with statements
				hState = stateStmtBlock
			}""","statements may follow a 拦截 block again (sections interleave)"),
 ("C04","trie-missing-keyword","pkg/syntax/zh/keyword.go","""		} else if l.Peek() == GlyphXIAO && l.Peek2() == GlyphYU {
			wordLen = 3
			tk.Type = TypeLogicGteW
		} else {""","""		} else {""","不小于 dropped from the keyword trie"),
 ("C04","order-keyword-before-operator","pkg/syntax/zh/tokens.go","""	if syntax.ContainsRune(ch, markOperators) {
		isOperator, tk, err := parseOperators(l)
		if err != nil {
			return syntax.Token{}, err
		}
		if isOperator {
			return tk, nil
		}
	}

	// suppose it's a keyword
	isKeyword, tk, err := parseKeyword(l, true)
	if err != nil {
		return syntax.Token{}, err
	}
	if isKeyword {
		return tk, nil
	}
""","""	// suppose it's a keyword
	isKeyword, tk, err := parseKeyword(l, true)
	if err != nil {
		return syntax.Token{}, err
	}
	if isKeyword {
		return tk, nil
	}

	if syntax.ContainsRune(ch, markOperators) {
		isOperator, tk, err := parseOperators(l)
		if err != nil {
			return syntax.Token{}, err
		}
		if isOperator {
			return tk, nil
		}
	}
""","keyword recognition moved before operators"),
 ("C04","op-context-test-weakened","pkg/syntax/zh/tokens.go","if syntax.IsWhiteSpace(chn) || syntax.ContainsRune(chn, markPunctuations) || syntax.ContainsRune(chn, markQuotes) {","if !isIdentifierChar(chn) {","+ - * / become operators before anything that is not an identifier character"),
 ("C04","num2float-star-caret","pkg/exec/id_match.go","""v := strings.Replace(idStr, "*^", "e", 1)""","""v := strings.Replace(idStr, "*^", "", 1)""","*^ exponent dropped when converting a number literal"),
 ("C04","ident-keyword-test-moves-cursor","pkg/syntax/zh/tokens.go","isKeyword, _, err := parseKeyword(l, false)","isKeyword, _, err := parseKeyword(l, true)","the keyword probe inside an identifier consumes the keyword"),
 ("C05","panic-non-error","pkg/syntax/zh/zh_ast.go","""		if !ok {
			panic(p.getExprMustTypeIDPeek())
		}""","""		if !ok {
			panic("赋值目标必须是标识符")
		}""","parser panics with a string (Parser.Parse re-panics it)"),
 ("C05","cursor-literal-position","pkg/syntax/zh/tokens.go","return syntax.Token{}, zerr.IncompleteString(l.GetCursor())","return syntax.Token{}, zerr.IncompleteString(startIdx + len(literal) + 2)","error position computed from lengths instead of the cursor"),
 ("C06","globals-check-dropped","pkg/runtime/vm.go","""	if _, inGlobals := vm.globals[nameStr]; inGlobals {
		return zerr.NameRedeclared(nameStr)
	}
	return scope.DeclareConstValue(name.GetLiteral(), elem)""","""	return scope.DeclareConstValue(name.GetLiteral(), elem)""","constants may redeclare predefined names"),
 ("C06","lookup-locals-before-globals","pkg/runtime/vm.go","""	nameStr := name.GetLiteral()
	// look for global values first
	if elem, ok := vm.globals[nameStr]; ok {
		return elem, nil
	}
	// then look for local values
	scope := vm.getCurrentScope()
	if scope == nil {
		return nil, zerr.NameNotDefined(nameStr)
	}
	elem := scope.GetValue(nameStr)
	if elem == nil {
		return nil, zerr.NameNotDefined(nameStr)
	}
	return elem, nil""","""	nameStr := name.GetLiteral()
	// look for local values first
	if scope := vm.getCurrentScope(); scope != nil {
		if elem := scope.GetValue(nameStr); elem != nil {
			return elem, nil
		}
	}
	if elem, ok := vm.globals[nameStr]; ok {
		return elem, nil
	}
	return nil, zerr.NameNotDefined(nameStr)""","local symbols shadow predefined names on lookup"),
 ("C07","obj-defaults-shared","pkg/value/object.go","objPropList[prop] = DuplicateValue(elem)","objPropList[prop] = elem","class defaults shared by all instances"),
 ("C07","store-written-through-getter","pkg/value/value_util.go","""	case *Array:
		newArr := []r.Element{}""","""	case *Array:
		if arr := v.GetValue(); len(arr) == 1 {
			arr[0] = DuplicateValue(arr[0])
		}
		newArr := []r.Element{}""","copy routine writes into the source's backing store obtained via GetValue()"),
 ("C07","assign-no-copy","pkg/exec/eval.go","""	vr = value.DuplicateValue(vr)

	// Left Side""","""	// Left Side""","= stores the evaluated value without copying"),
 ("C08","frame-leak-on-success","pkg/exec/eval_function.go","""	elem, err := root.ExecMethod(funcName.GetLiteral(), params)
	if err == nil {
		vm.PopCallFrame()
	}
""","""	elem, err := root.ExecMethod(funcName.GetLiteral(), params)
""","method frames never popped"),
 ("C08","arity-check-after-binding","pkg/exec/eval.go","""	// 1.1 check param length
	inputParamNum := len(execBlock.InputBlock)
	if len(params) != inputParamNum {
		return nil, zerr.MismatchParamLengthError(inputParamNum, len(params))
	}

	for idx, param := range execBlock.InputBlock {""","""	// 1.1 check param length
	inputParamNum := len(execBlock.InputBlock)
	if len(params) < inputParamNum {
		return nil, zerr.MismatchParamLengthError(inputParamNum, len(params))
	}

	for idx, param := range execBlock.InputBlock {""","too many arguments accepted (only 'fewer' is an error)"),
 ("C08","this-nil-check-dropped","pkg/exec/eval.go","""		thisValue := vm.GetThisValue()
		if thisValue == nil {
			return nil, zerr.ThisValueNotFound()
		}
		return value.NewMemberIV(thisValue, expr.MemberID.GetLiteral()), nil""","""		thisValue := vm.GetThisValue()
		return value.NewMemberIV(thisValue, expr.MemberID.GetLiteral()), nil""","其 without receiver no longer an error (nil root)"),
 ("C08","unknown-method-returns-null","pkg/value/hashmap.go","""		return fn(hm, values)
	}
	return nil, zerr.MethodNotFound(name)""","""		return fn(hm, values)
	}
	return NewNull(), nil""","unknown dictionary methods silently yield 空"),
 ("C08","object-setproperty-adds","pkg/value/object.go","""	if _, ok := zo.propList[name]; ok {
		zo.propList[name] = value
		return nil
	}
	return zerr.PropertyNotFound(name)""","""	zo.propList[name] = value
	return nil""","writing an undeclared property creates it"),
 ("C09","stop-continues-after-error","pkg/exec/eval.go","""			if rtnValue, err = evalStatement(vm, stmt); err != nil {
				return nil, err
			}""","""			if rtnValue, err = evalStatement(vm, stmt); err != nil {
				if _, isSig := err.(*zerr.Signal); isSig {
					return nil, err
				}
				continue
			}""","only signals stop a block; other errors are skipped"),
 ("C09","match-any-handler","pkg/exec/eval.go","if objClassName != \"\" && classID.GetLiteral() == objClassName {","if objClassName != \"\" {","the first handler catches every exception"),
 ("C10","exit-in-builtin","pkg/exec/globals.go","""		fmt.Fprintf(os.Stdout, "%s\\n", strings.Join(items, " "))
		return value.NewNull(), nil""","""		if _, err := fmt.Fprintf(os.Stdout, "%s\\n", strings.Join(items, " ")); err != nil {
			os.Exit(74)
		}
		return value.NewNull(), nil""","显示 exits the process when stdout fails"),
 ("C11","sources-time-in-display","pkg/value/number.go","""func (n *Number) String() string {
	return fmt.Sprintf("%v", n.value)""","""func (n *Number) String() string {
	if n.value == 0 && time.Now().UnixNano()%2 == 0 {
		return "0"
	}
	return fmt.Sprintf("%v", n.value)""","display of 0 depends on the clock"),
 ("C11","fmtptr-object-address","pkg/value/object.go","return fmt.Sprintf(\"‹对象·%s›\", zo.model.name)","return fmt.Sprintf(\"‹对象·%s@%p›\", zo.model.name, zo)","objects display their address"),
 ("C12","owner-foreign-writer","pkg/common/elem2json.go","""		target := value.NewEmptyHashMap()
		for k, v := range vv {
			finalValue := buildElementFromPlainValue(v)
			target.AppendKVPair(value.KVPair{
				Key:   k,
				Value: finalValue,
			})
		}""","""		target := value.NewEmptyHashMap()
		for k, v := range vv {
			target.GetValue()[k] = buildElementFromPlainValue(v)
		}""","a foreign package writes HashMap.value directly (keyOrder not maintained)"),
 ("C12","index-upper-bound-off-by-one","pkg/value/iv.go","""		realIndex := iv.index - 1
		if realIndex < 0 || realIndex >= len(arr.value) {
			return nil, zerr.IndexOutOfRange()
		}
		// set array value
		return arr.value[realIndex], nil""","""		realIndex := iv.index - 1
		if realIndex < 0 || realIndex > len(arr.value) {
			return nil, zerr.IndexOutOfRange()
		}
		// set array value
		return arr.value[realIndex], nil""","reading position length+1 is not rejected"),
 ("C12","len-of-keyorder-cap","pkg/value/hashmap.go","return NewNumber(float64(len(hm.value))), nil","return NewNumber(float64(cap(hm.keyOrder))), nil","dictionary length taken from the capacity of the order list"),
 ("C13","quotes-wrong-partner","pkg/syntax/zh/tokens.go","LeftSingleQuoteII: RightSingleQuoteII,","LeftSingleQuoteII: RightDoubleQuoteII,","‘ closes at ” instead of ’"),
 ("C14","count-check-dropped","pkg/exec/format_str.go","""	if len(paramElemList) != formatterCount {
		return nil, zerr.UnmatchFmtParams(formatStr.String())
	}
""","""	if len(paramElemList) < formatterCount {
		return nil, zerr.UnmatchFmtParams(formatStr.String())
	}
""","extra arguments of % are ignored silently"),
 ("C14","tmpl-nested-brace-accepted","pkg/exec/format_str.go","""			case sLiteral:
				state = sFormat
				fmtStack = append(fmtStack, []int{idx, fmtTypeFormatter, idx + 1}...)
			default:
				return nil, zerr.InvalidFmtTemplate(formatStr.String())""","""			case sLiteral:
				state = sFormat
				fmtStack = append(fmtStack, []int{idx, fmtTypeFormatter, idx + 1}...)
			default:
				// stay inside the placeholder""","{ inside a placeholder accepted"),
 ("C14","directive-percent-before-E","pkg/exec/format_str.go","""		case 'E':
			switch state {
			case sBegin, sPositiveSign, sFixedSign:""","""		case 'E':
			switch state {
			case sBegin, sPositiveSign, sFixedSign, sPercentSign:""","{#%E} accepted"),
 ("C15","once-always-execute","pkg/exec/eval.go","if extModule = vm.FindModuleByName(extLibName); extModule == nil {","if extModule = vm.FindModuleByName(extLibName); extModule == nil || len(node.ImportItems) > 0 {","selective imports re-execute the module body"),
 ("C15","exports-variables-too","pkg/exec/eval.go","""					err2 = vm.DeclareConstElement(vtag, obj)
				} else {""","""					err2 = vm.DeclareConstElement(vtag, obj)
					if m := vm.GetCurrentModule(); m != nil && err2 == nil {
						err2 = m.AddExportValue(vtag.GetLiteral(), obj)
					}
				} else {""","constants are exported like methods"),
 ("C16","nowrite-cache-in-global","pkg/exec/globals.go","""func newGlobalValues() map[string]r.Element {""","""func newGlobalValues() map[string]r.Element {
	if GlobalValues != nil {
		GlobalValues["空"] = value.NewNull()
	}""","builder writes into the exported package-level map"),
 ("C17","runeerror-size-test-dropped","pkg/io/input.go","if ru == utf8.RuneError && size <= 1 {","if ru == utf8.RuneError {","a literal U+FFFD is rejected as invalid"),
 ("C17","carry-dropped","pkg/io/file_stream.go","""	f.encBuffer = remains
""","""	_ = remains
""","remainder of a block not carried over"),
 ("C18","syntax-line-from-other-cursor","pkg/exec/error_printer.go","lineIdx := sw.parser.FindLineIdx(serr.Cursor, 0)","lineIdx := sw.parser.FindLineIdx(sw.parser.GetCursor(), 0)","syntax error line taken from the lexer's final cursor"),
 ("C18","evalstatement-line-after-dispatch","pkg/exec/eval.go","""	// set current line
	vm.SetCurrentLine(stmt.GetCurrentLine())

	switch v := stmt.(type) {
	case *syntax.VarDeclareStmt:
		return value.NewNull(), evalVarDeclareStmt(vm, v)""","""	switch v := stmt.(type) {
	case *syntax.VarDeclareStmt:
		return value.NewNull(), evalVarDeclareStmt(vm, v)
	}
	// set current line
	vm.SetCurrentLine(stmt.GetCurrentLine())

	switch v := stmt.(type) {
	case *syntax.VarDeclareStmt:
		return value.NewNull(), evalVarDeclareStmt(vm, v)""","令 statements run before their line is recorded"),
 ("C19","catch-plain-error","pkg/common/elem2json.go","""	if err := json.Unmarshal(vdata, &plainMap); err != nil {
		return nil, value.ThrowException("解析JSON失败 - " + err.Error())
	}""","""	if err := json.Unmarshal(vdata, &plainMap); err != nil {
		return nil, err
	}""","malformed JSON returns the raw Go error"),
 ("C19","kinds-bool-case-dropped","pkg/common/elem2json.go","""	case *value.Bool:
		return vv.GetValue()
""","","booleans are written as null"),
 ("C19","params-assert-before-validate","stdlib/json/json.go","""	if err := value.ValidateExactParams(values, "hashmap"); err != nil {
		return nil, err
	}
	p1 := values[0].(*value.HashMap)""","""	p1 := values[0].(*value.HashMap)
	if err := value.ValidateExactParams(values, "hashmap"); err != nil {
		return nil, err
	}""","生成JSON asserts its argument before validating"),
]
SERVER=[
 ("C20","owner-spawn-reads-childs","pkg/server/pm_server.go","""	// store child process
	pid := cmd.Process.Pid
""","""	// store child process
	pid := cmd.Process.Pid
	if _, dup := zns.childs[pid]; dup {
		return nil
	}
""","spawnProcess reads the worker table from a spawn goroutine"),
 ("C20","cap-unclamped","pkg/server/pm_server.go","""				if finalProcNum > cfg.MaxProcs {
					finalProcNum = cfg.MaxProcs
				}
""","","scale-up batch not capped by MaxProcs"),
 ("C20","worker-idle-before-completion","pkg/server/pm_server.go","""		select {
		case <-waitSig:
			zns.writeProcState(pipeWriter, WORKER_STATE_IDLE)
		case""","""		zns.writeProcState(pipeWriter, WORKER_STATE_IDLE)
		select {
		case <-waitSig:
		case""","IDLE reported before the handler completed"),
]
def sh(cmd, cwd=W, env=ENV, timeout=600):
    return subprocess.run(cmd, cwd=cwd, env=env, capture_output=True, text=True, timeout=timeout)
subprocess.run(['git','-C','/repo','worktree','remove','--force',W],capture_output=True)
shutil.rmtree(W, ignore_errors=True)
assert sh(['git','-C','/repo','worktree','add','-q','--detach',W,'HEAD'],cwd='/').returncode==0
kept=0
try:
  for (prop,name,f,old,new,what) in M+SERVER:
    p=os.path.join(W,f)
    s=open(p,encoding='utf-8').read()
    if s.count(old)!=1:
        print("SKIP %s-%s: anchor text found %d times"%(prop,name,s.count(old))); continue
    s2=s.replace(old,new)
    if 'time.Now()' in new and '"time"' not in s2:
        s2=s2.replace('import (','import (\n\t"time"',1)
    open(p,'w',encoding='utf-8').write(s2)
    sh(['gofmt','-w',f])
    server = f.startswith('pkg/server')
    if server:
        b=subprocess.run(['go','vet','./pkg/server'],cwd=W,env=dict(ENV,GOOS='darwin',CGO_ENABLED='0'),capture_output=True,text=True)
        ok = b.returncode==0
        t_ok = True
    else:
        b=sh(['go','build']+PK)
        ok = b.returncode==0
        t_ok=False
        if ok:
            t=sh(['go','test','-vet=off','-count=1']+TP)
            t_ok = t.returncode==0
    if not ok or not t_ok:
        print("DROP %s-%s: %s"%(prop,name,'does not build' if not ok else 'baseline tests fail'), (b.stderr or '')[:200].replace('\n',' '))
    else:
        d='/verif/seeded/own-%s-%s'%(prop,name)
        os.makedirs(d,exist_ok=True)
        diff=sh(['git','diff']).stdout
        open(d+'/patch.diff','w').write(diff)
        json.dump({"property":prop,"seed_id":"own-%s-%s"%(prop,name),"breaks":what,"files":[f],
                   "needs_to_manifest":"see 'breaks'; not exercised by the 195 baseline tests (they pass with the change)",
                   "author":"my own mutant for a rule the independently seeded changes do not exercise",
                   "confirmed_by_me":{"how":"applied in a scratch worktree of /repo HEAD: "+("GOOS=darwin go vet ./pkg/server passes" if server else "go build of the core packages and the 195 baseline tests pass")}},
                  open(d+'/meta.json','w'),indent=1,ensure_ascii=False)
        kept+=1
    sh(['git','checkout','--','.'])
finally:
  subprocess.run(['git','-C','/repo','worktree','remove','--force',W],capture_output=True)
print("kept",kept,"of",len(M)+len(SERVER))
