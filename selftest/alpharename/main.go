// alpharename - metamorphic robustness helper: consistently renames every local variable, parameter, named
// result, receiver, local constant and local type of the Go packages below a directory (a behaviour-preserving
// change), optionally also every unexported package-level function / method. Used to test that the checks do
// not depend on local names.
package main

import (
	"bytes"
	"flag"
	"fmt"
	"go/ast"
	"go/format"
	"go/token"
	"go/types"
	"os"
	"strings"

	"golang.org/x/tools/go/packages"
)

func main() {
	dir := flag.String("dir", ".", "module root (rewritten in place)")
	funcs := flag.Bool("funcs", false, "also rename unexported package-level functions and methods")
	fields := flag.Bool("fields", false, "also rename unexported struct fields")
	goos := flag.String("goos", "", "GOOS for loading (e.g. darwin for pkg/server)")
	flag.Parse()
	env := append(os.Environ(), "GOFLAGS=-mod=mod", "GOPROXY=off", "GOSUMDB=off", "GOTOOLCHAIN=local", "GOWORK=off", "CGO_ENABLED=0")
	if *goos != "" {
		env = append(env, "GOOS="+*goos)
	}
	fset := token.NewFileSet()
	cfg := &packages.Config{Mode: packages.NeedName | packages.NeedFiles | packages.NeedCompiledGoFiles | packages.NeedTypes | packages.NeedSyntax | packages.NeedTypesInfo | packages.NeedImports | packages.NeedDeps,
		Dir: *dir, Fset: fset, Env: env, Tests: true}
	pkgs, err := packages.Load(cfg, flag.Args()...)
	if err != nil {
		fmt.Println("load:", err)
		os.Exit(2)
	}
	renamed := 0
	done := map[string]bool{}
	// decide per object
	newName := func(o types.Object) (string, bool) {
		if o == nil || o.Pkg() == nil || o.Name() == "_" || o.Name() == "" {
			return "", false
		}
		switch x := o.(type) {
		case *types.Var:
			if x.IsField() {
				if *fields && !x.Exported() && !x.Embedded() {
					return o.Name() + "Q", true
				}
				return "", false
			}
			if o.Parent() == o.Pkg().Scope() {
				return "", false
			}
			return o.Name() + "Q", true
		case *types.Const, *types.TypeName:
			if o.Parent() == nil || o.Parent() == o.Pkg().Scope() || o.Parent() == types.Universe {
				return "", false
			}
			return o.Name() + "Q", true
		case *types.Func:
			if !*funcs || o.Exported() || o.Name() == "init" || o.Name() == "main" {
				return "", false
			}
			// methods that may implement an interface keep their name
			if sig := x.Type().(*types.Signature); sig.Recv() != nil {
				return "", false
			}
			if strings.HasPrefix(o.Name(), "Test") || strings.HasPrefix(o.Name(), "Benchmark") {
				return "", false
			}
			return o.Name() + "Q", true
		}
		return "", false
	}
	for _, p := range pkgs {
		if len(p.Errors) > 0 {
			fmt.Println("errors in", p.PkgPath, p.Errors[0])
			continue
		}
		for i, f := range p.Syntax {
			name := p.CompiledGoFiles[i]
			if done[name] {
				continue
			}
			changed := false
			ast.Inspect(f, func(n ast.Node) bool {
				// `switch v := x.(type)`: the declared symbol has no object of its own (one implicit object per clause)
				if ts, ok := n.(*ast.TypeSwitchStmt); ok {
					if as, ok := ts.Assign.(*ast.AssignStmt); ok && len(as.Lhs) == 1 {
						if id, ok := as.Lhs[0].(*ast.Ident); ok && id.Name != "_" && !strings.HasSuffix(id.Name, "Q") {
							id.Name += "Q"
							changed = true
						}
					}
					return true
				}
				id, ok := n.(*ast.Ident)
				if !ok {
					return true
				}
				o := p.TypesInfo.Defs[id]
				if o == nil {
					o = p.TypesInfo.Uses[id]
				}
				if nn, ok := newName(o); ok {
					id.Name = nn
					changed = true
					renamed++
				}
				return true
			})
			if changed {
				var buf bytes.Buffer
				if err := format.Node(&buf, fset, f); err != nil {
					fmt.Println("format:", name, err)
					os.Exit(2)
				}
				if err := os.WriteFile(name, buf.Bytes(), 0o644); err != nil {
					fmt.Println(err)
					os.Exit(2)
				}
			}
			done[name] = true
		}
	}
	fmt.Printf("renamed %d identifier occurrences in %d files\n", renamed, len(done))
}
