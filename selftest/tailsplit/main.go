// tailsplit - metamorphic robustness helper: splits functions in two. The statements of a function body from a
// chosen top-level statement onwards are moved, unchanged, into a new unexported function that receives the
// locals they use; the original function ends with a call of it ("extract the second phase into a helper", a
// behaviour-preserving refactoring). Applied to every eligible function of the packages below a directory, it
// tests that the checks do not depend on a piece of code living in one particular function.
//
// A function is eligible when the move is trivially safe: no defer / recover / label / goto / named results / type
// parameters, no closure and no address-of in the part that stays, no local constants or types used across the cut,
// and every moved variable has a type that can be written in the file.
package main

import (
	"bytes"
	"flag"
	"fmt"
	"go/ast"
	"go/format"
	"go/token"
	"go/types"
	"os"
	"sort"
	"strings"

	"golang.org/x/tools/go/packages"
)

func main() {
	dir := flag.String("dir", ".", "module root (rewritten in place)")
	goos := flag.String("goos", "", "GOOS for loading (e.g. darwin for pkg/server)")
	num := flag.Int("num", 1, "cut after statement ceil(n*num/den)")
	den := flag.Int("den", 2, "see -num")
	minStmts := flag.Int("min", 4, "minimum number of top-level statements")
	only := flag.String("only", "", "comma-separated function names (default: all eligible)")
	flag.Parse()
	env := append(os.Environ(), "GOFLAGS=-mod=mod", "GOPROXY=off", "GOSUMDB=off", "GOTOOLCHAIN=local", "GOWORK=off", "CGO_ENABLED=0")
	if *goos != "" {
		env = append(env, "GOOS="+*goos)
	}
	onlySet := map[string]bool{}
	for _, n := range strings.Split(*only, ",") {
		if n != "" {
			onlySet[n] = true
		}
	}
	fset := token.NewFileSet()
	cfg := &packages.Config{Mode: packages.NeedName | packages.NeedFiles | packages.NeedCompiledGoFiles | packages.NeedTypes | packages.NeedSyntax | packages.NeedTypesInfo | packages.NeedImports | packages.NeedDeps,
		Dir: *dir, Fset: fset, Env: env}
	pkgs, err := packages.Load(cfg, flag.Args()...)
	if err != nil {
		fmt.Println("load:", err)
		os.Exit(2)
	}
	nSplit, nSkipped := 0, 0
	reasons := map[string]int{}
	for _, p := range pkgs {
		if len(p.Errors) > 0 {
			fmt.Println("errors in", p.PkgPath, p.Errors[0])
			os.Exit(2)
		}
		taken := map[string]bool{}
		for _, n := range p.Types.Scope().Names() {
			taken[n] = true
		}
		for i, file := range p.Syntax {
			fname := p.CompiledGoFiles[i]
			if strings.HasSuffix(fname, "_test.go") {
				continue
			}
			src, err := os.ReadFile(fname)
			if err != nil {
				continue
			}
			type edit struct {
				from, to int
				text     string
			}
			var edits []edit
			var helpers []string
			for _, d := range file.Decls {
				fd, ok := d.(*ast.FuncDecl)
				if !ok || fd.Body == nil {
					continue
				}
				if len(onlySet) > 0 && !onlySet[fd.Name.Name] {
					continue
				}
				n := len(fd.Body.List)
				if n < *minStmts {
					continue
				}
				k := (n**num + *den - 1) / *den
				if k < 1 || k >= n {
					continue
				}
				why, params := eligible(p, file, fd, k)
				if why != "" {
					nSkipped++
					reasons[why]++
					continue
				}
				name := helperName(fd, taken)
				taken[name] = true
				off := func(pos token.Pos) int { return fset.Position(pos).Offset }
				tailFrom, tailTo := off(fd.Body.List[k].Pos()), off(fd.Body.Rbrace)
				// comments between statement k-1 and k stay with the tail: start right after the previous statement
				tailFrom = off(fd.Body.List[k-1].End())
				var args, decl []string
				for _, v := range params {
					args = append(args, v.name)
					decl = append(decl, v.name+" "+v.typ)
				}
				call := name + "(" + strings.Join(args, ", ") + ")"
				results := ""
				if fd.Type.Results != nil && len(fd.Type.Results.List) > 0 {
					call = "return " + call
					results = " " + string(src[off(fd.Type.Results.Pos()):off(fd.Type.Results.End())])
				}
				edits = append(edits, edit{tailFrom, tailTo, "\n" + call + "\n"})
				helpers = append(helpers, fmt.Sprintf("\n// %s - second part of %s\nfunc %s(%s)%s {%s}\n", name, fd.Name.Name, name, strings.Join(decl, ", "), results, string(src[tailFrom:tailTo])))
				nSplit++
			}
			if len(edits) == 0 {
				continue
			}
			sort.Slice(edits, func(i, j int) bool { return edits[i].from > edits[j].from })
			out := append([]byte{}, src...)
			for _, e := range edits {
				out = append(out[:e.from], append([]byte(e.text), out[e.to:]...)...)
			}
			out = append(out, []byte(strings.Join(helpers, ""))...)
			formatted, err := format.Source(out)
			if err != nil {
				fmt.Println("format:", fname, err)
				os.Exit(2)
			}
			if !bytes.Equal(formatted, src) {
				if err := os.WriteFile(fname, formatted, 0o644); err != nil {
					fmt.Println(err)
					os.Exit(2)
				}
			}
		}
	}
	fmt.Printf("split %d functions, %d not eligible\n", nSplit, nSkipped)
	var rs []string
	for r := range reasons {
		rs = append(rs, r)
	}
	sort.Strings(rs)
	for _, r := range rs {
		fmt.Printf("  %4d %s\n", reasons[r], r)
	}
}

type param struct {
	name, typ string
	pos       token.Pos
}

func helperName(fd *ast.FuncDecl, taken map[string]bool) string {
	base := fd.Name.Name
	if fd.Recv != nil && len(fd.Recv.List) == 1 {
		t := fd.Recv.List[0].Type
		if st, ok := t.(*ast.StarExpr); ok {
			t = st.X
		}
		if id, ok := t.(*ast.Ident); ok {
			base = id.Name + base
		}
	}
	base = strings.ToLower(base[:1]) + base[1:] + "Part2"
	name := base
	for i := 2; taken[name]; i++ {
		name = fmt.Sprintf("%s_%d", base, i)
	}
	return name
}

// eligible: "" and the variables to pass, or the reason why the function is left alone
func eligible(p *packages.Package, file *ast.File, fd *ast.FuncDecl, k int) (string, []param) {
	info := p.TypesInfo
	if fd.Type.TypeParams != nil {
		return "type parameters", nil
	}
	if fd.Recv != nil {
		for _, f := range fd.Recv.List {
			t := f.Type
			if st, ok := t.(*ast.StarExpr); ok {
				t = st.X
			}
			if _, ok := t.(*ast.Ident); !ok {
				return "generic receiver", nil
			}
		}
	}
	if fd.Type.Results != nil {
		for _, f := range fd.Type.Results.List {
			if len(f.Names) > 0 {
				return "named results", nil
			}
		}
	}
	why := ""
	ast.Inspect(fd.Body, func(n ast.Node) bool {
		switch x := n.(type) {
		case *ast.DeferStmt:
			why = "defer"
		case *ast.LabeledStmt:
			why = "label"
		case *ast.BranchStmt:
			if x.Tok == token.GOTO {
				why = "goto"
			}
		case *ast.CallExpr:
			if id, ok := x.Fun.(*ast.Ident); ok && id.Name == "recover" {
				why = "recover"
			}
		}
		return true
	})
	if why != "" {
		return why, nil
	}
	head, tail := fd.Body.List[:k], fd.Body.List[k:]
	for _, s := range head {
		ast.Inspect(s, func(n ast.Node) bool {
			switch x := n.(type) {
			case *ast.FuncLit:
				why = "closure in the first part"
			case *ast.UnaryExpr:
				if x.Op == token.AND {
					if _, isLit := x.X.(*ast.CompositeLit); !isLit {
						why = "address-of in the first part"
					}
				}
			}
			return true
		})
	}
	if why != "" {
		return why, nil
	}
	// the last statement of the first part must not be a terminating statement (the call would be unreachable code;
	// harmless, but vet complains)
	switch head[len(head)-1].(type) {
	case *ast.ReturnStmt:
		return "first part ends with return", nil
	}
	// imports of this file by package path
	importName := map[string]string{}
	for _, im := range file.Imports {
		path := strings.Trim(im.Path.Value, `"`)
		if im.Name != nil {
			importName[path] = im.Name.Name
		} else if q := p.Imports[path]; q != nil {
			importName[path] = q.Name
		}
	}
	bad := ""
	qual := func(q *types.Package) string {
		if q == p.Types {
			return ""
		}
		if n, ok := importName[q.Path()]; ok && n != "_" && n != "." {
			return n
		}
		bad = "type from a package the file does not import"
		return q.Name()
	}
	seen := map[types.Object]bool{}
	var params []param
	tailStart := tail[0].Pos()
	for _, s := range tail {
		ast.Inspect(s, func(n ast.Node) bool {
			id, ok := n.(*ast.Ident)
			if !ok {
				return true
			}
			o := info.Uses[id]
			if o == nil || seen[o] || o.Pkg() != p.Types || o.Parent() == p.Types.Scope() || o.Parent() == nil {
				return true
			}
			if o.Pos() < fd.Pos() || o.Pos() >= tailStart {
				return true
			}
			seen[o] = true
			switch x := o.(type) {
			case *types.Var:
				if x.IsField() {
					return true
				}
				// function-local named types cannot be written outside
				local := false
				walkNamed(x.Type(), func(tn *types.TypeName) {
					if tn.Pkg() != nil && tn.Parent() != tn.Pkg().Scope() {
						local = true
					}
				})
				if local {
					bad = "local type"
				}
				params = append(params, param{x.Name(), types.TypeString(x.Type(), qual), x.Pos()})
			default:
				bad = "local constant / type / label used across the cut"
			}
			return true
		})
	}
	if bad != "" {
		return bad, nil
	}
	sort.Slice(params, func(i, j int) bool { return params[i].pos < params[j].pos })
	return "", params
}

func walkNamed(t types.Type, f func(*types.TypeName)) {
	seen := map[types.Type]bool{}
	var w func(t types.Type)
	w = func(t types.Type) {
		if t == nil || seen[t] {
			return
		}
		seen[t] = true
		switch x := t.(type) {
		case *types.Named:
			f(x.Obj())
			if ta := x.TypeArgs(); ta != nil {
				for i := 0; i < ta.Len(); i++ {
					w(ta.At(i))
				}
			}
		case *types.Pointer:
			w(x.Elem())
		case *types.Slice:
			w(x.Elem())
		case *types.Array:
			w(x.Elem())
		case *types.Map:
			w(x.Key())
			w(x.Elem())
		case *types.Chan:
			w(x.Elem())
		case *types.Signature:
			for i := 0; i < x.Params().Len(); i++ {
				w(x.Params().At(i).Type())
			}
			for i := 0; i < x.Results().Len(); i++ {
				w(x.Results().At(i).Type())
			}
		}
	}
	w(t)
}
