#!/usr/bin/env python3
"""Regenerates MANIFEST.json from manifest_src.json (claimed checks) — keeps not_applicable current."""
import json, sys
src = json.load(open('/verif/manifest_src.json'))
props = [json.loads(l) for l in open('/verif/properties.jsonl')]
checks = []
na = []
for p in props:
    pid = p['id']
    c = src['checks'].get(pid)
    if c is None:
        na.append({"property_id": pid, "reason": src['not_applicable'].get(pid, "no static rule built yet for this property (see DESIGN.md); not claimed")})
        continue
    checks.append({
        "property_id": pid,
        "quick_cmd": "/verif/check %s --tier quick" % pid,
        "thorough_cmd": "/verif/check %s --tier thorough" % pid,
        "evidence_file": "/verif/evidence/%s.json" % pid,
        "replay_cmd_template": "cat {path}",
        "engine": "zncheck",
        "level_claimed": {"category": "other", "text": c['level_text'], "design_ref": "DESIGN.md §3 " + pid},
        "level_note": c['level_note'],
        "technique": c['technique'],
    })
m = {
    "version": 1,
    "setup_cmd": "cd /verif/zncheck && GOFLAGS=-mod=mod GOPROXY=off GOSUMDB=off GOTOOLCHAIN=local GOWORK=off go build -o /verif/bin/zncheck . && cd /verif/selftest/alpharename && GOFLAGS=-mod=mod GOPROXY=off GOSUMDB=off GOTOOLCHAIN=local GOWORK=off go build -o /verif/bin/alpharename . && cd /verif/selftest/tailsplit && GOFLAGS=-mod=mod GOPROXY=off GOSUMDB=off GOTOOLCHAIN=local GOWORK=off go build -o /verif/bin/tailsplit .",
    "hooks": {
        "guard": "verif",
        "enable": "no source hooks are needed: the checker reads /repo's working tree (go/packages, go/ssa) and never builds instrumented code",
        "baseline_off_cmd": "cd /repo && GOFLAGS=-mod=mod GOPROXY=off GOSUMDB=off go test -vet=off -count=1 ./pkg/exec ./pkg/io ./pkg/runtime ./pkg/syntax/... ./pkg/value",
        "source_commits": [],
        "add_only": True,
    },
    "engines": [{"name": "zncheck", "path": "/verif/zncheck", "serves_properties": [c['property_id'] for c in checks],
                 "kind_free_text": "repository-specific static analyser (go/packages + go/types AST queries, go/ssa dominance/dataflow, VTA call graph, table/automaton extraction, compiler prove-pass inventory); executes no Zn code"}],
    "checks": checks,
    "notes": src.get('notes', ''),
    "not_applicable": na,
}
json.dump(m, open('/verif/MANIFEST.json', 'w'), indent=1, ensure_ascii=False)
print("claimed:", len(checks), "not_applicable:", len(na))
