package main

import (
	"fmt"
	"go/constant"
	"go/token"
	"go/types"
	"sort"
	"strings"

	"golang.org/x/tools/go/ssa"
)

func init() { register("C05", checkC05) }

var frontPkgs = []string{"pkg/syntax", "pkg/syntax/zh"}

// ---------- progress analysis of the parser

type progress struct {
	u       *Universe
	adv     map[*ssa.Function]bool // must-advance-or-panic functions (greatest fixpoint)
	funcs   []*ssa.Function
	phaseOK map[ssa.Instruction]bool
}

// isParserNext: the primitive that consumes one token
func (pg *progress) isPrimitive(in ssa.Instruction) bool {
	return isCallTo(pg.u, in, "pkg/syntax/zh.ParserZH.next")
}

// barrierBlocks: blocks that are entered only after a token was consumed: the true successor of a
// test on the first result of tryConsume
func (pg *progress) tryConsumeTrueBlocks(f *ssa.Function) map[*ssa.BasicBlock]bool {
	out := map[*ssa.BasicBlock]bool{}
	for _, b := range f.Blocks {
		ifi, ok := b.Instrs[len(b.Instrs)-1].(*ssa.If)
		if !ok {
			continue
		}
		cond := ifi.Cond
		neg := false
		if un, ok := cond.(*ssa.UnOp); ok && un.Op == token.NOT {
			cond, neg = un.X, true
		}
		ex, ok := cond.(*ssa.Extract)
		if !ok || ex.Index != 0 {
			continue
		}
		call, ok := ex.Tuple.(*ssa.Call)
		if !ok || pg.u.callName(call) != "pkg/syntax/zh.ParserZH.tryConsume" {
			continue
		}
		succ := b.Succs[0]
		if neg {
			succ = b.Succs[1]
		}
		if len(succ.Preds) == 1 {
			out[succ] = true
		}
	}
	return out
}

// phaseCellStores: all constants stored into a phase cell (a local int variable, possibly captured)
func (pg *progress) cellConsts(cell ssa.Value) (map[int64]bool, bool) {
	// resolve a FreeVar to the Alloc of the enclosing function
	root := cell
	if fv, ok := cell.(*ssa.FreeVar); ok {
		fn := fv.Parent()
		if fn.Parent() == nil {
			return nil, false
		}
		idx := -1
		for i, x := range fn.FreeVars {
			if x == fv {
				idx = i
			}
		}
		root = nil
		for _, in := range instrsOf(fn.Parent()) {
			if mc, ok := in.(*ssa.MakeClosure); ok && mc.Fn == ssa.Value(fn) && idx >= 0 && idx < len(mc.Bindings) {
				root = mc.Bindings[idx]
			}
		}
		if root == nil {
			return nil, false
		}
	}
	al, ok := root.(*ssa.Alloc)
	if !ok {
		return nil, false
	}
	out := map[int64]bool{}
	okAll := true
	var visit func(v ssa.Value)
	seen := map[ssa.Value]bool{}
	visit = func(v ssa.Value) {
		if seen[v] {
			return
		}
		seen[v] = true
		for _, r := range *v.Referrers() {
			switch x := r.(type) {
			case *ssa.Store:
				if x.Addr == v {
					k, isK := x.Val.(*ssa.Const)
					if !isK || k.Value == nil || k.Value.Kind() != constant.Int {
						okAll = false
					} else {
						out[k.Int64()] = true
					}
				}
			case *ssa.MakeClosure:
				fn := x.Fn.(*ssa.Function)
				for i, b := range x.Bindings {
					if b == v && i < len(fn.FreeVars) {
						visit(fn.FreeVars[i])
					}
				}
			}
		}
	}
	visit(al)
	return out, okAll
}

// infeasibleBlocks: the 'no case matched' exit of a switch over a phase cell whose every stored value is one of the cases
func (pg *progress) infeasibleEdges(f *ssa.Function) map[cfgEdge]bool {
	out := map[cfgEdge]bool{}
	type test struct {
		b    *ssa.BasicBlock
		cell ssa.Value
		k    int64
	}
	var tests []test
	for _, b := range f.Blocks {
		ifi, ok := b.Instrs[len(b.Instrs)-1].(*ssa.If)
		if !ok {
			continue
		}
		bo, ok := ifi.Cond.(*ssa.BinOp)
		if !ok || bo.Op != token.EQL {
			continue
		}
		k, ok := bo.Y.(*ssa.Const)
		if !ok || k.Value == nil || k.Value.Kind() != constant.Int {
			continue
		}
		ld, ok := bo.X.(*ssa.UnOp)
		if !ok || ld.Op != token.MUL {
			continue
		}
		switch ld.X.(type) {
		case *ssa.FreeVar, *ssa.Alloc:
			tests = append(tests, test{b, ld.X, k.Int64()})
		}
	}
	byCell := map[ssa.Value][]test{}
	for _, t := range tests {
		byCell[t.cell] = append(byCell[t.cell], t)
	}
	for cell, ts := range byCell {
		stored, ok := pg.cellConsts(cell)
		if !ok || len(stored) == 0 {
			continue
		}
		tested := map[int64]bool{}
		isTest := map[*ssa.BasicBlock]bool{}
		for _, t := range ts {
			tested[t.k] = true
			isTest[t.b] = true
		}
		all := true
		for v := range stored {
			if !tested[v] {
				all = false
			}
		}
		if !all {
			continue
		}
		for _, t := range ts {
			if nb := t.b.Succs[1]; !isTest[nb] {
				out[cfgEdge{t.b, nb}] = true
			}
		}
	}
	return out
}

// blockBarriers = matched-tryConsume blocks + infeasible phase-switch exits
func (pg *progress) blockBarriers(f *ssa.Function) map[*ssa.BasicBlock]bool {
	return pg.tryConsumeTrueBlocks(f)
}

// barrier predicate for function f under the current ADV set
func (pg *progress) barrier(f *ssa.Function) func(ssa.Instruction) bool {
	return func(in ssa.Instruction) bool {
		if pg.isPrimitive(in) {
			return true
		}
		if call, ok := in.(ssa.CallInstruction); ok {
			if _, isDefer := in.(*ssa.Defer); isDefer {
				return false
			}
			if callee := call.Common().StaticCallee(); callee != nil && pg.adv[callee] {
				return true
			}
			// calls of local closures (parseTail, consumer()) advance if every possible target does
			if call.Common().StaticCallee() == nil && !call.Common().IsInvoke() {
				ts := closureTargets(call)
				if len(ts) > 0 {
					all := true
					for _, t := range ts {
						if !pg.adv[t] {
							all = false
						}
					}
					return all
				}
			}
		}
		if pg.phaseOK[in] {
			return true
		}
		return false
	}
}

// phaseStores: stores of a larger constant into a phase variable under the case of a smaller one
func (pg *progress) computePhaseStores() {
	pg.phaseOK = map[ssa.Instruction]bool{}
	for _, f := range pg.funcs {
		for _, in := range instrsOf(f) {
			st, ok := in.(*ssa.Store)
			if !ok {
				continue
			}
			k, ok := st.Val.(*ssa.Const)
			if !ok || k.Value == nil || k.Value.Kind() != constant.Int {
				continue
			}
			// phase variable: a captured (FreeVar) or local int cell
			var cell ssa.Value = st.Addr
			switch cell.(type) {
			case *ssa.FreeVar, *ssa.Alloc:
			default:
				continue
			}
			// dominated by the true edge of `load(cell) == j` with j < k
			for _, b := range f.Blocks {
				ifi, ok := b.Instrs[len(b.Instrs)-1].(*ssa.If)
				if !ok {
					continue
				}
				bo, ok := ifi.Cond.(*ssa.BinOp)
				if !ok || bo.Op != token.EQL {
					continue
				}
				j, ok := bo.Y.(*ssa.Const)
				if !ok {
					continue
				}
				ld, ok := bo.X.(*ssa.UnOp)
				if !ok || ld.Op != token.MUL || ld.X != cell {
					continue
				}
				if (edgeDominates(b, b.Succs[0], st.Block()) || b.Succs[0].Dominates(st.Block())) && k.Int64() > j.Int64() {
					pg.phaseOK[in] = true
				}
			}
		}
	}
}

func newProgress(u *Universe) *progress {
	pg := &progress{u: u, adv: map[*ssa.Function]bool{}}
	for _, f := range u.srcFuncs("pkg/syntax/zh") {
		pg.funcs = append(pg.funcs, f)
	}
	pg.computePhaseStores()
	// greatest fixpoint: start with everything, remove functions that can return without advancing
	for _, f := range pg.funcs {
		pg.adv[f] = true
	}
	if nx := u.ssaFunc("pkg/syntax/zh", "ParserZH.next"); nx != nil {
		pg.adv[nx] = true
	}
	for changed := true; changed; {
		changed = false
		for _, f := range pg.funcs {
			if !pg.adv[f] || u.fname(f) == "pkg/syntax/zh.ParserZH.next" {
				continue
			}
			isRet := func(x ssa.Instruction) bool { _, ok := x.(*ssa.Return); return ok }
			if len(f.Blocks) == 0 || reachableAvoidingE(f.Blocks[0], 0, isRet, pg.barrier(f), pg.blockBarriers(f), pg.infeasibleEdges(f)) != nil {
				pg.adv[f] = false
				changed = true
			}
		}
	}
	return pg
}

// naturalLoops: headers = targets of back edges (edge to a dominator)
func loopHeaders(f *ssa.Function) []*ssa.BasicBlock {
	var hs []*ssa.BasicBlock
	seen := map[*ssa.BasicBlock]bool{}
	for _, b := range f.Blocks {
		for _, s := range b.Succs {
			if s.Dominates(b) && !seen[s] {
				seen[s] = true
				hs = append(hs, s)
			}
		}
	}
	sort.Slice(hs, func(i, j int) bool { return hs[i].Index < hs[j].Index })
	return hs
}

// cycleAvoiding: a cycle through header h exists that avoids barrier instructions
func cycleAvoiding(h *ssa.BasicBlock, barrier func(ssa.Instruction) bool) bool {
	return cycleAvoidingB(h, barrier, nil)
}

func cycleAvoidingB(h *ssa.BasicBlock, barrier func(ssa.Instruction) bool, blockBarrier map[*ssa.BasicBlock]bool) bool {
	return cycleAvoidingE(h, barrier, blockBarrier, nil)
}

func cycleAvoidingE(h *ssa.BasicBlock, barrier func(ssa.Instruction) bool, blockBarrier map[*ssa.BasicBlock]bool, edgeBarrier map[cfgEdge]bool) bool {
	// start after the header's own instructions if none is a barrier
	for _, in := range h.Instrs {
		if barrier(in) {
			return false
		}
	}
	seen := map[*ssa.BasicBlock]bool{}
	var stack []*ssa.BasicBlock
	for _, s0 := range h.Succs {
		if !blockBarrier[s0] && !edgeBarrier[cfgEdge{h, s0}] {
			stack = append(stack, s0)
		}
	}
	for len(stack) > 0 {
		b := stack[len(stack)-1]
		stack = stack[:len(stack)-1]
		if b == h {
			return true
		}
		if seen[b] || !h.Dominates(b) || blockBarrier[b] {
			continue
		}
		seen[b] = true
		blocked := false
		for _, in := range b.Instrs {
			if barrier(in) {
				blocked = true
				break
			}
		}
		if !blocked {
			for _, s2 := range b.Succs {
				if !edgeBarrier[cfgEdge{b, s2}] {
					stack = append(stack, s2)
				}
			}
		}
	}
	return false
}

// countedLoop: the header has an integer phi that is stepped by a constant on the back edge and
// compared in the loop's exit condition (range loops over slices/strings/ints included)
func countedLoop(h *ssa.BasicBlock) bool {
	for _, in := range h.Instrs {
		phi, ok := in.(*ssa.Phi)
		if !ok {
			break
		}
		stepped := false
		for _, e := range phi.Edges {
			if bo, ok := e.(*ssa.BinOp); ok && (bo.Op == token.ADD || bo.Op == token.SUB) && bo.X == ssa.Value(phi) {
				if _, isK := bo.Y.(*ssa.Const); isK {
					stepped = true
				}
			}
		}
		if !stepped {
			continue
		}
		// exit test on the phi (or its stepped value) in the header or right after
		for _, b := range append([]*ssa.BasicBlock{h}, h.Succs...) {
			if ifi, ok := b.Instrs[len(b.Instrs)-1].(*ssa.If); ok {
				if bo, ok := ifi.Cond.(*ssa.BinOp); ok {
					uses := func(v ssa.Value) bool {
						if v == ssa.Value(phi) {
							return true
						}
						if bb, ok := v.(*ssa.BinOp); ok && bb.X == ssa.Value(phi) {
							return true
						}
						return false
					}
					if uses(bo.X) || uses(bo.Y) {
						return true
					}
				}
			}
		}
	}
	// range over string / map / channel: Next instruction in the header
	for _, in := range h.Instrs {
		if _, ok := in.(*ssa.Next); ok {
			return true
		}
	}
	return false
}

type progressAllow struct {
	Reason string `json:"reason"`
	Side   string `json:"side_condition,omitempty"`
}

func checkProgress(c *Ctx, u *Universe) {
	R := c.R
	var allow map[string]progressAllow
	if !loadTable(c, "progress_allow.json", &allow) {
		return
	}
	pg := newProgress(u)
	lexNext := func(in ssa.Instruction) bool {
		return isCallTo(u, in, "pkg/syntax.Lexer.Next")
	}
	// lexer-level must-advance functions (call Next on every path): small fixpoint
	lexAdv := map[*ssa.Function]bool{}
	var lexFuncs []*ssa.Function
	for _, rel := range frontPkgs {
		lexFuncs = append(lexFuncs, u.srcFuncs(rel)...)
	}
	lexBarrier := func(in ssa.Instruction) bool {
		if lexNext(in) {
			return true
		}
		if call, ok := in.(ssa.CallInstruction); ok {
			if _, isDefer := in.(*ssa.Defer); !isDefer {
				if callee := call.Common().StaticCallee(); callee != nil && lexAdv[callee] {
					return true
				}
			}
		}
		return false
	}
	for _, f := range lexFuncs {
		lexAdv[f] = true
	}
	for changed := true; changed; {
		changed = false
		for _, f := range lexFuncs {
			if !lexAdv[f] || len(f.Blocks) == 0 {
				continue
			}
			isRet := func(x ssa.Instruction) bool { _, ok := x.(*ssa.Return); return ok }
			if reachableAvoiding(f.Blocks[0], 0, isRet, lexBarrier) != nil {
				lexAdv[f] = false
				changed = true
			}
		}
	}

	nLoops := 0
	scanFuncs := append([]*ssa.Function{}, lexFuncs...)
	if f := u.ssaFunc("pkg/exec", "fmtErrorSourceLineWithParser"); f != nil {
		scanFuncs = append(scanFuncs, f)
	}
	if f := u.ssaFunc("pkg/exec", "calcCursorOffset"); f != nil {
		scanFuncs = append(scanFuncs, f)
		scanFuncs = append(scanFuncs, f.AnonFuncs...)
	}
	for _, f := range scanFuncs {
		name := u.fname(f)
		if strings.Contains(name, "stringify") || strings.HasPrefix(name, "pkg/syntax.Stringify") || strings.HasPrefix(name, "pkg/syntax.stringify") {
			continue // debug printer, not on the compile / error-display path
		}
		hs := loopHeaders(f)
		for i, h := range hs {
			nLoops++
			key := fmt.Sprintf("%s:loop#%d", name, i+1)
			pos := u.pos(firstPos(h))
			switch {
			case countedLoop(h):
				R.hold("C05.progress", key, pos, "counted loop / range: the counter moves toward its bound on every cycle")
			case !cycleAvoiding(h, lexBarrier):
				R.hold("C05.progress", key, pos, "every cycle consumes an input character (Lexer.Next or a must-advance callee); the loop leaves on the EOF character")
			case strings.HasSuffix(f.Pkg.Pkg.Path(), "pkg/syntax/zh") && !cycleAvoidingB(h, pg.barrier(f), pg.blockBarriers(f)):
				R.hold("C05.progress", key, pos, "every cycle consumes a token (next / consume / matched tryConsume / must-advance production) or strictly advances a phase variable")
			case commentSkipLoop(u, h):
				// recognised by shape (wherever it lives): each cycle calls NextToken and continues only under
				// `token.Type == TypeComment`; a comment token is produced only after characters were consumed
				if msg := progressSide(u, pg, "comment-token-consumes"); msg != "" {
					R.viol("C05.progress", key, pos, "the argument that this loop terminates no longer applies: "+msg)
					continue
				}
				R.hold("C05.progress", key, pos, "comment-skipping loop: every cycle calls NextToken and repeats only while it yields a comment token, which parseComment produces only after consuming characters (the EOF token is not a comment)")
			default:
				if a, ok := allow[key]; ok {
					if a.Side != "" {
						if msg := progressSide(u, pg, a.Side); msg != "" {
							R.viol("C05.progress", key, pos, "the argument that this loop terminates no longer applies: "+msg)
							continue
						}
					}
					R.hold("C05.progress", key, pos, "reviewed: "+a.Reason)
					continue
				}
				R.viol("C05.progress", key, pos, "a cycle of this loop neither consumes input nor advances a counter or phase: on some input the front end can hang")
			}
		}
	}
	R.min("C05.progress", 25)
	R.count("front_end_loops", nLoops)

	// parseItemListBlock consumers: every call of the closure must consume a token, advance its phase or panic
	pil := u.ssaFunc("pkg/syntax/zh", "parseItemListBlock")
	if pil == nil {
		R.lost("C05.progress", "pkg/syntax/zh.parseItemListBlock")
	} else {
		nCons := 0
		for _, f := range pg.funcs {
			for _, call := range u.callsNamed(f, "pkg/syntax/zh.parseItemListBlock") {
				args := call.Common().Args
				for _, t := range closureTargetsOfValue(args[2]) {
					nCons++
					key := u.fname(t) + ":item-consumer"
					if pg.adv[t] {
						R.hold("C05.progress", key, u.pos(t.Pos()), "each call consumes at least one token, strictly advances its phase variable, or raises a syntax error")
						continue
					}
					if a, ok := allow[key]; ok {
						if a.Side != "" {
							if msg := progressSide(u, pg, a.Side); msg != "" {
								R.viol("C05.progress", key, u.pos(t.Pos()), "the argument that this consumer makes progress no longer applies: "+msg)
								continue
							}
						}
						R.hold("C05.progress", key, u.pos(t.Pos()), "reviewed: "+a.Reason)
						continue
					}
					R.viol("C05.progress", key, u.pos(t.Pos()), "the block-item consumer can return without consuming a token or advancing its phase: parseItemListBlock calls it again in the same state forever (compilation hangs)")
				}
			}
		}
		if nCons < 5 {
			R.viol("C05.progress", "parseItemListBlock:consumers", u.pos(pil.Pos()), fmt.Sprintf("expected 5 block-item consumers, found %d", nCons))
		}
	}

	// recursion: no cycle of calls that can be taken without consuming a token
	edges := map[*ssa.Function][]*ssa.Function{}
	for _, f := range pg.funcs {
		if len(f.Blocks) == 0 {
			continue
		}
		bar := pg.barrier(f)
		for _, in := range instrsOf(f) {
			call, ok := in.(ssa.CallInstruction)
			if !ok {
				continue
			}
			var targets []*ssa.Function
			if callee := call.Common().StaticCallee(); callee != nil {
				targets = []*ssa.Function{callee}
			} else if !call.Common().IsInvoke() {
				targets = closureTargets(call)
			}
			for _, t := range targets {
				if t.Pkg == nil || !strings.HasSuffix(t.Pkg.Pkg.Path(), "pkg/syntax/zh") {
					continue
				}
				// reachable from entry without progress?
				if reachableAvoidingE(f.Blocks[0], 0, func(x ssa.Instruction) bool { return x == in }, bar, pg.blockBarriers(f), pg.infeasibleEdges(f)) != nil {
					edges[f] = append(edges[f], t)
				}
			}
		}
		// a function literal created in f belongs to f's activation: calling the parent does not enter it,
		// but the closure is entered through its call sites handled above
	}
	color := map[*ssa.Function]int{}
	var cyc []string
	var dfs func(f *ssa.Function, path []*ssa.Function) bool
	dfs = func(f *ssa.Function, path []*ssa.Function) bool {
		color[f] = 1
		path = append(path, f)
		for _, t := range edges[f] {
			if color[t] == 1 {
				for _, p := range path {
					cyc = append(cyc, u.fname(p))
				}
				cyc = append(cyc, u.fname(t))
				return true
			}
			if color[t] == 0 && dfs(t, path) {
				return true
			}
		}
		color[f] = 2
		return false
	}
	found := false
	for _, f := range pg.funcs {
		if color[f] == 0 && dfs(f, nil) {
			found = true
			break
		}
	}
	R.check(!found, "C05.progress", "parser:left-recursion", "", fmt.Sprintf("no cycle of productions can be entered without consuming a token (%d functions, %d no-progress call edges)", len(pg.funcs), countEdges(edges)),
		"productions can call each other forever without consuming input: "+strings.Join(cyc, " -> "))
	nAdv := 0
	for _, f := range pg.funcs {
		if pg.adv[f] {
			nAdv++
		}
	}
	R.count("must_advance_productions", nAdv)
}

// commentSkipLoop: every cycle through h calls zh.NextToken and traverses the "is a comment" edge of a
// test `<syntax.Token>.Type ==/!= TypeComment`
func commentSkipLoop(u *Universe, h *ssa.BasicBlock) bool {
	f := h.Parent()
	if f.Pkg == nil || !strings.HasSuffix(f.Pkg.Pkg.Path(), "pkg/syntax/zh") {
		return false
	}
	tc, _ := f.Pkg.Pkg.Scope().Lookup("TypeComment").(*types.Const)
	if tc == nil {
		return false
	}
	want, exact := constant.Int64Val(tc.Val())
	if !exact {
		return false
	}
	isTypeOfToken := func(v ssa.Value) bool {
		switch x := v.(type) {
		case *ssa.Field:
			st, ok := x.X.Type().Underlying().(*types.Struct)
			return ok && fieldName(st.Field(x.Field)) == "Type" && namedTypeIs(x.X.Type(), "pkg/syntax", "Token")
		case *ssa.UnOp:
			if fa, ok := x.X.(*ssa.FieldAddr); ok && x.Op == token.MUL {
				return fieldAddrName(fa) == "Token.Type"
			}
		}
		return false
	}
	commentEdges := map[cfgEdge]bool{}
	for _, b := range f.Blocks {
		if !h.Dominates(b) {
			continue
		}
		ifi, ok := b.Instrs[len(b.Instrs)-1].(*ssa.If)
		if !ok {
			continue
		}
		bo, ok := ifi.Cond.(*ssa.BinOp)
		if !ok || (bo.Op != token.EQL && bo.Op != token.NEQ) {
			continue
		}
		x, y := bo.X, bo.Y
		if _, isK := x.(*ssa.Const); isK {
			x, y = y, x
		}
		k, isK := y.(*ssa.Const)
		if !isK || k.Value == nil || k.Value.Kind() != constant.Int || k.Int64() != want || !isTypeOfToken(x) {
			continue
		}
		if bo.Op == token.EQL {
			commentEdges[cfgEdge{b, b.Succs[0]}] = true
		} else {
			commentEdges[cfgEdge{b, b.Succs[1]}] = true
		}
	}
	if len(commentEdges) == 0 {
		return false
	}
	isNextToken := func(in ssa.Instruction) bool { return isCallTo(u, in, "pkg/syntax/zh.NextToken") }
	return !cycleAvoidingE(h, isNextToken, nil, nil) && !cycleAvoidingE(h, func(ssa.Instruction) bool { return false }, nil, commentEdges)
}

func countEdges(m map[*ssa.Function][]*ssa.Function) int {
	n := 0
	for _, v := range m {
		n += len(v)
	}
	return n
}

func firstPos(b *ssa.BasicBlock) token.Pos {
	for _, in := range b.Instrs {
		if in.Pos().IsValid() {
			return in.Pos()
		}
	}
	for _, s := range b.Succs {
		for _, in := range s.Instrs {
			if in.Pos().IsValid() {
				return in.Pos()
			}
		}
	}
	return token.NoPos
}

func closureTargetsOfValue(v ssa.Value) []*ssa.Function {
	var out []*ssa.Function
	for _, s := range allSources(v) {
		switch x := s.(type) {
		case *ssa.MakeClosure:
			if fn, ok := x.Fn.(*ssa.Function); ok {
				out = append(out, fn)
			}
		case *ssa.Function:
			out = append(out, x)
		}
	}
	return out
}

// progressSide: machine-checked side conditions of reviewed progress entries
func progressSide(u *Universe, pg *progress, name string) string {
	switch name {
	case "parseSpaces-same-predicate":
		// PreNextToken calls parseSpaces only on the true edge of IsWhiteSpace(ch), and parseSpaces loops while
		// IsWhiteSpace(ch) calling Next: so each call consumes at least one character
		f := u.ssaFunc("pkg/syntax", "Lexer.PreNextToken")
		g := u.ssaFunc("pkg/syntax", "Lexer.parseSpaces")
		if f == nil || g == nil {
			return "PreNextToken / parseSpaces not found"
		}
		okCall := false
		for _, call := range u.callsNamed(f, "pkg/syntax.Lexer.parseSpaces") {
			for _, b := range f.Blocks {
				if ifi, ok := b.Instrs[len(b.Instrs)-1].(*ssa.If); ok {
					if cv, ok := ifi.Cond.(*ssa.Call); ok && u.callName(cv) == "pkg/syntax.IsWhiteSpace" && cv.Call.Args[0] == call.Common().Args[1] && b.Succs[0].Dominates(call.Block()) {
						okCall = true
					}
				}
			}
		}
		if !okCall {
			// parseSpaces written out in place: `if IsWhiteSpace(c) { for IsWhiteSpace(c) { c = Next() } }` - the first
			// test of the inner loop repeats the outer one on the same value, so at least one Next() happens
			okInline := false
			for _, b := range f.Blocks {
				ifi, ok := b.Instrs[len(b.Instrs)-1].(*ssa.If)
				if !ok {
					continue
				}
				cv, ok := ifi.Cond.(*ssa.Call)
				if !ok || u.callName(cv) != "pkg/syntax.IsWhiteSpace" {
					continue
				}
				phi, ok := cv.Call.Args[0].(*ssa.Phi)
				if !ok {
					continue
				}
				var first ssa.Value
				fromNext := false
				for _, e := range phi.Edges {
					if nc, ok := e.(*ssa.Call); ok && u.callName(nc) == "pkg/syntax.Lexer.Next" && b.Succs[0].Dominates(nc.Block()) {
						fromNext = true
					} else {
						first = e
					}
				}
				if !fromNext || first == nil {
					continue
				}
				for _, d := range f.Blocks {
					if i2, ok := d.Instrs[len(d.Instrs)-1].(*ssa.If); ok && d != b {
						if c2, ok := i2.Cond.(*ssa.Call); ok && u.callName(c2) == "pkg/syntax.IsWhiteSpace" && c2.Call.Args[0] == first && (edgeDominates(d, d.Succs[0], b) || (d.Succs[0] == b && d.Dominates(b))) {
							okInline = true
						}
					}
				}
			}
			if !okInline {
				return "parseSpaces is not called under IsWhiteSpace(ch) of the same character"
			}
			if pl := u.ssaFunc("pkg/syntax", "Lexer.parseLine"); pl != nil {
				isRet := func(x ssa.Instruction) bool { _, ok := x.(*ssa.Return); return ok }
				if reachableAvoiding(pl.Blocks[0], 0, isRet, func(x ssa.Instruction) bool { return isCallTo(u, x, "pkg/syntax.Lexer.Next") }) != nil {
					return "parseLine can return without consuming the line break"
				}
			}
			return ""
		}
		// in parseSpaces: loop condition IsWhiteSpace(phi) with phi edges {param ch, result of Next()}
		okLoop := false
		for _, b := range g.Blocks {
			if ifi, ok := b.Instrs[len(b.Instrs)-1].(*ssa.If); ok {
				if cv, ok := ifi.Cond.(*ssa.Call); ok && u.callName(cv) == "pkg/syntax.IsWhiteSpace" {
					if phi, ok := cv.Call.Args[0].(*ssa.Phi); ok {
						fromParam, fromNext := false, false
						for _, e := range phi.Edges {
							if e == ssa.Value(g.Params[1]) {
								fromParam = true
							}
							if nc, ok := e.(*ssa.Call); ok && u.callName(nc) == "pkg/syntax.Lexer.Next" && b.Succs[0].Dominates(nc.Block()) {
								fromNext = true
							}
						}
						if fromParam && fromNext {
							okLoop = true
						}
					}
				}
			}
		}
		if !okLoop {
			return "parseSpaces does not loop `while IsWhiteSpace(ch) { ch = Next() }` on the character it was given (a white-space rune other than the ones it tests would never be consumed)"
		}
		// parseLine always calls Next
		if pl := u.ssaFunc("pkg/syntax", "Lexer.parseLine"); pl != nil {
			isRet := func(x ssa.Instruction) bool { _, ok := x.(*ssa.Return); return ok }
			if reachableAvoiding(pl.Blocks[0], 0, isRet, func(x ssa.Instruction) bool { return isCallTo(u, x, "pkg/syntax.Lexer.Next") }) != nil {
				return "parseLine can return without consuming the line break"
			}
		}
		return ""
	case "execblock-absorbs-same-indent":
		// ParseProgram's consumer calls ParseExecBlock(p, indent) with the indent of its own list loop
		f := u.ssaFunc("pkg/syntax/zh", "ParseProgram")
		if f == nil {
			return "ParseProgram not found"
		}
		var outerIndent ssa.Value
		for _, call := range u.callsNamed(f, "pkg/syntax/zh.parseItemListBlock") {
			outerIndent = call.Common().Args[1]
		}
		if outerIndent == nil {
			return "ParseProgram no longer drives its items through parseItemListBlock"
		}
		ok := false
		for _, a := range f.AnonFuncs {
			for _, call := range u.callsNamed(a, "pkg/syntax/zh.ParseExecBlock") {
				arg := call.Common().Args[1]
				// the closure reads the captured variable that the outer call passes
				if un, isUn := arg.(*ssa.UnOp); isUn {
					if fv, isFV := un.X.(*ssa.FreeVar); isFV {
						if ou, isOU := outerIndent.(*ssa.UnOp); isOU {
							if al, isAl := ou.X.(*ssa.Alloc); isAl && al.Comment == fv.Name() {
								ok = true
							}
						}
					}
				}
				if arg == outerIndent {
					ok = true
				}
			}
		}
		if !ok {
			return "ParseExecBlock is not called with the indent of the enclosing item loop (after it returns the outer loop condition need not be false)"
		}
		// ParseExecBlock itself runs parseItemListBlock on its indent parameter and consumes nothing afterwards
		g := u.ssaFunc("pkg/syntax/zh", "ParseExecBlock")
		if g == nil {
			return "ParseExecBlock not found"
		}
		calls := u.callsNamed(g, "pkg/syntax/zh.parseItemListBlock")
		if len(calls) != 1 || calls[0].Common().Args[1] != ssa.Value(g.Params[1]) {
			return "ParseExecBlock does not run its item loop on the indent it was given"
		}
		if reachableAvoiding(calls[0].Block(), instrIndex(calls[0])+1, func(x ssa.Instruction) bool {
			return pg.isPrimitive(x) || isCallTo(u, x, "pkg/syntax/zh.ParserZH.tryConsume", "pkg/syntax/zh.ParserZH.consume")
		}, nil) != nil {
			return "ParseExecBlock consumes tokens after its item loop"
		}
		return ""
	case "comment-token-consumes":
		// NextToken yields a comment token only from parseComment, and parseComment answers isComment=true
		// only after at least one Next()
		g := u.ssaFunc("pkg/syntax/zh", "parseComment")
		if g == nil {
			return "parseComment not found"
		}
		for _, b := range g.Blocks {
			ret, ok := b.Instrs[len(b.Instrs)-1].(*ssa.Return)
			if !ok {
				continue
			}
			k, isK := retValue(ret, 0).(*ssa.Const)
			if isK && k.Value != nil && !constant.BoolVal(k.Value) {
				continue
			}
			// a character is consumed by Next() here or in a helper every normal exit of which follows a Next()
			nextNames := map[string]bool{"pkg/syntax.Lexer.Next": true}
			consumes := func(x ssa.Instruction) bool {
				if isCallTo(u, x, "pkg/syntax.Lexer.Next") {
					return true
				}
				if call, isCall := x.(*ssa.Call); isCall {
					if h := call.Call.StaticCallee(); h != nil && h.Pkg == g.Pkg && h != g {
						return mustCall(u, h, nextNames, 2, map[*ssa.Function]int{})
					}
				}
				return false
			}
			if reachableAvoiding(g.Blocks[0], 0, func(x ssa.Instruction) bool { return x == ssa.Instruction(ret) }, consumes) != nil {
				return "parseComment can report a comment token without consuming a character"
			}
		}
		return ""
	case "halving-interval":
		if msg := bceSideCondition(u, "binary-search-midpoint-updates"); msg != "" {
			return msg
		}
		return ""
	}
	return "unknown side condition " + name
}

func checkC05(c *Ctx) {
	R := c.R
	R.Explain = "Decided: (C05.progress) every loop of the lexer, the parser and the error printer is a counted loop, consumes an input character / token on every cycle, strictly advances a phase variable, or is a reviewed entry with a machine-checked side condition; " +
		"every parseItemListBlock consumer consumes a token, advances its phase or raises a syntax error on each call; no cycle of productions can be entered without consuming a token (call-graph check with must-advance summaries as greatest fixpoint); " +
		"(C05.panic) every panic in the parser carries an error and every error built in the front end is a *zerr.SyntaxError constructor (so Parser.Parse's recover returns a single syntax error with code); " +
		"(C05.cursor) the lexer cursor only moves inside [0, len(Source)] and every syntax-error constructor receives a position derived from GetCursor() / a token's StartIdx; " +
		"(C05.nilderef) the not-yet-existing current token (TokenP1) and possibly-nil line infos are dereferenced only under a nil test (or a reviewed invariant); " +
		"(C05.index) every bounds check of the front end and the error printer that the compiler cannot prove is in the reviewed table with its invariant; (C05.render) the caret line never repeats a negative count. " +
		"(C05.errdrop) after every call of a front-end function that can fail, a normal return is reachable only over the nil edge of a test of that error or by returning it (an error is never dropped and a zero token never mistaken for EOF). (C05.nilfield) pointer fields that some code compares with nil (Program.ExecBlock, ExecBlock.StmtBlock, TokenP1 …) are dereferenced through a parameter only behind a nil test (inconsistent-check rule, access paths compared). NOT decided: 'promptly' (complexity), that the quoted line is the right line (C18)."
	R.Assumptions = []string{"Lexer.getChar returns RuneEOF at and beyond the end of input", "tables/progress_allow.json and tables/bce.json reviewed entry by entry"}
	u := c.Core()
	u.buildSSA()
	ruleLineIndents(c, u, "C05.indents")
	checkProgress(c, u)

	// ---- C05.whole: compilation yields a tree only for the whole text: after the program production ParseAST tests that the
	// next token is the end-of-input token (the lexer runs one token ahead, so the cursor position does not tell)
	if g := u.ssaFunc("pkg/syntax/zh", "ParserZH.ParseAST"); g != nil {
		eof := constsWithPrefix(u.Pkgs["pkg/syntax/zh"], "TypeEOF")["TypeEOF"]
		okW := false
		for _, b := range g.Blocks {
			ifi, ok := b.Instrs[len(b.Instrs)-1].(*ssa.If)
			if !ok {
				continue
			}
			bo, ok := ifi.Cond.(*ssa.BinOp)
			if !ok || (bo.Op != token.NEQ && bo.Op != token.EQL) {
				continue
			}
			k, isK := bo.Y.(*ssa.Const)
			base, isT := fieldLoad(bo.X, "Type")
			if !isK || !isT || k.Int64() != eof {
				continue
			}
			if flowsFrom(base, func(v ssa.Value) bool {
				call, isC := v.(*ssa.Call)
				return isC && u.callName(call) == "pkg/syntax/zh.ParserZH.peek"
			}) {
				okW = true
			}
		}
		R.check(okW, "C05.whole", "pkg/syntax/zh.ParserZH.ParseAST:nothing-left", u.pos(g.Pos()), "after the program production the next token must be the end-of-input token", "ParseAST no longer tests that the token after the program is the end-of-input token: a last line that belongs to no block is dropped silently and a half-read program is compiled without error")
	} else {
		R.lost("C05.whole", "pkg/syntax/zh.ParserZH.ParseAST")
	}

	// ---- C05.panic
	nP := 0
	for _, f := range u.srcFuncs("pkg/syntax/zh") {
		for _, in := range instrsOf(f) {
			if pn, ok := in.(*ssa.Panic); ok {
				nP++
				inner := strip(pn.X)
				okT := types.Implements(inner.Type(), errorIface()) || isErrorType(inner.Type())
				R.check(okT, "C05.panic", u.fname(f)+":panic@"+u.pos(pn.Pos()), u.pos(pn.Pos()), "panics with an error value", "panics with a value that is not an error: Parser.Parse re-panics it")
			}
		}
	}
	R.min("C05.panic", 25)
	// errors produced in the front end are syntax-error constructors (or propagated ones)
	synCtors := map[string]bool{}
	for _, f := range u.srcFuncs("pkg/error") {
		if f.Signature.Results().Len() == 1 && namedTypeIs(f.Signature.Results().At(0).Type(), "pkg/error", "SyntaxError") {
			synCtors[u.fname(f)] = true
		}
	}
	nE := 0
	for _, rel := range frontPkgs {
		for _, f := range u.srcFuncs(rel) {
			res := f.Signature.Results()
			if res.Len() == 0 || !isErrorType(res.At(res.Len()-1).Type()) {
				continue
			}
			if u.fname(f) == "pkg/syntax.Parser.Parse" || u.fname(f) == "pkg/syntax.Parser.Compile" || u.fname(f) == "pkg/syntax/zh.ParserZH.ParseAST" {
				continue // they return what recover / ParseAST delivered
			}
			for _, b := range f.Blocks {
				ret, ok := b.Instrs[len(b.Instrs)-1].(*ssa.Return)
				if !ok {
					continue
				}
				for _, s := range allSources(errorOperand(ret)) {
					if isNilConst(s) {
						continue
					}
					nE++
					ok2 := false
					switch x := s.(type) {
					case *ssa.Call:
						n := u.callName(x)
						ok2 = synCtors[n] || strings.HasPrefix(n, "pkg/syntax") // propagated from another front-end function
					case *ssa.Extract:
						if cv, isC := x.Tuple.(*ssa.Call); isC {
							ok2 = strings.HasPrefix(u.callName(cv), "pkg/syntax")
						}
					}
					if !ok2 {
						R.viol("C05.panic", u.fname(f)+":error-kind@"+u.pos(ret.Pos()), u.pos(ret.Pos()), "the front end returns an error that is not built by a syntax-error constructor (no code / position)")
					}
				}
			}
		}
	}
	R.hold("C05.panic", "front-end-error-kinds", "", fmt.Sprintf("%d error values returned by lexer/parser functions: all from zerr syntax-error constructors or propagated", nE))
	// ParserZH getters build all parser errors
	for _, name := range []string{"getInvalidSyntaxCurr", "getInvalidSyntaxPeek", "getUnexpectedIndentPeek", "getExprMustTypeIDPeek"} {
		f := u.ssaFunc("pkg/syntax/zh", "ParserZH."+name)
		if f == nil {
			R.lost("C05.cursor", "pkg/syntax/zh.ParserZH."+name)
			continue
		}
		ok := false
		for _, in := range instrsOf(f) {
			if call, isC := in.(*ssa.Call); isC && synCtors[u.callName(call)] {
				arg := call.Call.Args[len(call.Call.Args)-1]
				if cv, isCV := arg.(*ssa.Call); isCV && (u.callName(cv) == "pkg/syntax/zh.ParserZH.getPeekStartIdx" || u.callName(cv) == "pkg/syntax/zh.ParserZH.getCurrStartIdx") {
					ok = true
				}
				if _, isF := fieldLoad(arg, "StartIdx"); isF {
					ok = true
				}
			}
		}
		R.check(ok, "C05.cursor", "pkg/syntax/zh.ParserZH."+name, u.pos(f.Pos()), "the error position is the start index of the peek/current token", "a parser error is positioned by something other than a token's start index")
	}

	// ---- C05.errdrop: an error produced inside the front end is never dropped - after a call that can fail,
	// a normal return is reachable only over the nil edge of a test of that error, or by returning the error
	nED := 0
	for _, rel := range frontPkgs {
		for _, f := range u.srcFuncs(rel) {
			name := u.fname(f)
			if strings.Contains(name, "tringify") {
				continue
			}
			tests := nilTests(f)
			for _, in := range instrsOf(f) {
				call, ok := in.(*ssa.Call)
				if !ok {
					continue
				}
				callee := call.Call.StaticCallee()
				if callee == nil || callee.Pkg == nil || !strings.HasPrefix(callee.Pkg.Pkg.Path(), modPath) {
					continue
				}
				res := callee.Signature.Results()
				if res.Len() == 0 || !isErrorType(res.At(res.Len()-1).Type()) {
					continue
				}
				nED++
				key := name + ":" + siteName(u, f, call)
				errV := errResult(call)
				if errV == nil {
					R.viol("C05.errdrop", key, u.pos(call.Pos()), "the error result is discarded")
					continue
				}
				bad := errorDroppedAt(u, f, call, errV, tests)
				R.check(bad == "", "C05.errdrop", key, u.pos(call.Pos()), "a failure of this call ends in a panic / returned error on every path", "when this call fails the function can still return normally at "+bad+" without reporting the error (the failure is dropped and a half-built result is used)")
			}
		}
	}
	R.count("front_end_error_calls", nED)
	R.min("C05.errdrop", 30)

	// ---- C05.cursor
	msg := lexerCursorClamped(u)
	R.check(msg == "", "C05.cursor", "pkg/syntax.Lexer.cursor", "", "the cursor is advanced only under cursor < len(Source): every lexer error position lies within the text", msg)
	nC := 0
	for _, rel := range frontPkgs {
		for _, f := range u.srcFuncs(rel) {
			for _, in := range instrsOf(f) {
				call, ok := in.(*ssa.Call)
				if !ok || !synCtors[u.callName(call)] {
					continue
				}
				if strings.HasPrefix(u.fname(f), "pkg/syntax/zh.ParserZH.get") {
					continue
				}
				nC++
				arg := call.Call.Args[len(call.Call.Args)-1]
				okPos := flowsFrom(arg, func(v ssa.Value) bool {
					if cv, ok := v.(*ssa.Call); ok {
						n := u.callName(cv)
						return n == "pkg/syntax.Lexer.GetCursor"
					}
					if _, ok := fieldLoad(v, "cursor"); ok {
						return true
					}
					if _, ok := fieldLoad(v, "StartIdx"); ok {
						return true
					}
					return false
				})
				if bo, isB := arg.(*ssa.BinOp); isB && !okPos {
					okPos = flowsFrom(bo.X, func(v ssa.Value) bool {
						cv, ok := v.(*ssa.Call)
						return ok && u.callName(cv) == "pkg/syntax.Lexer.GetCursor"
					})
				}
				R.check(okPos, "C05.cursor", u.fname(f)+":"+siteName(u, f, call), u.pos(call.Pos()), "position comes from the lexer cursor", "a syntax error is positioned by a value that does not come from the lexer cursor / a token index")
			}
		}
	}
	R.min("C05.cursor", 12)

	// ---- C05.nilderef
	nN := 0
	for _, f := range u.srcFuncs("pkg/syntax/zh") {
		tests := nilTests(f)
		for _, in := range instrsOf(f) {
			var v ssa.Value
			if call, ok := in.(*ssa.Call); ok && u.callName(call) == "pkg/syntax/zh.ParserZH.current" {
				v = call
			}
			if un, ok := in.(*ssa.UnOp); ok && un.Op == token.MUL {
				if fa, ok := un.X.(*ssa.FieldAddr); ok && fieldAddrName(fa) == "ParserZH.TokenP1" {
					v = un
				}
			}
			if v == nil {
				continue
			}
			for _, r := range *v.Referrers() {
				fa, ok := r.(*ssa.FieldAddr)
				if !ok {
					continue
				}
				nN++
				guarded := false
				for _, t := range tests {
					same := t.X == v
					if !same {
						// another load of the same field of the same parser (go/ssa does no CSE)
						a, okA := fieldLoadAny(t.X)
						b, okB := fieldLoadAny(v)
						same = okA && okB && a == b
					}
					if same && (edgeDominates(t.If.Block(), t.NotNil, fa.Block()) || t.NotNil.Dominates(fa.Block())) {
						guarded = true
					}
				}
				R.check(guarded, "C05.nilderef", u.fname(f)+":TokenP1@"+u.pos(fa.Pos()), u.pos(fa.Pos()), "the current token is dereferenced under a nil test", "the current token (nil until the first token was consumed) is dereferenced without a nil test: an error on the very first token becomes a nil-pointer panic")
			}
		}
	}
	R.min("C05.nilderef", 2)
	var nilAllow map[string]progressAllow
	loadTable(c, "progress_allow.json", &nilAllow)
	for _, f := range u.srcFuncs("pkg/syntax/zh") {
		tests := nilTests(f)
		for _, call := range u.callsNamed(f, "pkg/syntax.Lexer.GetLineInfo") {
			v := call.Value()
			key := u.fname(f) + ":" + siteName(u, f, call)
			bad := false
			for _, r := range *v.Referrers() {
				if fa, ok := r.(*ssa.FieldAddr); ok {
					guarded := false
					for _, t := range tests {
						if t.X == v && (edgeDominates(t.If.Block(), t.NotNil, fa.Block()) || t.NotNil.Dominates(fa.Block())) {
							guarded = true
						}
					}
					if !guarded {
						bad = true
					}
				}
			}
			if bad {
				if a, ok := nilAllow[key]; ok {
					R.hold("C05.nilderef", key, u.pos(call.Pos()), "reviewed: "+a.Reason)
				} else {
					R.viol("C05.nilderef", key, u.pos(call.Pos()), "GetLineInfo can return nil and its result is dereferenced without a test")
				}
			} else {
				R.hold("C05.nilderef", key, u.pos(call.Pos()), "line info is nil-tested")
			}
		}
	}

	// nil-able pointer fields of the syntax tree / parser state (front end, error display, input-variable text)
	ruleNilFields(c, u, "C05.nilfield", func(file string) bool {
		return strings.HasPrefix(file, "pkg/syntax/") || strings.HasSuffix(file, "error_printer.go") || strings.HasSuffix(file, "exec_varinput.go")
	})

	// ---- C05.render : strings.Repeat counts are never negative
	for _, f := range u.srcFuncs("pkg/exec") {
		for _, call := range u.callsNamed(f, "strings.Repeat") {
			cnt := call.Common().Args[1]
			key := u.fname(f) + ":" + siteName(u, f, call)
			ok := false
			why := "count is not provably non-negative"
			switch x := cnt.(type) {
			case *ssa.Const:
				ok = x.Int64() >= 0
			case *ssa.Call:
				if callee := x.Call.StaticCallee(); callee != nil && callee.Blocks != nil {
					// every returned value of the callee is non-negative: a constant >= 0, or not a bare parameter
					ok = true
					for _, b := range callee.Blocks {
						ret, isR := b.Instrs[len(b.Instrs)-1].(*ssa.Return)
						if !isR {
							continue
						}
						for _, s := range allSources(retValue(ret, 0)) {
							switch y := s.(type) {
							case *ssa.Const:
								if y.Int64() < 0 {
									ok, why = false, "callee returns a negative constant"
								}
							case *ssa.Parameter:
								ok, why = false, "callee "+u.fname(callee)+" can return its (possibly negative) parameter "+y.Name()+" unchanged"
							}
						}
					}
				}
			}
			R.check(ok, "C05.render", key, u.pos(call.Pos()), "repeat count is non-negative", "strings.Repeat can receive a negative count (panics while rendering an error): "+why)
		}
	}

	// ---- C05.index
	ruleBCE(c, u, "C05.index", corePkgs, func(file string) bool {
		return strings.HasPrefix(file, "pkg/syntax/") || strings.HasSuffix(file, "error_printer.go") || strings.HasSuffix(file, "exec_varinput.go")
	})
	R.min("C05.index", 12)
}

// errorDroppedAt: after `call` (whose error result is errV) a normal return of f is reachable without crossing
// the nil edge of a test of that error and without returning the error: the position of such a return, or ""
func errorDroppedAt(u *Universe, f *ssa.Function, call ssa.CallInstruction, errV ssa.Value, tests []nilTest) string {
	return errorDroppedAtMode(u, f, call, errV, tests, false)
}

// errorDroppedAtMode: with strict, classifying the error (a type assertion or type switch) does not count as
// handling it: only returning an error, or handing this one to a call or a store, does
func errorDroppedAtMode(u *Universe, f *ssa.Function, call ssa.CallInstruction, errV ssa.Value, tests []nilTest, strict bool) string {
	// values that carry this error: itself and phis it feeds
	carriers := map[ssa.Value]bool{errV: true}
	for changed := true; changed; {
		changed = false
		for _, x := range instrsOf(f) {
			if phi, ok := x.(*ssa.Phi); ok && !carriers[phi] {
				for _, e := range phi.Edges {
					if carriers[e] {
						carriers[phi] = true
						changed = true
					}
				}
			}
		}
	}
	nilEdges := map[cfgEdge]bool{}
	for _, t := range tests {
		if carriers[t.X] {
			nilEdges[cfgEdge{t.If.Block(), t.OnNil}] = true
		}
	}
	// `err == io.EOF` is the end-of-input signal of the io.Reader contract, not a failure
	isEOF := func(v ssa.Value) bool {
		un, ok := v.(*ssa.UnOp)
		if !ok || un.Op != token.MUL {
			return false
		}
		g, ok := un.X.(*ssa.Global)
		return ok && g.Name() == "EOF" && g.Pkg != nil && g.Pkg.Pkg.Path() == "io"
	}
	for _, b := range f.Blocks {
		ifi, ok := b.Instrs[len(b.Instrs)-1].(*ssa.If)
		if !ok {
			continue
		}
		bo, ok := ifi.Cond.(*ssa.BinOp)
		if !ok || (bo.Op != token.EQL && bo.Op != token.NEQ) {
			continue
		}
		if (carriers[bo.X] && isEOF(bo.Y)) || (carriers[bo.Y] && isEOF(bo.X)) {
			if bo.Op == token.EQL {
				nilEdges[cfgEdge{b, b.Succs[0]}] = true
			} else {
				nilEdges[cfgEdge{b, b.Succs[1]}] = true
			}
		}
	}
	// the error is examined or handed on: passed to a call (wrapping, classification), type-asserted, stored
	usesErr := func(in ssa.Instruction) bool {
		switch x := in.(type) {
		case ssa.CallInstruction:
			if x == call {
				return false
			}
			for _, a := range x.Common().Args {
				if carriers[a] {
					return true
				}
				if mi, ok := a.(*ssa.MakeInterface); ok && carriers[mi.X] {
					return true
				}
			}
		case *ssa.TypeAssert:
			return !strict && carriers[x.X]
		case *ssa.Store:
			return carriers[x.Val]
		}
		return false
	}
	nonNilEdges := map[cfgEdge]bool{}
	for _, t := range tests {
		if carriers[t.X] {
			nonNilEdges[cfgEdge{t.If.Block(), t.NotNil}] = true
		}
	}
	bad := ""
	type wkey struct {
		b      *ssa.BasicBlock
		tested bool
	}
	seen := map[wkey]bool{}
	var walk func(b *ssa.BasicBlock, from int, tested bool)
	walk = func(b *ssa.BasicBlock, from int, tested bool) {
		for i := from; i < len(b.Instrs); i++ {
			if usesErr(b.Instrs[i]) {
				return
			}
			if ret, ok := b.Instrs[i].(*ssa.Return); ok {
				prop := false
				for j := range ret.Results {
					rv := retValue(ret, j)
					if isErrorType(rv.Type()) {
						if flowsFrom(rv, func(v ssa.Value) bool { return carriers[v] }) {
							prop = true
						}
						// on the branch where the failure is known, any freshly built error reports it
						if tested && (provablyNonNilError(rv) || isCallValue(rv)) {
							prop = true
						}
					}
					// `return f()` spelled as a tuple extract of the same call
					if ex, ok := rv.(*ssa.Extract); ok && ex.Tuple == call.Value() && isErrorType(rv.Type()) {
						prop = true
					}
				}
				if !prop && bad == "" {
					bad = u.pos(ret.Pos())
				}
				return
			}
		}
		for _, sc := range b.Succs {
			if nilEdges[cfgEdge{b, sc}] {
				continue
			}
			t2 := tested || nonNilEdges[cfgEdge{b, sc}]
			if seen[wkey{sc, t2}] {
				continue
			}
			seen[wkey{sc, t2}] = true
			walk(sc, 0, t2)
		}
	}
	walk(call.Block(), instrIndex(call)+1, false)
	return bad
}

func isCallValue(v ssa.Value) bool {
	_, ok := v.(*ssa.Call)
	return ok
}
