package main

import (
	"encoding/json"
	"fmt"
	"go/ast"
	"go/types"
	"sort"
	"strings"

	"golang.org/x/tools/go/ssa"
)

// Must-call rule ("no fast path around the work"): tables/mustcall.json lists, per property, pairs F -> K such that
// on the reference tree every normal exit of F (a return that does not carry a known error) is preceded by a call of
// K. On the analysed tree the same must hold, directly or through a helper that itself must-call K.

type mustCallEntry struct {
	Property string `json:"property"`
	Fn       string `json:"fn"`     // pkgrel.Func or pkgrel.Type.Method ($N closures allowed)
	Callee   string `json:"callee"` // callName of the call that does the work ("a|b|c" = any of)
	Why      string `json:"why"`
}

// normalReturn: the return is not an error exit (no error result, a nil error, or an error value not known non-nil)
func normalReturn(f *ssa.Function, ret *ssa.Return, tests []nilTest) bool {
	ev := errorOperand(ret)
	if ev == nil {
		return true
	}
	if isNilConst(ev) {
		return true
	}
	if provablyNonNilError(ev) {
		return false
	}
	for _, t := range tests {
		if t.X == ev && edgeDominates(t.If.Block(), t.NotNil, ret.Block()) {
			return false
		}
	}
	// the function's own error parameter / a freshly wrapped value: treat as error exit when every source is a call
	// of an error constructor or an error-typed parameter
	allErr := true
	for _, s := range allSources(ev) {
		switch x := s.(type) {
		case *ssa.Call:
			_ = x
		case *ssa.Parameter:
		case *ssa.MakeInterface:
		default:
			allErr = false
		}
		if isNilConst(s) {
			allErr = false
		}
	}
	if allErr && len(allSources(ev)) > 0 {
		// e.g. return nil, zerr.Foo(): a non-nil error by construction of the call sites of this repository
		if _, isCall := ev.(*ssa.Call); isCall {
			return false
		}
		if _, isMI := ev.(*ssa.MakeInterface); isMI {
			return false
		}
	}
	return true
}

// mustCall: every path from f's entry to a normal return passes a call whose name is in names, directly or through
// a static callee of the module that itself must-call one of names (depth levels)
func mustCall(u *Universe, f *ssa.Function, names map[string]bool, depth int, memo map[*ssa.Function]int) bool {
	if f == nil || len(f.Blocks) == 0 {
		return false
	}
	if v, ok := memo[f]; ok {
		return v == 1
	}
	memo[f] = 0 // in progress: recursion does not count
	tests := nilTests(f)
	barrier := func(in ssa.Instruction) bool {
		// pseudo-callee "index:Type.field": an element of that slice field is addressed
		if ia, isIA := in.(*ssa.IndexAddr); isIA {
			if fld := containerFieldOf(ia.X); fld != "" && names["index:"+fld] {
				return true
			}
		}
		call, ok := in.(ssa.CallInstruction)
		if !ok {
			return false
		}
		if _, isDefer := in.(*ssa.Defer); isDefer {
			return false
		}
		if _, isGo := in.(*ssa.Go); isGo {
			return false
		}
		if names[u.callName(in)] {
			return true
		}
		// a call through a function value taken from a package-level lookup table all of whose functions are among
		// the required ones (the dispatch written as data)
		if cc := call.Common(); cc.StaticCallee() == nil && !cc.IsInvoke() {
			if fns := tableFunctions(u, cc.Value); len(fns) > 0 {
				all := true
				for _, fn := range fns {
					if !names[fn] {
						all = false
					}
				}
				if all {
					return true
				}
			}
		}
		if depth > 0 {
			if h := call.Common().StaticCallee(); h != nil && h.Blocks != nil && h.Pkg != nil && strings.HasPrefix(h.Pkg.Pkg.Path(), modPath) {
				if mustCall(u, h, names, depth-1, memo) {
					return true
				}
			}
			for _, h := range closureTargets(call) {
				if mustCall(u, h, names, depth-1, memo) {
					return true
				}
			}
		}
		return false
	}
	target := func(in ssa.Instruction) bool {
		ret, ok := in.(*ssa.Return)
		return ok && normalReturn(f, ret, tests)
	}
	ok := reachableAvoiding(f.Blocks[0], 0, target, barrier) == nil
	if ok {
		memo[f] = 1
	} else {
		delete(memo, f)
	}
	return ok
}

// mustCallCandidates lists F -> K pairs that hold on this tree for the given functions (maintenance output)
func mustCallCandidates(u *Universe, fns []*ssa.Function) []mustCallEntry {
	var out []mustCallEntry
	for _, f := range fns {
		seen := map[string]bool{}
		for _, in := range instrsOf(f) {
			if _, isDefer := in.(*ssa.Defer); isDefer {
				continue
			}
			n := u.callName(in)
			if n == "" || seen[n] || strings.HasPrefix(n, "invoke:") {
				continue
			}
			seen[n] = true
			if mustCall(u, f, map[string]bool{n: true}, 0, map[*ssa.Function]int{}) {
				out = append(out, mustCallEntry{Fn: u.fname(f), Callee: n})
			}
		}
	}
	sort.Slice(out, func(i, j int) bool {
		if out[i].Fn != out[j].Fn {
			return out[i].Fn < out[j].Fn
		}
		return out[i].Callee < out[j].Callee
	})
	return out
}

func ruleMustCallEntries(c *Ctx, u *Universe, prop string, table []mustCallEntry) {
	R := c.R
	rule := prop + ".mustcall"
	n := 0
	for _, e := range table {
		if e.Property != prop {
			continue
		}
		i := strings.LastIndex(e.Fn, ".")
		rel, name := "", e.Fn
		for _, r := range append(append([]string{}, corePkgs...), "pkg/server") {
			if strings.HasPrefix(e.Fn, r+".") && len(r) > len(rel) {
				rel, name = r, e.Fn[len(r)+1:]
			}
		}
		_ = i
		var f *ssa.Function
		if j := strings.Index(name, "$"); j >= 0 {
			// closure: Parent$N
			parent := u.ssaFunc(rel, name[:j])
			if parent != nil {
				for _, a := range allAnon(parent) {
					if u.fname(a) == e.Fn {
						f = a
					}
				}
			}
		} else {
			f = u.ssaFuncExact(rel, name)
			if f == nil && u.inlinedInto(rel, name) != "" {
				// F was inlined into its caller and deleted: "every exit of F" has no subject any more
				R.hold(rule, e.Fn+" -> "+e.Callee, "", "the function no longer exists (inlined into "+u.inlinedInto(rel, name)+"): the pair has no subject")
				continue
			}
		}
		key := e.Fn + " -> " + e.Callee
		if f == nil && strings.Contains(name, "$") {
			// the closure was turned into a named function: a function the parent calls (or references) that is
			// not in the reference inventory takes over the obligation
			if parent := u.ssaFunc(rel, name[:strings.Index(name, "$")]); parent != nil {
				names := map[string]bool{}
				for _, k := range strings.Split(e.Callee, "|") {
					names[k] = true
				}
				// candidates: functions of the package the parent refers to (directly, or as a method bound to a value)
				for _, h := range family(parent, 1)[1:] {
					if h.Pkg != parent.Pkg || h.Parent() != nil || listedFunction(rel, u.fname(h)) {
						continue
					}
					if mustCall(u, h, names, 2, map[*ssa.Function]int{}) {
						f = h
					}
				}
			}
		}
		if f == nil {
			R.lost(rule, key)
			continue
		}
		n++
		names := map[string]bool{}
		for _, k := range strings.Split(e.Callee, "|") {
			names[k] = true
		}
		// the work function no longer exists in the tree (inlined into its callers or removed as a whole): the pair
		// has no subject; what the work must achieve is the business of the property's other rules
		gone := true
		for k := range names {
			if !moduleFuncGone(u, k) {
				gone = false
			}
		}
		if gone {
			R.hold(rule, key, u.pos(f.Pos()), "the work function "+e.Callee+" does not exist in this tree (inlined or removed): nothing to call")
			continue
		}
		ok := mustCall(u, f, names, 2, map[*ssa.Function]int{})
		if !ok && strings.Contains(name, "$") {
			// closures are numbered in source order: when an earlier closure of the parent became a named function the
			// numbers shift, and the work now lives in that new function
			if parent := u.ssaFunc(rel, name[:strings.Index(name, "$")]); parent != nil {
				for _, h := range family(parent, 1)[1:] {
					if h.Pkg == parent.Pkg && h.Parent() == nil && !listedFunction(rel, u.fname(h)) && mustCall(u, h, names, 2, map[*ssa.Function]int{}) {
						ok = true
					}
				}
			}
		}
		R.check(ok, rule, key, u.pos(f.Pos()), "every normal exit is preceded by the call that does the work: "+e.Why,
			"a path returns normally without calling "+e.Callee+" (a shortcut around the work): "+e.Why)
	}
	_ = n
}

func allAnon(f *ssa.Function) []*ssa.Function {
	var out []*ssa.Function
	for _, a := range f.AnonFuncs {
		out = append(out, a)
		out = append(out, allAnon(a)...)
	}
	return out
}

func dumpMustCall(u *Universe, rels []string) {
	var fns []*ssa.Function
	for _, rel := range rels {
		for _, f := range u.srcFuncs(rel) {
			fns = append(fns, f)
		}
	}
	b, _ := json.MarshalIndent(mustCallCandidates(u, fns), "", " ")
	fmt.Println(string(b))
}

// moduleFuncGone: name (as given by callName) denotes a function or method of the module that the tree does not
// declare (under any listed alias)
func moduleFuncGone(u *Universe, name string) bool {
	rel := ""
	for r := range u.Pkgs {
		if strings.HasPrefix(name, r+".") && len(r) > len(rel) {
			rel = r
		}
	}
	if rel == "" || strings.HasPrefix(name, "invoke:") || strings.HasPrefix(name, "index:") {
		return false
	}
	return u.ssaFunc(rel, name[len(rel)+1:]) == nil
}

// tableFunctions: when v is read out of a package-level table (map / slice / array literal, possibly of structs), the
// functions of the module that the table's literal mentions (as given by fname); nil otherwise
func tableFunctions(u *Universe, v ssa.Value) []string {
	var g *ssa.Global
	seen := map[ssa.Value]bool{}
	var walk func(x ssa.Value)
	walk = func(x ssa.Value) {
		if x == nil || seen[x] || g != nil {
			return
		}
		seen[x] = true
		switch y := x.(type) {
		case *ssa.Global:
			g = y
		case *ssa.UnOp:
			walk(y.X)
		case *ssa.Field:
			walk(y.X)
		case *ssa.FieldAddr:
			walk(y.X)
		case *ssa.Extract:
			walk(y.Tuple)
		case *ssa.Lookup:
			walk(y.X)
		case *ssa.Index:
			walk(y.X)
		case *ssa.IndexAddr:
			walk(y.X)
		case *ssa.Phi:
			for _, e := range y.Edges {
				walk(e)
			}
		case *ssa.Alloc:
			for _, r := range *y.Referrers() {
				if st, ok := r.(*ssa.Store); ok && st.Addr == ssa.Value(y) {
					walk(st.Val)
				}
			}
		}
	}
	walk(v)
	if g == nil || g.Object() == nil || g.Pkg == nil {
		return nil
	}
	var out []string
	for rel, p := range u.Pkgs {
		if p.Types != g.Object().Pkg() {
			continue
		}
		for _, f := range p.Syntax {
			for _, d := range f.Decls {
				gd, ok := d.(*ast.GenDecl)
				if !ok {
					continue
				}
				for _, sp := range gd.Specs {
					vs, ok := sp.(*ast.ValueSpec)
					if !ok {
						continue
					}
					for i, nm := range vs.Names {
						if p.TypesInfo.Defs[nm] != g.Object() || i >= len(vs.Values) {
							continue
						}
						ast.Inspect(vs.Values[i], func(n ast.Node) bool {
							if id, ok := n.(*ast.Ident); ok {
								if fn, isF := p.TypesInfo.Uses[id].(*types.Func); isF && fn.Pkg() != nil {
									r2 := strings.TrimPrefix(strings.TrimPrefix(fn.Pkg().Path(), modPath), "/")
									out = append(out, r2+"."+aliasName(fn))
								}
							}
							return true
						})
					}
				}
			}
		}
		_ = rel
	}
	return out
}
