package main

import (
	"fmt"
	"go/constant"
	"go/token"
	"go/types"
	"sort"
	"strings"

	"golang.org/x/tools/go/ssa"
)

func init() {
	register("C16", checkC16)
	register("C20", checkC20)
}

type singletonEntry struct {
	Readers map[string]string `json:"readers"`
	Reason  string            `json:"reason"`
}

// sharedMutableType: a package-level variable of this type can carry state between executions
func sharedMutableType(t types.Type) bool {
	return sharedMutableTypeD(t, 0)
}

func sharedMutableTypeD(t types.Type, depth int) bool {
	if depth > 4 {
		return true
	}
	if n, ok := t.(*types.Named); ok && n.Obj().Pkg() != nil && (n.Obj().Pkg().Path() == "sync" || n.Obj().Pkg().Path() == "sync/atomic") {
		return true // sync.Map, sync.Pool, … : process-wide caches
	}
	switch x := t.Underlying().(type) {
	case *types.Pointer:
		_, isStruct := x.Elem().Underlying().(*types.Struct)
		return isStruct
	case *types.Map:
		// lookup tables of basic values are immutable by convention (checked by the no-writer rule)
		_, basicElem := x.Elem().Underlying().(*types.Basic)
		return !basicElem
	case *types.Interface:
		return !isErrorType(t) // sentinel errors are immutable values
	case *types.Slice:
		return sharedMutableTypeD(x.Elem(), depth+1)
	case *types.Array:
		return sharedMutableTypeD(x.Elem(), depth+1)
	case *types.Struct:
		for i := 0; i < x.NumFields(); i++ {
			if sharedMutableTypeD(x.Field(i).Type(), depth+1) {
				return true
			}
		}
		return false
	case *types.Chan:
		return true
	}
	return false
}

func checkC16(c *Ctx) {
	R := c.R
	R.Explain = "Decided: (C16.fresh) every entry point that runs Zn code (Interpreter.Execute, ExecVarInputText, ExecExpressionInputText) builds its VM from a freshly built set of predefined values, and inside that builder no value is loaded from a package-level variable " +
		"(every predefined element is allocated per execution); (C16.singletons) inventory of all package-level variables that can carry mutable state (pointers to structs, maps of non-basic values, interfaces) in the analysed packages: each may be read only by the functions " +
		"listed in the reviewed table, so none of them can reach a VM (who-may-read rule over go/ssa); (C16.nowrite) no package-level variable, nor anything reached through a load of one, is written outside init functions; " +
		"(C16.defaults) class defaults are copied per instance (C07.obj/C07.dup rules); (C16.race) from every ServeHTTP method of pkg/server (darwin build) no call stores into a field of an object that outlives the request (receiver-reachable) without a lock. " +
		"NOT decided: absence of data races in general, process-level state (files, stdout), stdlib/http (does not compile). (C16.dupfresh) DuplicateValue never hands back a value of a kind that some built-in method changes in place (the kinds are computed from the field stores of the built-in methods)."
	R.Assumptions = []string{"Go package initialisation runs once before any execution", "tables/singletons.json reviewed"}
	u := c.Core()
	u.buildSSA()
	ruleDupFresh(c, u, "C16.dupfresh")

	// ---- C16.fresh
	for _, m := range []struct{ rel, fn string }{{"pkg/exec", "Interpreter.Execute"}, {"pkg/exec", "ExecVarInputText"}, {"pkg/exec", "ExecExpressionInputText"}} {
		f := u.ssaFunc(m.rel, m.fn)
		if f == nil {
			R.lost("C16.fresh", m.rel+"."+m.fn)
			continue
		}
		inits := u.callsNamed(f, "pkg/runtime.InitVM")
		ok := len(inits) == 1
		if ok {
			cv, isC := inits[0].Common().Args[0].(*ssa.Call)
			ok = isC && u.callName(cv) == "pkg/exec.newGlobalValues"
		}
		R.check(ok, "C16.fresh", m.rel+"."+m.fn, u.pos(f.Pos()), "the VM is created per call from a freshly built set of predefined values", "the VM is built from a shared (package-level) set of predefined values: mutations by one execution are visible to later ones")
	}
	if f := u.ssaFunc("pkg/exec", "newGlobalValues"); f != nil {
		n, bad := 0, ""
		for _, in := range instrsOf(f) {
			mu, ok := in.(*ssa.MapUpdate)
			if !ok {
				continue
			}
			n++
			for _, s := range allSources(mu.Value) {
				if un, ok := s.(*ssa.UnOp); ok && un.Op == token.MUL {
					if g, ok := un.X.(*ssa.Global); ok {
						bad = g.Name()
					}
				}
				if g, ok := s.(*ssa.Global); ok {
					bad = g.Name()
				}
			}
		}
		R.check(bad == "" && n >= 5, "C16.fresh", "pkg/exec.newGlobalValues", u.pos(f.Pos()), fmt.Sprintf("all %d predefined elements are allocated by this call", n), "predefined element taken from the package-level variable "+bad+" (shared by all executions; e.g. 如何新建异常？ or 自增 would leak into later runs)")
	} else {
		R.lost("C16.fresh", "pkg/exec.newGlobalValues")
	}

	// ---- C16.singletons
	var table map[string]singletonEntry
	if !loadTable(c, "singletons.json", &table) {
		return
	}
	readers := map[string]map[string]ssa.Instruction{}
	var globals []string
	gtype := map[string]types.Type{}
	for _, rel := range corePkgs {
		sp := u.SSAPkgs[rel]
		if sp == nil {
			continue
		}
		for name, mem := range sp.Members {
			g, ok := mem.(*ssa.Global)
			if !ok || strings.HasPrefix(name, "init$") {
				continue
			}
			et := g.Type().(*types.Pointer).Elem()
			if !sharedMutableType(et) {
				continue
			}
			key := rel + "." + name
			globals = append(globals, key)
			gtype[key] = et
			readers[key] = map[string]ssa.Instruction{}
		}
	}
	sort.Strings(globals)
	for _, rel := range corePkgs {
		for _, f := range u.srcFuncs(rel) {
			for _, in := range instrsOf(f) {
				un, ok := in.(*ssa.UnOp)
				if !ok || un.Op != token.MUL {
					continue
				}
				g, ok := un.X.(*ssa.Global)
				if !ok || g.Pkg == nil {
					continue
				}
				key := strings.TrimPrefix(strings.TrimPrefix(g.Pkg.Pkg.Path(), modPath), "/") + "." + g.Name()
				if _, tracked := readers[key]; tracked {
					fn := f
					for fn.Parent() != nil {
						fn = fn.Parent()
					}
					name := u.fname(fn)
					if i := strings.Index(name, ".init#"); i >= 0 {
						name = name[:i] + ".init"
					}
					readers[key][name] = in
				}
			}
		}
	}
	for _, key := range globals {
		e, listed := table[key]
		if !listed {
			// a lookup table: a map / slice / array of functions or plain values (no pointer to anything a program could
			// change), which is only ever indexed, ranged over or measured - never handed on, and (C16.nowrite) never
			// written after init: nothing of it can carry state
			if why := readOnlyLookupTable(u, key, gtype[key]); why != "" {
				R.hold("C16.singletons", key, "", "lookup table: "+why)
				continue
			}
			R.undecided("C16.singletons", key, "", "package-level variable of a mutable type ("+typeShort(gtype[key])+") that the reviewed table does not list: decide who may read it")
			continue
		}
		var fns []string
		for fn := range readers[key] {
			fns = append(fns, fn)
		}
		sort.Strings(fns)
		bad := []string{}
		helpers := helpersOfAllowed(u, corePkgs, func(name string) bool { _, ok := e.Readers[name]; return ok })
		for _, fn := range fns {
			if _, ok := e.Readers[fn]; !ok && !helpers[fn] {
				bad = append(bad, fn+" ("+u.pos(readers[key][fn].Pos())+")")
			}
		}
		R.check(len(bad) == 0, "C16.singletons", key, "", fmt.Sprintf("read only by %d listed function(s): %s", len(fns), e.Reason), "process-wide mutable value is read by "+strings.Join(bad, ", ")+": it can reach a VM / be mutated and so carry state from one execution to another")
	}
	R.min("C16.singletons", 10)

	// ---- C16.nowrite
	nW := 0
	for _, rel := range corePkgs {
		for _, f := range u.srcFuncs(rel) {
			root := f
			for root.Parent() != nil {
				root = root.Parent()
			}
			if root.Name() == "init" || strings.HasPrefix(root.Name(), "init#") {
				continue
			}
			for _, in := range instrsOf(f) {
				var target ssa.Value
				switch x := in.(type) {
				case *ssa.Store:
					target = x.Addr
				case *ssa.MapUpdate:
					target = x.Map
				default:
					continue
				}
				if g := globalRoot(target); g != nil {
					nW++
					R.viol("C16.nowrite", u.fname(f)+":writes "+g.Name(), u.pos(in.Pos()), "a package-level variable (or data reached through it) is written outside init: state survives the execution")
				}
			}
		}
	}
	if nW == 0 {
		R.hold("C16.nowrite", "no-writes-to-package-level-state", "", "no store or map update through a package-level variable outside init functions")
	}

	// ---- C16.fnshared
	ruleFunctionImmutable(c, u, "C16.fnshared")

	// ---- C16.defaults
	ruleNewObjectCopies(c, u, "C16.defaults")
	ruleDupDeep(c, u, "C16.defaults")

	// ---- C16.race
	su := c.Server()
	su.buildSSA()
	nH := 0
	for _, f := range su.srcFuncs("pkg/server") {
		if f.Name() != "ServeHTTP" || f.Signature.Recv() == nil {
			continue
		}
		if recvNamed(f.Signature.Recv().Type()) == "RespWriter" {
			continue
		}
		nH++
		hname := su.fname(f)
		found := 0
		for _, in := range instrsOf(f) {
			call, ok := in.(*ssa.Call)
			if !ok {
				continue
			}
			callee := call.Call.StaticCallee()
			if callee == nil || callee.Blocks == nil || callee.Signature.Recv() == nil || len(call.Call.Args) == 0 {
				continue
			}
			// receiver argument comes from a field of the handler (shared by all requests)
			recvArg := call.Call.Args[0]
			shared := flowsFrom(recvArg, func(v ssa.Value) bool {
				un, ok := v.(*ssa.UnOp)
				if !ok {
					return false
				}
				fa, ok := un.X.(*ssa.FieldAddr)
				return ok && fa.X == ssa.Value(f.Params[0])
			})
			if !shared {
				continue
			}
			// the callee stores into a field of its receiver
			for _, ci := range instrsOf(callee) {
				st, ok := ci.(*ssa.Store)
				if !ok {
					continue
				}
				if fa, ok := st.Addr.(*ssa.FieldAddr); ok && fa.X == ssa.Value(callee.Params[0]) {
					found++
					R.viol("C16.race", hname+":"+su.fname(callee)+" writes "+fieldAddrName(fa), su.pos(call.Pos()),
						"the request handler calls a method that stores into a field of an object shared by all requests, without synchronisation: concurrent requests race (and can run each other's program)")
				}
			}
		}
		if found == 0 {
			R.hold("C16.race", hname, su.pos(f.Pos()), "no unsynchronised store to handler-shared state")
		}
	}
	R.min("C16.race", 2)
	R.count("http_handlers", nH)
}

// globalRoot: the address/value is a package-level variable or is reached through a load of one
func globalRoot(v ssa.Value) *ssa.Global {
	for i := 0; i < 12 && v != nil; i++ {
		switch x := v.(type) {
		case *ssa.Global:
			return x
		case *ssa.UnOp:
			v = x.X
		case *ssa.FieldAddr:
			v = x.X
		case *ssa.IndexAddr:
			v = x.X
		case *ssa.Slice:
			v = x.X
		default:
			return nil
		}
	}
	return nil
}

func checkC20(c *Ctx) {
	R := c.R
	R.Explain = "Decided on pkg/server type-checked as the darwin build: (C20.owner) the worker table `childs` and the reservation counter `refCount` are accessed only by the bookkeeping goroutine maintainChildState (and the constructor); " +
		"(C20.counter) every store to refCount is a function of its previous value (reservation discipline: ±k, or the capped target computed from it) - an assignment from len(childs) forgets head-room reserved for spawns still in flight, which is what lets the pool exceed --max-procs; " +
		"(C20.cap) the scale-up batch is min(refCount+step, MaxProcs) − refCount and the replacement batch InitProcs − refCount is spawned only when positive; " +
		"(C20.worker) in StartWorker every path from one Accept to the next passes the select that waits for the handler's completion, the timeout channel is created per request inside the loop, BUSY is reported before the handler starts, IDLE only on the completion branch, " +
		"and the timeout branch reports STOPPED and cannot reach another Accept (it exits). (C20.env) cmd.Env = append(os.Environ(), own entries…): the configured timeout / pipe id win over inherited variables. (C20.channels) addChan / delChan are sent on only by spawnProcess (and the goroutine it starts), updateChan only by the pipe reader; every increase of refCount is followed by the goroutine that starts the reserved workers. NOT decided: the bounds themselves under real scheduling, recovery after crashes, pipe framing - these quantify over schedules and fault sequences (a different family of technique). (C20.exit) in the goroutine that waits for a worker every path from cmd.Wait() to its end sends the pid on delChan; a worker is written off (refCount decreased, entry deleted) only in the branch of the select that handles delChan."
	R.Assumptions = []string{"pkg/server can only be type-checked for darwin/windows at the pinned commit; nothing of it is built or run here", "one goroutine runs maintainChildState"}
	su := c.Server()
	su.buildSSA()
	ruleInitialPool(c, su, "C20.initial")

	// ---- C20.owner
	owners := map[string]bool{"pkg/server.ZnPMServer.maintainChildState": true, "pkg/server.NewZnPMServer": true}
	// a helper that is only ever called (synchronously, never as a goroutine or a function value) from an owner
	// runs on the owner's goroutine
	for changed := true; changed; {
		changed = false
		for _, h := range su.srcFuncs("pkg/server") {
			if h.Parent() != nil || owners[su.fname(h)] {
				continue
			}
			sites := su.staticCallers(h)
			okAll := len(sites) > 0
			for _, cs := range sites {
				_, plain := cs.(*ssa.Call)
				if !plain || cs.Parent().Parent() != nil || !owners[su.fname(cs.Parent())] {
					okAll = false
				}
			}
			// no use as a value
			if okAll {
				for _, g := range su.srcFuncs("pkg/server") {
					for _, in := range instrsOf(g) {
						for _, op := range in.Operands(nil) {
							if *op == ssa.Value(h) {
								if call, isCall := in.(ssa.CallInstruction); !isCall || call.Common().Value != ssa.Value(h) {
									okAll = false
								}
							}
						}
					}
				}
			}
			if okAll {
				owners[su.fname(h)] = true
				changed = true
			}
		}
	}
	seen := map[string]bool{}
	for _, f := range su.srcFuncs("pkg/server") {
		root := f
		for root.Parent() != nil {
			root = root.Parent()
		}
		for _, in := range instrsOf(f) {
			fa, ok := in.(*ssa.FieldAddr)
			if !ok {
				continue
			}
			n := fieldAddrName(fa)
			if n != "childProcManager.childs" && n != "childProcManager.refCount" {
				continue
			}
			key := su.fname(root) + " accesses " + n
			if f != root {
				key = su.fname(root) + " (closure) accesses " + n
			} else if sites := su.staticCallers(root); len(sites) == 1 && !owners[su.fname(root)] {
				// a function whose only use is one `defer` / `go` statement is that statement's closure under a name
				_, isDefer := sites[0].(*ssa.Defer)
				_, isGo := sites[0].(*ssa.Go)
				if isDefer || isGo {
					outer := sites[0].Parent()
					for outer.Parent() != nil {
						outer = outer.Parent()
					}
					key = su.fname(outer) + " (closure) accesses " + n
				}
			}
			if seen[key] {
				continue
			}
			seen[key] = true
			// closures of the owner that are started as goroutines are not the bookkeeping goroutine
			okOwner := owners[su.fname(root)] && f == root
			R.check(okOwner, "C20.owner", key, su.pos(fa.Pos()), "accessed by the single bookkeeping goroutine", "worker bookkeeping state is accessed outside the bookkeeping goroutine (unsynchronised with it)")
		}
	}
	R.min("C20.owner", 3)

	// ---- C20.channels: each bookkeeping event has one source - registrations come from spawnProcess, exits from the
	// goroutine that waits for the process, state reports from the pipe reader (an exit reported twice is replaced twice)
	senders := map[string]string{"addChan": "pkg/server.ZnPMServer.spawnProcess", "delChan": "pkg/server.ZnPMServer.spawnProcess", "updateChan": "pkg/server.ZnPMServer.readNamedPipe"}
	nSend := 0
	for _, g := range su.srcFuncs("pkg/server") {
		root := g
		for root.Parent() != nil {
			root = root.Parent()
		}
		for _, in := range instrsOf(g) {
			sd, ok := in.(*ssa.Send)
			if !ok {
				continue
			}
			ch := containerFieldOf(sd.Chan)
			if i := strings.LastIndex(ch, "."); i >= 0 {
				ch = ch[i+1:]
			}
			want, tracked := senders[ch]
			if !tracked {
				continue
			}
			nSend++
			okS := su.fname(root) == want
			if !okS {
				for h := range helpersOfAllowed(su, []string{"pkg/server"}, func(name string) bool { return name == want }) {
					if h == su.fname(root) {
						okS = true
					}
				}
				// a named function started as a goroutine by the owner (closure turned into a function)
				for _, cs := range su.staticCallers(root) {
					if _, isGo := cs.(*ssa.Go); isGo {
						top := cs.Parent()
						for top.Parent() != nil {
							top = top.Parent()
						}
						if su.fname(top) == want {
							okS = true
						}
					}
				}
			}
			R.check(okS, "C20.channels", su.fname(root)+" sends on "+ch, su.pos(sd.Pos()), "sent by "+shortName(want), "an event is sent on "+ch+" from "+su.fname(root)+" as well: the bookkeeping goroutine sees the same worker event twice (e.g. one exit deleted and replaced twice: the pool exceeds --max-procs)")
		}
	}
	if nSend < 3 {
		R.viol("C20.channels", "instances", "", fmt.Sprintf("expected sends on addChan, delChan and updateChan, found %d", nSend))
	}

	// ---- C20.counter / C20.cap
	f := su.ssaFunc("pkg/server", "ZnPMServer.maintainChildState")
	if f == nil {
		R.lost("C20.counter", "pkg/server.ZnPMServer.maintainChildState")
	} else {
		isRefLoad := func(v ssa.Value) bool {
			_, ok := fieldLoad(v, "refCount")
			return ok
		}
		nStore := 0
		kinds := map[string]int{}
		// the bookkeeping goroutine's code: the loop itself and the helpers that run on it (see C20.owner)
		bk := []*ssa.Function{f}
		for _, h := range su.srcFuncs("pkg/server") {
			if h != f && h.Parent() == nil && owners[su.fname(h)] && su.fname(h) != "pkg/server.NewZnPMServer" {
				bk = append(bk, h)
			}
		}
		var bkInstrs []ssa.Instruction
		for _, h := range bk {
			bkInstrs = append(bkInstrs, instrsOf(h)...)
		}
		for _, in := range bkInstrs {
			st, ok := in.(*ssa.Store)
			if !ok {
				continue
			}
			fa, ok := st.Addr.(*ssa.FieldAddr)
			if !ok || fieldAddrName(fa) != "childProcManager.refCount" {
				continue
			}
			nStore++
			desc, okV := "", false
			switch x := st.Val.(type) {
			case *ssa.BinOp:
				if (x.Op == token.ADD || x.Op == token.SUB) && isRefLoad(x.X) {
					okV, desc = true, "refCount "+x.Op.String()+" k"
				}
			case *ssa.Phi:
				// capped target: every incoming value derives from the previous refCount or is the MaxProcs bound
				okV = true
				for _, e := range x.Edges {
					fromRef := flowsFrom(e, isRefLoad)
					if bo, isB := e.(*ssa.BinOp); isB {
						fromRef = fromRef || flowsFrom(bo.X, isRefLoad)
					}
					_, isMax := fieldLoad(e, "MaxProcs")
					if fl, isF := e.(*ssa.Field); isF {
						isMax = isMax || strings.Contains(fl.String(), "MaxProcs") || fl.Field == 1
					}
					if !fromRef && !isMax {
						okV = false
					}
				}
				desc = "capped target min(refCount+step, MaxProcs)"
			case *ssa.Call:
				if b, isB := x.Call.Value.(*ssa.Builtin); isB && b.Name() == "len" {
					desc = "len(childs)"
				}
			}
			if desc == "" {
				desc = "other"
			}
			kinds[desc]++
			key := fmt.Sprintf("maintainChildState:refCount=%s#%d", desc, kinds[desc])
			R.check(okV, "C20.counter", key, su.pos(st.Pos()), "the counter moves relative to its previous value (reservations of in-flight spawns are kept)",
				"refCount is overwritten with "+desc+": head-room reserved for spawns still in flight is forgotten, the next scale-up reserves it again and the pool can exceed --max-procs")
			// an increase is a reservation for spawns this very branch starts: it is followed by the goroutine that spawns
			// them before the next event is taken (a worker that registers itself was already counted when it was planned)
			increases := false
			switch x := st.Val.(type) {
			case *ssa.BinOp:
				increases = x.Op == token.ADD
			case *ssa.Phi:
				increases = true
			}
			if increases && okV {
				isSpawnGo := func(in ssa.Instruction) bool {
					g, isGo := in.(*ssa.Go)
					if !isGo {
						return false
					}
					for _, t := range closureTargets(g) {
						if len(su.callsNamed(t, "pkg/server.ZnPMServer.spawnProcess")) > 0 {
							return true
						}
					}
					if sc := g.Call.StaticCallee(); sc != nil && len(su.callsNamed(sc, "pkg/server.ZnPMServer.spawnProcess")) > 0 {
						return true
					}
					return false
				}
				// the next event is taken at the select (or, in a helper, after it returns)
				isSelect := func(in ssa.Instruction) bool {
					_, ok := in.(*ssa.Select)
					_, isRet := in.(*ssa.Return)
					return ok || isRet
				}
				okRes := reachableAvoiding(st.Block(), instrIndex(st)+1, isSelect, isSpawnGo) == nil
				R.check(okRes, "C20.counter", key+":reserves-for-own-spawns", su.pos(st.Pos()), "the increase is followed by the goroutine that starts the reserved workers", "refCount is increased on a branch that starts no worker: workers are counted twice (once when planned, once here), the counter drifts above the real pool size and replacements stop (the pool falls below --init-procs)")
			}
		}
		R.min("C20.counter", 4)
		// one worker, one exit: the counter goes down (and the worker leaves the table) only in the branch that handles
		// an exit event (the delChan case of the select) - a worker written off on any other event is written off twice
		var sel *ssa.Select
		delCase := -1
		for _, in := range instrsOf(f) {
			if sx, ok := in.(*ssa.Select); ok {
				sel = sx
				for i, stt := range sx.States {
					if strings.HasSuffix(containerFieldOf(stt.Chan), ".delChan") {
						delCase = i
					}
				}
			}
		}
		var delEdges []cfgEdge
		if sel != nil && delCase >= 0 {
			for _, b := range f.Blocks {
				ifi, ok := b.Instrs[len(b.Instrs)-1].(*ssa.If)
				if !ok {
					continue
				}
				bo, ok := ifi.Cond.(*ssa.BinOp)
				if !ok || bo.Op != token.EQL {
					continue
				}
				ex, ok := bo.X.(*ssa.Extract)
				k, isK := bo.Y.(*ssa.Const)
				if ok && isK && ex.Tuple == ssa.Value(sel) && ex.Index == 0 && k.Int64() == int64(delCase) {
					delEdges = append(delEdges, cfgEdge{b, b.Succs[0]})
				}
			}
		}
		inExitCase := func(in ssa.Instruction) bool {
			g := in.Parent()
			if g == f {
				for _, e := range delEdges {
					if edgeDominates(e.from, e.to, in.Block()) {
						return true
					}
				}
				return false
			}
			// in a helper of the bookkeeping loop: every call of the helper lies in the exit case
			sites := su.staticCallers(g)
			if len(sites) == 0 {
				return false
			}
			for _, cs := range sites {
				if cs.Parent() != f {
					return false
				}
				okSite := false
				for _, e := range delEdges {
					if edgeDominates(e.from, e.to, cs.Block()) {
						okSite = true
					}
				}
				if !okSite {
					return false
				}
			}
			return true
		}
		nDown := 0
		for _, in := range bkInstrs {
			what := ""
			switch x := in.(type) {
			case *ssa.Store:
				if fa, ok := x.Addr.(*ssa.FieldAddr); ok && fieldAddrName(fa) == "childProcManager.refCount" {
					if bo, ok := x.Val.(*ssa.BinOp); ok && bo.Op == token.SUB && isRefLoad(bo.X) {
						what = "refCount is decreased"
					}
				}
			case *ssa.Call:
				if bi, ok := x.Call.Value.(*ssa.Builtin); ok && bi.Name() == "delete" && len(x.Call.Args) > 0 && strings.HasSuffix(containerFieldOf(x.Call.Args[0]), ".childs") {
					what = "a worker is removed from the table"
				}
			}
			if what == "" {
				continue
			}
			nDown++
			R.check(len(delEdges) > 0 && inExitCase(in), "C20.counter", fmt.Sprintf("maintainChildState:write-off#%d", nDown), su.pos(in.Pos()), "a worker is written off only when its exit event arrives", what+" outside the branch that handles a worker's exit event: the exit that follows writes the same worker off again, replacements are over-counted and the pool exceeds --max-procs")
		}
		// cap: a comparison finalProcNum > MaxProcs clamps, and addNum = final − current
		clamp, batch, repl := false, false, false
		for _, f := range bk {
			for _, b := range f.Blocks {
				ifi, ok := b.Instrs[len(b.Instrs)-1].(*ssa.If)
				if !ok {
					continue
				}
				bo, ok := ifi.Cond.(*ssa.BinOp)
				if !ok {
					continue
				}
				if bo.Op == token.GTR && flowsFromBin(bo.X, isRefLoad) {
					clamp = true
				}
				if bo.Op == token.LSS && isRefLoad(bo.X) {
					// replacement only when refCount < InitProcs: the spawn closure is created on the true edge
					for _, in := range instrsOf(f) {
						if g, isGo := in.(*ssa.Go); isGo && b.Succs[0].Dominates(g.Block()) {
							repl = true
						}
					}
				}
			}
			for _, in := range instrsOf(f) {
				if bo, ok := in.(*ssa.BinOp); ok && bo.Op == token.SUB {
					if _, isPhi := bo.X.(*ssa.Phi); isPhi && isRefLoad(bo.Y) {
						batch = true
					}
				}
			}
		}
		R.check(clamp && batch, "C20.cap", "maintainChildState:scale-up-batch", su.pos(f.Pos()), "batch = min(refCount+step, MaxProcs) − refCount", "the scale-up batch is not capped by MaxProcs relative to the reservation counter")
		R.check(repl, "C20.cap", "maintainChildState:replacement", su.pos(f.Pos()), "replacements are spawned only while refCount < InitProcs", "replacement workers are spawned without the refCount < InitProcs test")
	}

	// ---- C20.channels (rendezvous): a worker's registration cannot be overtaken by its own exit report because the event
	// channels are unbuffered: spawnProcess starts the goroutine that reports the exit only after the registration was
	// taken by the bookkeeping goroutine
	if g := su.ssaFunc("pkg/server", "NewZnPMServer"); g != nil {
		nCh, okCh := 0, true
		for _, in := range instrsOf(g) {
			mc, ok := in.(*ssa.MakeChan)
			if !ok {
				continue
			}
			nCh++
			if k, isK := mc.Size.(*ssa.Const); !isK || k.Int64() != 0 {
				okCh = false
			}
		}
		R.check(okCh && nCh >= 3, "C20.channels", "pkg/server.NewZnPMServer:unbuffered", su.pos(g.Pos()), "addChan / updateChan / delChan are unbuffered", "an event channel of the bookkeeping goroutine is buffered: the exit report of a worker that dies early can be processed before its registration, the dead pid then stays registered for ever and is never replaced (pool below --init-procs)")
	}

	// ---- C20.exit: every worker that ends is reported: in the goroutine that waits for the worker process no path from
	// cmd.Wait() to the goroutine's end skips the send on delChan (a worker that ends with a non-zero status - a timeout
	// kill, a crash - would otherwise never be replaced)
	if sp := su.ssaFunc("pkg/server", "ZnPMServer.spawnProcess"); sp != nil {
		nW := 0
		for _, g := range family(sp, 1) {
			for _, w := range su.callsNamed(g, "os/exec.Cmd.Wait") {
				wi, ok := w.(ssa.Instruction)
				if !ok {
					continue
				}
				nW++
				isSendDel := func(x ssa.Instruction) bool {
					sd, ok := x.(*ssa.Send)
					return ok && strings.HasSuffix(containerFieldOf(sd.Chan), ".delChan")
				}
				isRet := func(x ssa.Instruction) bool { _, ok := x.(*ssa.Return); return ok }
				skip := reachableAvoiding(wi.Block(), instrIndex(wi)+1, isRet, isSendDel)
				R.check(skip == nil, "C20.exit", su.fname(g)+":exit-reported", su.pos(wi.Pos()), "after cmd.Wait() every path sends the pid on delChan", "the goroutine that waits for a worker can end without reporting the exit on delChan (e.g. when Wait returns an error: non-zero status after a timeout kill or a crash): the stale worker stays in the table, refCount is not decreased and no replacement is started - the pool stays below --init-procs")
			}
		}
		if nW == 0 {
			R.viol("C20.exit", "spawnProcess:wait", su.pos(sp.Pos()), "no cmd.Wait() found in spawnProcess or the goroutine it starts")
		}
	}

	// ---- C20.env: the worker's timeout (and pipe id, child flag) reach it through the environment; os/exec keeps the
	// LAST duplicate, so the master's own settings must come after the inherited environment
	if sp := su.ssaFunc("pkg/server", "ZnPMServer.spawnProcess"); sp != nil {
		okEnv, why := false, "no assignment of cmd.Env found"
		isEnviron := func(v ssa.Value) bool {
			call, ok := v.(*ssa.Call)
			return ok && su.callName(call) == "os.Environ"
		}
		for _, in := range instrsOf(sp) {
			st, ok := in.(*ssa.Store)
			if !ok {
				continue
			}
			fa, ok := st.Addr.(*ssa.FieldAddr)
			if !ok || fieldAddrName(fa) != "Cmd.Env" {
				continue
			}
			call, isCall := st.Val.(*ssa.Call)
			bi, isBi := (ssa.Value)(nil), false
			if isCall {
				_, isBi = call.Call.Value.(*ssa.Builtin)
				bi = call.Call.Value
			}
			if !isCall || !isBi || bi.Name() != "append" || len(call.Call.Args) != 2 {
				okEnv, why = false, "cmd.Env is not built by append(os.Environ(), own entries…)"
				continue
			}
			switch {
			case flowsFrom(call.Call.Args[1], isEnviron):
				okEnv, why = false, "the inherited environment is appended AFTER the master's own entries: a stale ZINC_EXEC_TIMEOUT / ZINC_PIPE_ID in the master's environment overrides --timeout / the pipe id"
			case !flowsFrom(call.Call.Args[0], isEnviron):
				okEnv, why = false, "cmd.Env does not start from os.Environ()"
			default:
				okEnv = true
			}
		}
		R.check(okEnv, "C20.env", "spawnProcess:own-entries-last", su.pos(sp.Pos()), "cmd.Env = append(os.Environ(), own entries…): the configured timeout wins over an inherited variable", why)
	} else {
		R.lost("C20.env", "pkg/server.ZnPMServer.spawnProcess")
	}

	// ---- C20.worker
	w := su.ssaFunc("pkg/server", "ZnPMServer.StartWorker")
	if w == nil {
		R.lost("C20.worker", "pkg/server.ZnPMServer.StartWorker")
		return
	}
	pos := su.pos(w.Pos())
	var accept ssa.Instruction
	for _, in := range instrsOf(w) {
		if call, ok := in.(*ssa.Call); ok && call.Call.IsInvoke() && call.Call.Method.Name() == "Accept" {
			accept = in
		}
	}
	var sel *ssa.Select
	for _, in := range instrsOf(w) {
		if s, ok := in.(*ssa.Select); ok {
			sel = s
		}
	}
	if accept == nil || sel == nil {
		R.viol("C20.worker", "StartWorker", pos, "accept loop / completion select not found")
		return
	}
	okOne := reachableAvoiding(accept.Block(), instrIndex(accept)+1, func(x ssa.Instruction) bool { return x == accept }, func(x ssa.Instruction) bool { return x == ssa.Instruction(sel) }) == nil
	R.check(okOne, "C20.worker", "StartWorker:one-request-at-a-time", pos, "the next Accept is reachable only through the select that waits for the current request", "a worker can accept the next request without waiting for the current one")
	// timeout channel: created by time.After inside the loop
	okTimer := false
	for _, st := range sel.States {
		if st.Dir != types.RecvOnly {
			continue
		}
		if cv, ok := st.Chan.(*ssa.Call); ok && su.callName(cv) == "time.After" && loopBlock(cv.Block()) {
			okTimer = true
		}
	}
	R.check(okTimer, "C20.worker", "StartWorker:per-request-timeout", pos, "the timeout channel is created for each request (time.After inside the accept loop)", "the timeout timer is not created per request inside the loop: a tick left over from an idle period or an earlier request can fire at once and terminate a healthy worker")
	// states
	consts := constsWithPrefix(su.Pkgs["pkg/server"], "WORKER_STATE_")
	var goIn ssa.Instruction
	for _, in := range instrsOf(w) {
		if g, ok := in.(*ssa.Go); ok && dominatesInstr(accept, g) {
			goIn = g
		}
	}
	stateWrites := map[int64][]ssa.CallInstruction{}
	// the state reports: calls of a pkg/server function (method or plain function, whatever its name) whose last
	// argument is one of the WORKER_STATE_ constants
	stateVals := map[int64]bool{}
	for _, v := range consts {
		stateVals[v] = true
	}
	for _, in := range instrsOf(w) {
		cs, ok := in.(ssa.CallInstruction)
		if !ok {
			continue
		}
		callee := cs.Common().StaticCallee()
		args := cs.Common().Args
		if callee == nil || callee.Pkg == nil || !strings.HasSuffix(callee.Pkg.Pkg.Path(), "pkg/server") || len(args) < 2 {
			continue
		}
		if k, ok := args[len(args)-1].(*ssa.Const); ok && k.Value != nil && k.Value.Kind() == constant.Int && stateVals[k.Int64()] {
			if b, isBasic := k.Type().Underlying().(*types.Basic); isBasic && b.Info()&types.IsInteger != 0 {
				stateWrites[k.Int64()] = append(stateWrites[k.Int64()], cs)
			}
		}
	}
	busy, idle, stopped := stateWrites[consts["WORKER_STATE_BUSY"]], stateWrites[consts["WORKER_STATE_IDLE"]], stateWrites[consts["WORKER_STATE_STOPPED"]]
	okBusy := goIn != nil && len(busy) == 1 && dominatesInstr(busy[0], goIn) && dominatesInstr(accept, busy[0])
	R.check(okBusy, "C20.worker", "StartWorker:busy-before-handler", pos, "BUSY is reported after Accept and before the handler starts", "BUSY is not reported before the handler starts")
	okIdle := len(idle) == 1 && dominatesInstr(sel, idle[0])
	okStop := len(stopped) == 1 && dominatesInstr(sel, stopped[0])
	if okStop {
		// after STOPPED no path leads to another Accept; os.Exit follows
		okStop = reachableAvoiding(stopped[0].Block(), instrIndex(stopped[0])+1, func(x ssa.Instruction) bool { return x == accept }, func(x ssa.Instruction) bool { return isCallTo(su, x, "os.Exit") }) == nil
		exit := false
		for _, cs := range su.callsNamed(w, "os.Exit") {
			if dominatesInstr(stopped[0], cs) {
				exit = true
			}
		}
		okStop = okStop && exit
	}
	if okIdle && okStop {
		// IDLE and STOPPED are on different select branches
		okIdle = !idle[0].Block().Dominates(stopped[0].Block()) && !stopped[0].Block().Dominates(idle[0].Block())
	}
	R.check(okIdle, "C20.worker", "StartWorker:idle-after-completion", pos, "IDLE is reported only on the completion branch", "IDLE is reported on a path where the handler did not complete")
	R.check(okStop, "C20.worker", "StartWorker:timeout-exits", pos, "a timed-out worker reports STOPPED and exits without accepting again", "after a timeout the worker can go on accepting requests or does not exit")
}

func flowsFromBin(v ssa.Value, pred func(ssa.Value) bool) bool {
	if flowsFrom(v, pred) {
		return true
	}
	switch x := v.(type) {
	case *ssa.BinOp:
		return flowsFromBin(x.X, pred) || flowsFromBin(x.Y, pred)
	case *ssa.Phi:
		for _, e := range x.Edges {
			if bo, ok := e.(*ssa.BinOp); ok && (flowsFrom(bo.X, pred) || flowsFrom(bo.Y, pred)) {
				return true
			}
		}
	}
	return false
}

// ruleDupFresh: DuplicateValue hands out a fresh value for every kind of value that some operation changes in place.
// The kinds are found in the code: a value type of pkg/value is changeable when a built-in method (func(receiver, []Element) (Element, error))
// stores into one of its fields (Array, HashMap, Number through 自增, String through 转换数值 …). Objects are shared by
// design (C07). A kind that is returned as it is becomes shared wherever a copy is expected: the defaults of a
// library class, handed out through DuplicateValue, then carry one execution's changes into the next.
func ruleDupFresh(c *Ctx, u *Universe, rule string) {
	R := c.R
	f := u.ssaFunc("pkg/value", "DuplicateValue")
	if f == nil || len(f.Params) != 1 {
		R.lost(rule, "pkg/value.DuplicateValue")
		return
	}
	mutable := map[string]string{}
	for _, g := range u.srcFuncs("pkg/value") {
		// writers that a Zn program can reach: the built-in methods, func(receiver, []Element) (Element, error)
		sig := g.Signature
		if sig.Results().Len() != 2 || !isErrorType(sig.Results().At(1).Type()) || !isElementIface(sig.Results().At(0).Type()) {
			continue
		}
		takesArgs := false
		for i := 0; i < sig.Params().Len(); i++ {
			if sl, ok := sig.Params().At(i).Type().Underlying().(*types.Slice); ok && isElementIface(sl.Elem()) {
				takesArgs = true
			}
		}
		if !takesArgs {
			continue
		}
		for _, in := range instrsOf(g) {
			var fa *ssa.FieldAddr
			switch x := in.(type) {
			case *ssa.Store:
				fa, _ = x.Addr.(*ssa.FieldAddr)
			case *ssa.MapUpdate:
				if un, ok := x.Map.(*ssa.UnOp); ok {
					fa, _ = un.X.(*ssa.FieldAddr)
				}
			}
			if fa == nil {
				continue
			}
			n := fieldAddrName(fa)
			if i := strings.Index(n, "."); i > 0 {
				if _, seen := mutable[n[:i]]; !seen {
					mutable[n[:i]] = u.fname(g)
				}
			}
		}
	}
	nCase := 0
	for _, b := range f.Blocks {
		ifi, ok := b.Instrs[len(b.Instrs)-1].(*ssa.If)
		if !ok {
			continue
		}
		ex, ok := ifi.Cond.(*ssa.Extract)
		if !ok || ex.Index != 1 {
			continue
		}
		ta, ok := ex.Tuple.(*ssa.TypeAssert)
		if !ok || ta.X != ssa.Value(f.Params[0]) {
			continue
		}
		tn := recvNamed(ta.AssertedType)
		writer, isMut := mutable[tn]
		if !isMut || tn == "Object" {
			continue
		}
		nCase++
		// on the edge where the input is of this kind, no return hands the input itself back
		same := ""
		for _, rr := range returnsReachable(b.Succs[0], 0, nil) {
			if !edgeDominates(b, b.Succs[0], rr.Ret.Block()) {
				// a body shared by several kinds: reachable from this edge all the same
			}
			for _, src := range allSources(retValue(rr.Ret, 0)) {
				if src == ssa.Value(f.Params[0]) {
					same = u.pos(rr.Ret.Pos())
				}
				if t2, isTA := src.(*ssa.TypeAssert); isTA && t2.X == ssa.Value(f.Params[0]) {
					same = u.pos(rr.Ret.Pos())
				}
				if e2, isE := src.(*ssa.Extract); isE {
					if t2, isTA := e2.Tuple.(*ssa.TypeAssert); isTA && t2.X == ssa.Value(f.Params[0]) {
						same = u.pos(rr.Ret.Pos())
					}
				}
			}
		}
		R.check(same == "", rule, "pkg/value.DuplicateValue:"+tn, u.pos(f.Pos()), "a value of this kind is copied", "a "+tn+" is handed back as it is (return at "+same+") although "+writer+" changes such a value in place: wherever a copy is expected (variables, the defaults of library classes shared by all executions) one holder's change reaches the others")
	}
	if nCase < 3 {
		R.viol(rule, "pkg/value.DuplicateValue:kinds", u.pos(f.Pos()), fmt.Sprintf("expected the changeable kinds (Array, HashMap, Number, String …) among the cases of the copy routine, found %d", nCase))
	}
}

// plainTableElem: a value a lookup table may hold: functions and basic values, and structs / arrays of those
func plainTableElem(t types.Type, depth int) bool {
	if depth > 3 {
		return false
	}
	switch x := t.Underlying().(type) {
	case *types.Basic, *types.Signature:
		return true
	case *types.Struct:
		for i := 0; i < x.NumFields(); i++ {
			if !plainTableElem(x.Field(i).Type(), depth+1) {
				return false
			}
		}
		return true
	case *types.Array:
		return plainTableElem(x.Elem(), depth+1)
	}
	return false
}

// readOnlyLookupTable: "" unless the global named key (pkgrel.name) is a map / slice / array of plain table elements
// whose every load is only indexed, ranged over or measured
func readOnlyLookupTable(u *Universe, key string, t types.Type) string {
	var elem types.Type
	switch x := t.Underlying().(type) {
	case *types.Map:
		if _, basicKey := x.Key().Underlying().(*types.Basic); !basicKey {
			return ""
		}
		elem = x.Elem()
	case *types.Slice:
		elem = x.Elem()
	case *types.Array:
		elem = x.Elem()
	default:
		return ""
	}
	if !plainTableElem(elem, 0) {
		return ""
	}
	n := 0
	for _, rel := range corePkgs {
		for _, f := range u.srcFuncs(rel) {
			root := f
			for root.Parent() != nil {
				root = root.Parent()
			}
			isInit := root.Name() == "init" || strings.HasPrefix(root.Name(), "init#")
			for _, in := range instrsOf(f) {
				un, ok := in.(*ssa.UnOp)
				if !ok || un.Op != token.MUL {
					continue
				}
				g, ok := un.X.(*ssa.Global)
				if !ok || g.Pkg == nil || strings.TrimPrefix(strings.TrimPrefix(g.Pkg.Pkg.Path(), modPath), "/")+"."+g.Name() != key {
					continue
				}
				if isInit {
					continue
				}
				n++
				for _, r := range *un.Referrers() {
					switch y := r.(type) {
					case *ssa.Lookup:
						if y.X != ssa.Value(un) {
							return ""
						}
					case *ssa.Index:
					case *ssa.IndexAddr:
						// reading an element is fine; the address must only be loaded from
						for _, r2 := range *y.Referrers() {
							if l, isLoad := r2.(*ssa.UnOp); !isLoad || l.Op != token.MUL {
								return ""
							}
						}
					case *ssa.Range:
					case *ssa.Call:
						if bi, isB := y.Call.Value.(*ssa.Builtin); !isB || bi.Name() != "len" {
							return ""
						}
					case *ssa.DebugRef:
					default:
						return ""
					}
				}
			}
		}
	}
	return fmt.Sprintf("%s of plain values / functions, read at %d place(s) by indexing only", typeShort(t), n)
}
