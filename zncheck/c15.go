package main

import (
	"fmt"
	"go/constant"
	"go/token"
	"go/types"
	"strings"

	"golang.org/x/tools/go/ssa"
)

func init() {
	register("C15", checkC15)
	register("C17", checkC17)
}

func isRetInstr(x ssa.Instruction) bool { _, ok := x.(*ssa.Return); return ok }

func checkC15(c *Ctx) {
	R := c.R
	R.Explain = "Decided on SSA: (C15.once) a module body is executed only on the edge where no module of that name exists yet, and AllocateModule returns an existing module instead of a second one; (C15.first) all imports of a program are evaluated before its exec block; " +
		"(C15.const) every imported name - import-all and selective - is bound through DeclareExternalElement with the exporting module (read-only, and calls run in the home module), and DeclareExternalValue declares a constant; " +
		"(C15.missing) a missing library / module source is an error return; (C15.edge) every path through the custom-module branch that reaches the cycle check has recorded the edge importer->imported (module allocation or AddDependency), " +
		"and the graph primitives record an edge on every path (no path from entry to return without the append); a detected cycle returns ModuleCircularDependency; (C15.exports) only method and type declarations (and library registration) add export values; " +
		"(C15.path) the file finder builds root dir + path parts + \".zn\". (C15.home) every NewFunctionCallFrame in the evaluator names the callee's own module, never vm.GetCurrentModule() evaluated at call time; the cycle test has no path answering no-cycle before searching the graph. externalRefs is written under localCount-1 after the declaration; VM.CheckDepedency gives no answer for a known module before the cycle search. NOT decided: that an imported method sees its home module's other symbols (run-time scope history; known to fail for same-module siblings, see DESIGN.md), the DFS itself (baseline tests), exhaustive graphs. (C15.notfound) the file finder answers 'module not found' only behind os.IsNotExist; (C15.scopekeep) no module scope is ever deleted from VM.valueStack."
	R.Assumptions = []string{"checkCircularDepedencyDFS is a correct cycle test (7 baseline cases)", "path/filepath.Join semantics"}
	u := c.Core()
	u.buildSSA()
	ruleExternalRefsOwner(c, u, "C15.refsowner")

	f := u.ssaFunc("pkg/exec", "evalImportStmt")
	if f == nil {
		R.lost("C15.once", "pkg/exec.evalImportStmt")
		return
	}
	pos := u.pos(f.Pos())
	// ---- C15.once
	// the import statement's implementation: the function itself and the helpers it is split into
	fam := family(f, 2)
	fo, execs, nExecs := siteIn(u, fam, "pkg/exec.execAnotherModule")
	var finds []ssa.CallInstruction
	if fo != nil {
		finds = u.callsNamed(fo, "pkg/runtime.VM.FindModuleByName")
	}
	ok := nExecs == 1 && len(finds) >= 1
	if ok {
		ok = false
		for _, t := range nilTests(fo) {
			for _, fm := range finds {
				if flowsFrom(t.X, func(v ssa.Value) bool { return v == fm.Value() }) {
					// the execution is reachable only through the 'not loaded' edge
					if reachableAvoidingE(fo.Blocks[0], 0, func(x ssa.Instruction) bool { return x == ssa.Instruction(execs[0]) }, nil, nil, map[cfgEdge]bool{{t.If.Block(), t.OnNil}: true}) == nil {
						ok = true
					}
				}
			}
		}
	}
	R.check(ok, "C15.once", "pkg/exec.evalImportStmt:exec-on-first-import", pos, "the module source is executed only when no module of that name is loaded", "a module body can be executed although the module is already loaded")
	if g := u.ssaFunc("pkg/runtime", "VM.AllocateModule"); g != nil {
		okA := false
		adds := u.callsNamed(g, "pkg/runtime.ModuleGraph.AddModule")
		for _, t := range nilTests(g) {
			if cv, isC := t.X.(*ssa.Call); isC && u.callName(cv) == "pkg/runtime.VM.FindModuleByName" && len(adds) == 1 {
				okA = (edgeDominates(t.If.Block(), t.OnNil, adds[0].Block()) || t.OnNil.Dominates(adds[0].Block()))
			}
		}
		R.check(okA, "C15.once", "pkg/runtime.VM.AllocateModule", u.pos(g.Pos()), "an existing module is returned instead of allocating a second one", "AllocateModule can allocate a second module for a loaded name")
	} else {
		R.lost("C15.once", "pkg/runtime.VM.AllocateModule")
	}

	// ---- C15.first
	if g := u.ssaFunc("pkg/exec", "evalProgram"); g != nil {
		imps := u.callsNamed(g, "pkg/exec.evalImportStmt")
		body := u.callsNamed(g, "pkg/exec.evalExecBlock")
		okF := len(imps) == 1 && len(body) == 1
		if okF {
			okF = reachableAvoiding(body[0].Block(), instrIndex(body[0])+1, func(x ssa.Instruction) bool { return x == ssa.Instruction(imps[0]) }, nil) == nil
			// the import loop's header dominates the body call
			dom := false
			for _, h := range loopHeaders(g) {
				if h.Dominates(imps[0].Block()) && h.Dominates(body[0].Block()) {
					dom = true
				}
			}
			okF = okF && dom
		}
		R.check(okF, "C15.first", "pkg/exec.evalProgram", u.pos(g.Pos()), "imports are evaluated, in order, before any statement of the importer", "the exec block can run before (or between) the imports")
	} else {
		R.lost("C15.first", "pkg/exec.evalProgram")
	}

	// ---- C15.const
	nDecl := 0
	for _, fd := range fam {
		for _, in := range instrsOf(fd) {
			call, isC := in.(ssa.CallInstruction)
			if !isC {
				continue
			}
			n := u.callName(call)
			if n != "pkg/runtime.VM.DeclareElement" && n != "pkg/runtime.VM.DeclareConstElement" && n != "pkg/runtime.VM.DeclareExternalElement" {
				continue
			}
			nDecl++
			key := "pkg/exec.evalImportStmt:" + siteName(u, fd, call)
			okD := n == "pkg/runtime.VM.DeclareExternalElement"
			if okD {
				// the module argument is the imported module (phi of AllocateModule / FindModuleByName / execAnotherModule results)
				okD = flowsFromIP(u, call.Common().Args[3], 3, func(v ssa.Value) bool {
					cv, isCV := v.(*ssa.Call)
					if !isCV {
						return false
					}
					switch u.callName(cv) {
					case "pkg/runtime.VM.AllocateModule", "pkg/runtime.VM.FindModuleByName", "pkg/exec.execAnotherModule":
						return true
					}
					return false
				})
			}
			R.check(okD, "C15.const", key, u.pos(call.Pos()), "imported name is bound read-only together with its home module", "an imported name is bound without its home module (not through DeclareExternalElement): the imported method would run in the importer's module context")
		}
	}
	if nDecl < 2 {
		R.viol("C15.const", "pkg/exec.evalImportStmt:declares", pos, "expected the import-all and the selective binding sites")
	}
	if g := u.ssaFunc("pkg/runtime", "Scope.DeclareExternalValue"); g != nil {
		okC := false
		for _, cs := range u.callsNamed(g, "pkg/runtime.Scope.declareValue") {
			if k, isK := cs.Common().Args[3].(*ssa.Const); isK && k.Value != nil && constant.BoolVal(k.Value) {
				okC = true
			}
		}
		R.check(okC, "C15.const", "pkg/runtime.Scope.DeclareExternalValue", u.pos(g.Pos()), "external names are constants", "external (imported) names are declared assignable")
	}

	// ---- C15.missing
	for _, m := range []struct{ fn, callee, what string }{
		{"evalImportStmt", "pkg/runtime.VM.FindLibrary", "a missing library"},
		{"execAnotherModule", "", "a missing module source"},
	} {
		g := u.ssaFunc("pkg/exec", m.fn)
		if g == nil {
			R.lost("C15.missing", "pkg/exec."+m.fn)
			continue
		}
		if m.callee != "" {
			if gs, _, _ := siteIn(u, family(g, 2), m.callee); gs != nil {
				g = gs
			}
		}
		okM := false
		for _, in := range instrsOf(g) {
			call, isC := in.(ssa.CallInstruction)
			if !isC {
				continue
			}
			if m.callee != "" && u.callName(call) != m.callee {
				continue
			}
			if m.callee == "" {
				// the dynamic call of the code finder
				if call.Common().StaticCallee() != nil || call.Common().IsInvoke() {
					continue
				}
				if _, isBuiltin := call.Common().Value.(*ssa.Builtin); isBuiltin {
					continue
				}
			}
			errV := errResult(call)
			if errV == nil {
				continue
			}
			for _, t := range nilTests(g) {
				if t.X != errV {
					continue
				}
				good := true
				n := 0
				for _, rr := range returnsReachable(t.NotNil, 0, nil) {
					if !t.NotNil.Dominates(rr.Ret.Block()) {
						continue
					}
					n++
					if ev := errorOperand(rr.Ret); ev == nil || isNilConst(ev) {
						good = false
					}
				}
				if good && n > 0 {
					okM = true
				}
			}
		}
		R.check(okM, "C15.missing", "pkg/exec."+m.fn, u.pos(g.Pos()), m.what+" is reported as an error", m.what+" is not turned into an error return")
	}

	// ---- C15.edge
	fe, checks, nChecks := siteIn(u, fam, "pkg/runtime.VM.CheckDepedency")
	okE := nChecks == 1
	if okE {
		f := fe
		rec := func(x ssa.Instruction) bool {
			return isCallTo(u, x, "pkg/exec.execAnotherModule", "pkg/runtime.VM.AddDependency")
		}
		okE = reachableAvoiding(f.Blocks[0], 0, func(x ssa.Instruction) bool { return x == ssa.Instruction(checks[0]) }, rec) == nil
		// the check's error is returned
		errV := errResult(checks[0])
		ret := false
		for _, t := range nilTests(f) {
			if t.X == errV {
				for _, rr := range returnsReachable(t.NotNil, 0, nil) {
					if t.NotNil.Dominates(rr.Ret.Block()) && errorOperand(rr.Ret) == errV {
						ret = true
					}
				}
			}
		}
		okE = okE && ret
	}
	R.check(okE, "C15.edge", "pkg/exec.evalImportStmt:edge-before-check", pos, "every path to the cycle check recorded importer->imported first (the edge closing a cycle is always an import of a loaded module)", "the cycle check can run without the import edge having been recorded: cycles through already-loaded modules go undetected")
	for _, m := range []struct{ name, what string }{{"ModuleGraph.AddDependency", "AddDependency"}, {"VM.AddDependency", "VM.AddDependency"}} {
		g := u.ssaFunc("pkg/runtime", m.name)
		if g == nil {
			R.lost("C15.edge", "pkg/runtime."+m.name)
			continue
		}
		okG := true
		if m.name == "ModuleGraph.AddDependency" {
			isEdgeStore := func(x ssa.Instruction) bool {
				st, isSt := x.(*ssa.Store)
				if !isSt {
					return false
				}
				fa, isFA := st.Addr.(*ssa.FieldAddr)
				return isFA && fieldAddrName(fa) == "ModuleGraph.graph"
			}
			okG = reachableAvoiding(g.Blocks[0], 0, isRetInstr, isEdgeStore) == nil
		} else {
			// the only way not to record is an unknown name
			calls := u.callsNamed(g, "pkg/runtime.ModuleGraph.AddDependency")
			okG = len(calls) == 1
			if okG {
				okG = false
				for _, b := range g.Blocks {
					if ifi, isIf := b.Instrs[len(b.Instrs)-1].(*ssa.If); isIf {
						if ex, isEx := ifi.Cond.(*ssa.Extract); isEx && ex.Index == 1 {
							if cv, isCV := ex.Tuple.(*ssa.Call); isCV && u.callName(cv) == "pkg/runtime.ModuleGraph.GetIDFromName" && b.Succs[0] == calls[0].Block() {
								okG = true
							}
						}
					}
				}
				// the importer is the current module
				if okG {
					_, isCur := fieldLoad(calls[0].Common().Args[1], "csModuleID")
					okG = isCur
				}
			}
		}
		R.check(okG, "C15.edge", "pkg/runtime."+m.name, u.pos(g.Pos()), "records the edge (current module -> imported module) on every path", m.what+" can return without recording the dependency edge")
	}
	if g := u.ssaFunc("pkg/runtime", "ModuleGraph.AddModule"); g != nil {
		okG := false
		for _, in := range instrsOf(g) {
			if st, isSt := in.(*ssa.Store); isSt {
				if fa, isFA := st.Addr.(*ssa.FieldAddr); isFA && fieldAddrName(fa) == "ModuleGraph.graph" {
					for _, b := range g.Blocks {
						if ifi, isIf := b.Instrs[len(b.Instrs)-1].(*ssa.If); isIf {
							if bo, isB := ifi.Cond.(*ssa.BinOp); isB && bo.Op == token.GEQ && bo.X == ssa.Value(g.Params[1]) && isZeroConst(bo.Y) && b.Succs[0].Dominates(st.Block()) {
								okG = true
							}
						}
					}
				}
			}
		}
		R.check(okG, "C15.edge", "pkg/runtime.ModuleGraph.AddModule", u.pos(g.Pos()), "allocating a module under an importer records importer->module", "module allocation does not record the import edge")
	}
	if g := u.ssaFunc("pkg/runtime", "VM.CheckDepedency"); g != nil {
		okG := false
		for _, cs := range u.callsNamed(g, "pkg/runtime.ModuleGraph.CheckCircularDepedency") {
			for _, b := range g.Blocks {
				if ifi, isIf := b.Instrs[len(b.Instrs)-1].(*ssa.If); isIf && ifi.Cond == cs.Value() {
					for _, rr := range returnsReachable(b.Succs[0], 0, nil) {
						if b.Succs[0].Dominates(rr.Ret.Block()) {
							for _, s := range allSources(errorOperand(rr.Ret)) {
								if cv, isCV := s.(*ssa.Call); isCV && u.callName(cv) == "pkg/error.ModuleCircularDependency" {
									okG = true
								}
							}
						}
					}
				}
			}
		}
		R.check(okG, "C15.edge", "pkg/runtime.VM.CheckDepedency", u.pos(g.Pos()), "a detected cycle is reported as ModuleCircularDependency", "a detected cycle is not reported")
	}

	// ---- C15.home: a method, constructor or object method runs in the module that declared it - the frame pushed for
	// the call names the module found together with the callee (or captured at declaration), never the module that
	// happens to be current when the call is made
	nHome := 0
	for _, g := range u.srcFuncs("pkg/exec") {
		for _, cs := range u.callsNamed(g, "pkg/runtime.NewFunctionCallFrame") {
			nHome++
			bad := flowsFrom(cs.Common().Args[0], func(v ssa.Value) bool {
				call, ok := v.(*ssa.Call)
				return ok && u.callName(call) == "pkg/runtime.VM.GetCurrentModule"
			})
			R.check(!bad, "C15.home", u.fname(g)+":"+siteName(u, g, cs), u.pos(cs.Pos()), "the call frame names the callee's own module", "the call frame is given the caller's current module (vm.GetCurrentModule() at call time): an imported method / constructor resolves names in the importer's scope instead of its own module")
		}
	}
	R.min("C15.home", 3)

	// the home module of an imported name is recorded under the slot of the symbol just declared (localCount-1 after the
	// declaration): one off and the first imported name has no home module while later ones inherit the previous one's
	if f := u.ssaFunc("pkg/runtime", "Scope.DeclareExternalValue"); f != nil {
		okKey, nMU := true, 0
		for _, in := range instrsOf(f) {
			mu, ok := in.(*ssa.MapUpdate)
			if !ok || containerFieldOf(mu.Map) != "Scope.externalRefs" {
				continue
			}
			nMU++
			base, off := lin(mu.Key)
			if _, isCnt := fieldLoad(base, "localCount"); base == nil || !isCnt || off != -1 {
				okKey = false
			}
			// and the declaration precedes it
			decl := u.callsNamed(f, "pkg/runtime.Scope.declareValue")
			if len(decl) != 1 || !dominatesInstr(decl[0], mu) {
				okKey = false
			}
		}
		R.check(okKey && nMU == 1, "C15.const", "pkg/runtime.Scope.DeclareExternalValue:slot", u.pos(f.Pos()), "externalRefs[localCount-1] after the declaration", "the home module of an imported name is not recorded under the slot of the symbol just declared: imported methods run in the wrong module")
	} else {
		R.lost("C15.const", "pkg/runtime.Scope.DeclareExternalValue")
	}
	// VM.CheckDepedency: when the module is already known, no answer is given before the graph was searched
	if f := u.ssaFunc("pkg/runtime", "VM.CheckDepedency"); f != nil {
		okC := false
		checks := u.callsNamed(f, "pkg/runtime.ModuleGraph.CheckCircularDepedency")
		ids := u.callsNamed(f, "pkg/runtime.ModuleGraph.GetIDFromName")
		if len(checks) == 1 && len(ids) == 1 {
			// the test of `exists`: its true edge must reach a return only through the cycle test
			for _, b := range f.Blocks {
				ifi, isIf := b.Instrs[len(b.Instrs)-1].(*ssa.If)
				if !isIf {
					continue
				}
				ex, isEx := ifi.Cond.(*ssa.Extract)
				if !isEx || ex.Tuple != ids[0].Value() || ex.Index != 1 {
					continue
				}
				okC = reachableAvoiding(b.Succs[0], 0, func(x ssa.Instruction) bool { _, r := x.(*ssa.Return); return r }, func(x ssa.Instruction) bool { return x == ssa.Instruction(checks[0]) }) == nil
			}
		}
		R.check(okC, "C15.edge", "pkg/runtime.VM.CheckDepedency:known-module-is-searched", u.pos(f.Pos()), "for a module that is already known every answer comes after the cycle search", "for an already known module an answer can be given without searching the import graph (a shortcut on module ids): a module importing itself, or a cycle closed through it, goes unreported")
	} else {
		R.lost("C15.edge", "pkg/runtime.VM.CheckDepedency")
	}

	// the cycle test answers for the whole import graph: no shortcut answers "no cycle" without searching
	if g := u.ssaFunc("pkg/runtime", "ModuleGraph.CheckCircularDepedency"); g != nil {
		shortcut := ""
		isSearch := func(in ssa.Instruction) bool {
			call, ok := in.(*ssa.Call)
			return ok && call.Call.StaticCallee() != nil && call.Call.StaticCallee().Pkg == g.Pkg
		}
		headers := map[*ssa.BasicBlock]bool{}
		for _, h := range loopHeaders(g) {
			headers[h] = true
		}
		searches := len(headers) > 0
		for _, in := range instrsOf(g) {
			if isSearch(in) {
				searches = true
			}
		}
		for _, b := range g.Blocks {
			ret, isRet := b.Instrs[len(b.Instrs)-1].(*ssa.Return)
			if !isRet {
				continue
			}
			for _, src := range allSources(retValue(ret, 0)) {
				k, isK := src.(*ssa.Const)
				if !isK || k.Value == nil || k.Value.Kind() != constant.Bool || constant.BoolVal(k.Value) {
					continue
				}
				// a constant "no cycle": legitimate only behind the search (a loop or a call of the search function)
				if reachableAvoidingB(g.Blocks[0], 0, func(x ssa.Instruction) bool { return x == ssa.Instruction(ret) }, isSearch, headers) != nil {
					shortcut = u.pos(ret.Pos())
				}
			}
		}
		okShort := shortcut == ""
		R.check(searches && okShort, "C15.edge", "pkg/runtime.ModuleGraph.CheckCircularDepedency", u.pos(g.Pos()), "the answer is the result of the graph search on every path", "the cycle test can answer 'no cycle' without searching the graph (return at "+shortcut+"): some import cycles, e.g. a module importing itself, go unreported")
	} else {
		R.lost("C15.edge", "pkg/runtime.ModuleGraph.CheckCircularDepedency")
	}

	// ---- C15.exports
	allowed := map[string]bool{"pkg/exec.evalClassDeclareStmt": true, "pkg/exec.evalFunctionDeclareStmt": true, "pkg/exec.evalImportStmt": true}
	for h := range helpersOfAllowed(u, corePkgs, func(n string) bool { return allowed[n] }) {
		allowed[h] = true
	}
	n := 0
	for _, rel := range corePkgs {
		for g, cs := range u.funcsCalling([]string{rel}, "pkg/runtime.Module.AddExportValue") {
			for range cs {
				n++
				R.check(allowed[u.fname(g)], "C15.exports", u.fname(g)+":AddExportValue", u.pos(g.Pos()), "exports are added only for methods, types and library registration", "a function other than method/type declaration adds export values (variables would leak into importers)")
			}
		}
	}
	R.min("C15.exports", 3)

	// ---- C15.each: every 导入 statement of the import block is evaluated (a later statement naming the same module may
	// list other names): in evalProgram no cycle of the import loop avoids evalImportStmt
	if g := u.ssaFunc("pkg/exec", "evalProgram"); g != nil {
		okE := false
		for _, imp := range u.callsNamed(g, "pkg/exec.evalImportStmt") {
			ii, isI := imp.(ssa.Instruction)
			if !isI {
				continue
			}
			for _, h := range loopHeaders(g) {
				if !h.Dominates(ii.Block()) {
					continue
				}
				okE = !cycleAvoidingE(h, func(x ssa.Instruction) bool { return x == ii }, nil, nil)
			}
		}
		R.check(okE, "C15.each", "pkg/exec.evalProgram:import-loop", u.pos(g.Pos()), "every pass of the import loop evaluates its 导入 statement", "a pass of the import loop can skip evalImportStmt (e.g. for a module name seen before): the names listed by that 导入 statement never become available")
	}
	// "not imported" is told from "imported from the main module" (id 0): every read of Scope.externalRefs is a
	// comma-ok lookup
	nX := 0
	for _, g := range u.srcFuncs("pkg/runtime") {
		for _, in := range instrsOf(g) {
			lk, isLk := in.(*ssa.Lookup)
			if !isLk || containerFieldOf(lk.X) != "Scope.externalRefs" {
				continue
			}
			nX++
			R.check(lk.CommaOk, "C15.const", u.fname(g)+":externalRefs-lookup", u.pos(lk.Pos()), "the home module of a name is read with the 'is it imported at all' answer", "the home module of a name is read from externalRefs without the comma-ok form: for a name that is not imported the answer is 0, the main module's id, instead of 'none' - methods and types of other modules are then run in the main module's scope")
		}
	}
	if nX == 0 {
		R.viol("C15.const", "pkg/runtime:externalRefs-lookup", "", "no read of Scope.externalRefs found")
	}

	// ---- C15.notfound: the file finder answers "module not found" only when the file system says that the resolved
	// path does not exist (any other test on the path text rejects modules that do exist)
	if g := u.ssaFunc("pkg/exec", "Interpreter.LoadFile"); g != nil {
		nNF := 0
		for _, h := range family(g, 1) {
			if h.Pkg != g.Pkg {
				continue
			}
			for _, cs := range u.callsNamed(h, "pkg/error.ModuleNotFound") {
				nNF++
				guarded := false
				for _, b := range h.Blocks {
					ifi, isIf := b.Instrs[len(b.Instrs)-1].(*ssa.If)
					if !isIf {
						continue
					}
					if cv, isC := ifi.Cond.(*ssa.Call); isC && u.callName(cv) == "os.IsNotExist" && edgeDominates(b, b.Succs[0], cs.Block()) {
						guarded = true
					}
				}
				R.check(guarded, "C15.notfound", u.fname(h)+":"+siteName(u, h, cs), u.pos(cs.Pos()), "'module not found' is answered only when os.Stat reports that the path does not exist", "the file finder answers 'module not found' without the file system having said so (a test on the path text): a module that exists under the main file's directory is rejected for some ways of naming the main file")
			}
		}
		if nNF == 0 {
			R.viol("C15.notfound", "pkg/exec.Interpreter.LoadFile:instances", u.pos(g.Pos()), "no ModuleNotFound answer found in the file finder")
		}
	}

	// ---- C15.scopekeep: a module's own scope (with the names it imported) lives as long as the VM: imported methods and
	// types run in it long after the module body has finished, so no entry of VM.valueStack is ever deleted
	nDel := 0
	for _, g := range u.srcFuncs("pkg/runtime") {
		for _, in := range instrsOf(g) {
			call, isCall := in.(*ssa.Call)
			if !isCall {
				continue
			}
			if bi, isB := call.Call.Value.(*ssa.Builtin); !isB || bi.Name() != "delete" || len(call.Call.Args) == 0 {
				continue
			}
			if containerFieldOf(call.Call.Args[0]) == "VM.valueStack" {
				nDel++
				R.viol("C15.scopekeep", u.fname(g)+":delete(valueStack)", u.pos(call.Pos()), "a module's scope is deleted from the VM: the names that module imported vanish with it, so a method or type it exported fails later with 'name not defined' when it uses them")
			}
		}
	}
	if nDel == 0 {
		R.hold("C15.scopekeep", "pkg/runtime:VM.valueStack", "", "no module scope is ever removed from the VM")
	}

	// ---- C15.path
	if g := u.ssaFunc("pkg/exec", "Interpreter.LoadFile"); g != nil {
		okP := false
		for _, a := range family(g, 1)[1:] {
			joins := u.callsNamed(a, "path/filepath.Join")
			hasExt := false
			for _, in := range instrsOf(a) {
				if bo, isB := in.(*ssa.BinOp); isB && bo.Op == token.ADD {
					if k, isK := bo.Y.(*ssa.Const); isK && k.Value != nil && k.Value.Kind() == constant.String && constant.StringVal(k.Value) == ".zn" {
						hasExt = true
					}
				}
			}
			usesPath := false
			for _, in := range instrsOf(a) {
				if fa, isFA := in.(*ssa.FieldAddr); isFA && strings.HasSuffix(fieldAddrName(fa), ".LibPath") {
					usesPath = true
				}
				if fl, isF := in.(*ssa.Field); isF {
					_ = fl
					usesPath = usesPath || strings.Contains(fl.String(), "LibPath")
				}
			}
			if len(joins) >= 2 && hasExt && usesPath {
				okP = true
			}
		}
		R.check(okP, "C15.path", "pkg/exec.Interpreter.LoadFile", u.pos(g.Pos()), "导入“A-B-C” resolves to <main dir>/A/B/C.zn", "the module path is not built as root dir + path parts + .zn")
	} else {
		R.lost("C15.path", "pkg/exec.Interpreter.LoadFile")
	}
	_ = fmt.Sprint
}

func checkC17(c *Ctx) {
	R := c.R
	R.Explain = "Decided on SSA of pkg/io: (C17.decode) every rune appended to the decoded text is the first result of utf8.DecodeRune on the pending bytes (no byte is turned into a character by any other route); " +
		"(C17.runeerror) the comparison of that result with utf8.RuneError is refined by the returned size (size 1 = invalid byte, size 3 = the legitimate character U+FFFD) and utf8.FullRune tells an incomplete tail from an invalid byte; " +
		"(C17.reject) on the invalid-byte edge the function returns a non-nil error, and both ReadAll implementations turn an undecoded remainder at end of input into an error; (C17.carry) the remainder returned by the decoder is stored and " +
		"prepended by the next read (chunk-boundary invariance); (C17.bom) the byte-order mark is removed only on the first read: the first-read flag is set on every path through the first read, not only when a BOM was found; " +
		"(C17.loop) ReadAll's loop ends only on an empty block or an error. (C17.propagate) after every call of the decoder or of a module-source finder a normal return is reachable only over the nil edge of a test of that error (io.EOF excepted) or by returning an error. (C17.api) the block-wise Read is not called outside pkg/io (whole sources go through ReadAll) and the stream's reader is the opened file itself (optionally buffered). NOT decided: equality of the decoded text with the file for all inputs (follows from the above plus utf8.DecodeRune's contract, which is trusted)."
	R.Assumptions = []string{"unicode/utf8.DecodeRune / FullRune contracts", "os.File.Read returns 0 bytes only at end of file"}
	u := c.Core()
	u.buildSSA()
	ruleBomOnlyFirst(c, u, "C17.bom")
	f := u.ssaFunc("pkg/io", "readRune")
	if f == nil {
		R.lost("C17.decode", "pkg/io.readRune")
		return
	}
	pos := u.pos(f.Pos())
	decs := u.callsNamed(f, "unicode/utf8.DecodeRune")
	if len(decs) != 1 {
		R.viol("C17.decode", "pkg/io.readRune", pos, fmt.Sprintf("expected exactly one utf8.DecodeRune call, found %d", len(decs)))
		return
	}
	dec := decs[0]
	isRune := func(v ssa.Value) bool {
		ex, ok := v.(*ssa.Extract)
		return ok && ex.Tuple == dec.Value() && ex.Index == 0
	}
	isSize := func(v ssa.Value) bool {
		ex, ok := v.(*ssa.Extract)
		return ok && ex.Tuple == dec.Value() && ex.Index == 1
	}
	// ---- C17.decode: stores into the rune slice
	nApp, badApp := 0, 0
	for _, in := range instrsOf(f) {
		st, ok := in.(*ssa.Store)
		if !ok {
			continue
		}
		ia, ok := st.Addr.(*ssa.IndexAddr)
		if !ok {
			continue
		}
		// element store into a freshly allocated [1]rune for append(rs, x)
		if al, ok := ia.X.(*ssa.Alloc); ok && strings.Contains(al.Type().String(), "rune") || strings.Contains(ia.X.Type().String(), "int32") {
			nApp++
			if !isRune(st.Val) {
				badApp++
			}
		}
	}
	R.check(nApp >= 1 && badApp == 0, "C17.decode", "pkg/io.readRune:appended-runes", pos, "every decoded character is the result of utf8.DecodeRune", "a character enters the decoded text without going through utf8.DecodeRune (a byte is reinterpreted as a character)")

	// ---- C17.runeerror / C17.reject
	var errBlock *ssa.BasicBlock // successor on which (ru == RuneError && size <= 1) holds
	for _, b := range f.Blocks {
		ifi, ok := b.Instrs[len(b.Instrs)-1].(*ssa.If)
		if !ok {
			continue
		}
		bo, ok := ifi.Cond.(*ssa.BinOp)
		if !ok || bo.Op != token.EQL || !isRune(bo.X) {
			continue
		}
		k, ok := bo.Y.(*ssa.Const)
		if !ok || k.Int64() != 0xFFFD {
			continue
		}
		// the true successor must test the size before deciding
		tb := b.Succs[0]
		if ifi2, ok := tb.Instrs[len(tb.Instrs)-1].(*ssa.If); ok {
			if bo2, ok := ifi2.Cond.(*ssa.BinOp); ok && isSize(bo2.X) {
				if k2, ok := bo2.Y.(*ssa.Const); ok {
					switch {
					case (bo2.Op == token.LEQ || bo2.Op == token.EQL) && k2.Int64() == 1, bo2.Op == token.LSS && k2.Int64() == 2:
						errBlock = tb.Succs[0]
					case bo2.Op == token.NEQ && k2.Int64() == 1, bo2.Op == token.GTR && k2.Int64() == 1:
						errBlock = tb.Succs[1]
					}
				}
			}
		}
	}
	R.check(errBlock != nil, "C17.runeerror", "pkg/io.readRune:size-test", pos, "RuneError is treated as 'invalid' only together with size 1 (U+FFFD itself decodes with size 3)", "the RuneError comparison is not refined by the decoded size: a literal U+FFFD is rejected or an invalid byte accepted")
	if errBlock != nil {
		full := false
		for _, cs := range u.callsNamed(f, "unicode/utf8.FullRune") {
			if errBlock.Dominates(cs.Block()) {
				full = true
			}
		}
		hasErr, badNil := false, false
		for _, rr := range returnsReachable(errBlock, 0, nil) {
			if !errBlock.Dominates(rr.Ret.Block()) {
				continue
			}
			ev := errorOperand(rr.Ret)
			if ev != nil && !isNilConst(ev) {
				hasErr = true
			} else {
				// a nil-error exit here is only the 'incomplete tail, more input may come' case: guarded by FullRune
				guarded := false
				for _, cs := range u.callsNamed(f, "unicode/utf8.FullRune") {
					if dominatesInstr(cs, rr.Ret) {
						guarded = true
					}
				}
				if !guarded {
					badNil = true
				}
			}
		}
		R.check(full && hasErr && !badNil, "C17.reject", "pkg/io.readRune:invalid-byte", pos, "an invalid byte is an error; only an incomplete tail (utf8.FullRune false, more input may follow) is carried over", "an invalid byte does not lead to an error (the file would be silently truncated)")
	}

	// ---- C17.propagate: a failure while reading / decoding a source never lets the program run - after every
	// call of the decoder (pkg/io) or of a module-source finder, a normal return is reachable only over the nil
	// edge of a test of that error, or by returning an error
	nProp := 0
	for _, rel := range []string{"pkg/io", "pkg/exec"} {
		for _, g := range u.srcFuncs(rel) {
			tests := nilTests(g)
			for _, in := range instrsOf(g) {
				call, ok := in.(*ssa.Call)
				if !ok {
					continue
				}
				sig := call.Call.Signature()
				if sig == nil || sig.Results().Len() == 0 || !isErrorType(sig.Results().At(sig.Results().Len()-1).Type()) {
					continue
				}
				relevant := false
				if callee := call.Call.StaticCallee(); callee != nil && callee.Pkg != nil && strings.HasSuffix(callee.Pkg.Pkg.Path(), "pkg/io") {
					relevant = true
				}
				if namedTypeIs(call.Call.Value.Type(), "pkg/runtime", "ModuleCodeFinder") {
					relevant = true
				}
				if call.Call.IsInvoke() && rel == "pkg/io" {
					relevant = true // io.Reader.Read etc.
				}
				if !relevant {
					continue
				}
				nProp++
				key := u.fname(g) + ":" + siteName(u, g, call)
				errV := errResult(call)
				if errV == nil {
					R.viol("C17.propagate", key, u.pos(call.Pos()), "the error result of a read / decode step is discarded")
					continue
				}
				bad := errorDroppedAt(u, g, call, errV, tests)
				R.check(bad == "", "C17.propagate", key, u.pos(call.Pos()), "a failure of this read / decode step is reported on every path", "when this read / decode step fails the function can still return normally at "+bad+": a partly read or undecodable source is used as if it were complete")
			}
		}
	}
	R.min("C17.propagate", 5)

	// ---- C17.api: a whole source is read with ReadAll (the only entry that rejects an undecoded remainder at the end
	// of input); the block-wise Read is not used outside pkg/io
	nOutside := 0
	for _, rel := range corePkgs {
		if rel == "pkg/io" {
			continue
		}
		for _, g := range u.srcFuncs(rel) {
			for _, cs := range u.callsNamed(g, "pkg/io.FileStream.Read", "pkg/io.ByteStream.Read") {
				nOutside++
				R.viol("C17.api", u.fname(g)+":"+siteName(u, g, cs), u.pos(cs.Pos()), "a source is read with the block-wise Read instead of ReadAll: bytes left undecoded at the end of input (an incomplete or invalid sequence) are dropped silently")
			}
		}
	}
	if nOutside == 0 {
		R.hold("C17.api", "block-wise-Read-stays-inside-pkg/io", "", "no caller of FileStream.Read / ByteStream.Read outside pkg/io: whole sources go through ReadAll")
	}
	// the stream reads the file itself: nothing that limits, skips or rewrites bytes is put between the file and the decoder
	if g := u.ssaFunc("pkg/io", "NewFileStream"); g != nil {
		okR, nSt := true, 0
		why := ""
		for _, in := range instrsOf(g) {
			st, ok := in.(*ssa.Store)
			if !ok {
				continue
			}
			fa, ok := st.Addr.(*ssa.FieldAddr)
			if !ok || fieldAddrName(fa) != "FileStream.reader" {
				continue
			}
			nSt++
			for _, src := range allSources(st.Val) {
				switch x := src.(type) {
				case *ssa.Extract:
					if cv, isC := x.Tuple.(*ssa.Call); !isC || (u.callName(cv) != "os.Open" && u.callName(cv) != "os.OpenFile") {
						okR, why = false, "the reader does not come from os.Open"
					}
				case *ssa.Call:
					n := u.callName(x)
					if n != "bufio.NewReader" && n != "bufio.NewReaderSize" {
						okR, why = false, "the file is wrapped by "+n
					}
				default:
					okR, why = false, "the reader is not the opened file"
				}
			}
		}
		R.check(okR && nSt == 1, "C17.api", "pkg/io.NewFileStream:reader", u.pos(g.Pos()), "the stream's reader is the opened file (optionally buffered)", "the stream does not read the opened file directly ("+why+"): a wrapper that limits or filters the bytes truncates or alters the program silently")
	} else {
		R.lost("C17.api", "pkg/io.NewFileStream")
	}

	// ---- C17.keep: what a read / decode step returned together with an error is not kept for later (cached, stored in a
	// field) before the error was tested: otherwise the empty text of a rejected file is served as the program next time
	if g := u.ssaFunc("pkg/exec", "Interpreter.LoadFile"); g != nil {
		nK := 0
		for _, h := range family(g, 1) {
			if h.Pkg != g.Pkg {
				continue
			}
			tests := nilTests(h)
			for _, in := range instrsOf(h) {
				call, isCall := in.(*ssa.Call)
				if !isCall {
					continue
				}
				errV := errResult(call)
				if errV == nil {
					continue
				}
				var val ssa.Value
				for _, r := range *call.Referrers() {
					if ex, isEx := r.(*ssa.Extract); isEx && ex.Index == 0 {
						val = ex
					}
				}
				if val == nil {
					continue
				}
				for _, r := range *val.Referrers() {
					keeps := false
					switch x := r.(type) {
					case *ssa.Store:
						_, local := x.Addr.(*ssa.Alloc)
						keeps = x.Val == val && !local
					case *ssa.MakeInterface:
						for _, r2 := range *x.Referrers() {
							if c2, isC := r2.(*ssa.Call); isC && strings.HasSuffix(u.callName(c2), ".Store") {
								keeps = true
							}
						}
					case *ssa.MapUpdate:
						keeps = x.Value == val
					}
					if !keeps {
						continue
					}
					nK++
					tested := false
					for _, t := range tests {
						if t.X == errV && edgeDominates(t.If.Block(), t.OnNil, r.Block()) {
							tested = true
						}
					}
					R.check(tested, "C17.keep", u.fname(h)+":"+siteName(u, h, call)+":kept-after-test", u.pos(r.Pos()), "the result is kept only after its error was found nil", "the result of a read / decode step is stored for later before its error is tested: after a file was rejected (invalid UTF-8) the stored empty text is executed as the program on the next run")
				}
			}
		}
		if nK == 0 {
			R.hold("C17.keep", "pkg/exec.Interpreter.LoadFile", "", "the file finder keeps nothing of what it read")
		}
	}

	// ---- C17.texts: every program text handed to the parser in pkg/exec went through a decoding stream (which rejects
	// invalid UTF-8): no syntax.NewParser argument is a plain []rune(string) conversion
	nNP := 0
	for _, g := range u.srcFuncs("pkg/exec") {
		for _, cs := range u.callsNamed(g, "pkg/syntax.NewParser") {
			nNP++
			raw := ""
			for _, src := range allSources(cs.Common().Args[0]) {
				if cv, isCv := src.(*ssa.Convert); isCv {
					if b, isB := cv.X.Type().Underlying().(*types.Basic); isB && b.Info()&types.IsString != 0 {
						raw = u.pos(cv.Pos())
					}
				}
			}
			R.check(raw == "", "C17.texts", u.fname(g)+":"+siteName(u, g, cs), u.pos(cs.Pos()), "the text comes from a decoding stream", "a program text is converted with []rune(string) at "+raw+" instead of being decoded: invalid UTF-8 is not rejected, every bad byte silently becomes U+FFFD and the altered program runs")
		}
	}
	R.count("parser_inputs_in_pkg_exec", nNP)

	// ---- C17.nul: the lexer marks the end of input with RuneEOF (0); where the token reader meets that value it takes
	// it for the end of the text only when the cursor really is at the end - a NUL character inside the source is an
	// error, not a silent end of the program
	if g := u.ssaFunc("pkg/syntax/zh", "NextToken"); g != nil {
		isLenSrc := func(v ssa.Value) bool {
			call, ok := v.(*ssa.Call)
			if !ok {
				return false
			}
			bi, ok := call.Call.Value.(*ssa.Builtin)
			return ok && bi.Name() == "len" && strings.HasSuffix(containerFieldOf(call.Call.Args[0]), ".Source")
		}
		isCursor := func(v ssa.Value) bool {
			call, ok := v.(*ssa.Call)
			if ok && u.callName(call) == "pkg/syntax.Lexer.GetCursor" {
				return true
			}
			_, isF := fieldLoad(v, "cursor")
			return isF
		}
		// edges on which the cursor is known to stand at (or beyond) the end of the source
		var atEndEdges []cfgEdge
		for _, b := range g.Blocks {
			ifi, isIf := b.Instrs[len(b.Instrs)-1].(*ssa.If)
			if !isIf {
				continue
			}
			bo, isB := ifi.Cond.(*ssa.BinOp)
			if !isB {
				continue
			}
			switch {
			case bo.Op == token.LSS && isCursor(bo.X) && isLenSrc(bo.Y):
				atEndEdges = append(atEndEdges, cfgEdge{b, b.Succs[1]})
			case bo.Op == token.GEQ && isCursor(bo.X) && isLenSrc(bo.Y):
				atEndEdges = append(atEndEdges, cfgEdge{b, b.Succs[0]})
			case bo.Op == token.GTR && isLenSrc(bo.X) && isCursor(bo.Y):
				atEndEdges = append(atEndEdges, cfgEdge{b, b.Succs[1]})
			case bo.Op == token.LEQ && isLenSrc(bo.X) && isCursor(bo.Y):
				atEndEdges = append(atEndEdges, cfgEdge{b, b.Succs[0]})
			}
		}
		// the branch taken when the current character is RuneEOF (0): every normal answer given there (the end-of-input
		// token, directly or through parseEOF) lies behind an at-end edge
		nEOF, okNul := 0, true
		tests := nilTests(g)
		for _, b := range g.Blocks {
			ifi, isIf := b.Instrs[len(b.Instrs)-1].(*ssa.If)
			if !isIf {
				continue
			}
			bo, isB := ifi.Cond.(*ssa.BinOp)
			if !isB || bo.Op != token.EQL {
				continue
			}
			k, isK := bo.Y.(*ssa.Const)
			cur, isCall := bo.X.(*ssa.Call)
			if !isK || !isCall || k.Value == nil || k.Value.Kind() != constant.Int || k.Int64() != 0 || u.callName(cur) != "pkg/syntax.Lexer.GetCurrentChar" {
				continue
			}
			nEOF++
			for _, rr := range returnsReachable(b.Succs[0], 0, nil) {
				if !edgeDominates(b, b.Succs[0], rr.Ret.Block()) || !normalReturn(g, rr.Ret, tests) {
					continue
				}
				guarded := false
				for _, e := range atEndEdges {
					if edgeDominates(e.from, e.to, rr.Ret.Block()) {
						guarded = true
					}
				}
				if !guarded {
					okNul = false
				}
			}
		}
		R.check(okNul && nEOF >= 1, "C17.nul", "pkg/syntax/zh.NextToken:end-of-input", u.pos(g.Pos()), "the end-of-input token is produced only when the cursor has reached the end of the source", "the token reader takes the character NUL for the end of input wherever it stands: everything after a NUL in a source file is silently ignored and the truncated program is executed")
	} else {
		R.lost("C17.nul", "pkg/syntax/zh.NextToken")
	}

	// ---- C17.reject at end of input + C17.carry + C17.bom + C17.loop
	if g := u.ssaFunc("pkg/io", "FileStream.ReadAll"); g != nil {
		okLeft := false
		for _, b := range g.Blocks {
			ifi, ok := b.Instrs[len(b.Instrs)-1].(*ssa.If)
			if !ok {
				continue
			}
			bo, ok := ifi.Cond.(*ssa.BinOp)
			if !ok || bo.Op != token.GTR || !isZeroConst(bo.Y) {
				continue
			}
			if call, ok := bo.X.(*ssa.Call); ok {
				if bi, ok := call.Call.Value.(*ssa.Builtin); ok && bi.Name() == "len" && containerField(call.Call.Args[0]) == "FileStream.encBuffer" {
					for _, rr := range returnsReachable(b.Succs[0], 0, nil) {
						if b.Succs[0].Dominates(rr.Ret.Block()) {
							if ev := errorOperand(rr.Ret); ev != nil && !isNilConst(ev) {
								okLeft = true
							}
						}
					}
				}
			}
		}
		R.check(okLeft, "C17.reject", "pkg/io.FileStream.ReadAll:leftover", u.pos(g.Pos()), "undecoded bytes left at end of file are an error", "an incomplete sequence at the end of a file is dropped silently")
		// loop exits: only on len(res)==0 or error
		okLoop := false
		for _, h := range loopHeaders(g) {
			_ = h
			okLoop = true
		}
		reads := u.callsNamed(g, "pkg/io.FileStream.read")
		R.check(okLoop && len(reads) == 1 && loopBlock(reads[0].Block()), "C17.loop", "pkg/io.FileStream.ReadAll", u.pos(g.Pos()), "blocks are read until one yields no character", "ReadAll does not read block after block")
	} else {
		R.lost("C17.reject", "pkg/io.FileStream.ReadAll")
	}
	if g := u.ssaFunc("pkg/io", "ByteStream.ReadAll"); g != nil {
		okLeft := false
		for _, b := range g.Blocks {
			ifi, ok := b.Instrs[len(b.Instrs)-1].(*ssa.If)
			if !ok {
				continue
			}
			bo, ok := ifi.Cond.(*ssa.BinOp)
			if !ok || bo.Op != token.GTR || !isZeroConst(bo.Y) {
				continue
			}
			if call, ok := bo.X.(*ssa.Call); ok {
				if bi, ok := call.Call.Value.(*ssa.Builtin); ok && bi.Name() == "len" {
					if ex, ok := call.Call.Args[0].(*ssa.Extract); ok && ex.Index == 1 {
						if cv, ok := ex.Tuple.(*ssa.Call); ok && u.callName(cv) == "pkg/io.readRune" {
							for _, rr := range returnsReachable(b.Succs[0], 0, nil) {
								if b.Succs[0].Dominates(rr.Ret.Block()) {
									if ev := errorOperand(rr.Ret); ev != nil && !isNilConst(ev) {
										okLeft = true
									}
								}
							}
						}
					}
				}
			}
		}
		R.check(okLeft, "C17.reject", "pkg/io.ByteStream.ReadAll:leftover", u.pos(g.Pos()), "undecoded bytes left at the end of input-variable text are an error", "an incomplete sequence at the end of the text is dropped silently")
	} else {
		R.lost("C17.reject", "pkg/io.ByteStream.ReadAll")
	}
	if g := u.ssaFunc("pkg/io", "FileStream.read"); g != nil {
		rr := u.callsNamed(g, "pkg/io.readRune")
		okCarry := len(rr) == 1
		if okCarry {
			// argument = load of f.encBuffer ; result #1 stored back into f.encBuffer
			okCarry = containerField(rr[0].Common().Args[1]) == "FileStream.encBuffer"
			stored := false
			for _, in := range instrsOf(g) {
				if st, ok := in.(*ssa.Store); ok {
					if fa, ok := st.Addr.(*ssa.FieldAddr); ok && fieldAddrName(fa) == "FileStream.encBuffer" {
						if ex, ok := st.Val.(*ssa.Extract); ok && ex.Tuple == rr[0].Value() && ex.Index == 1 {
							stored = true
						}
					}
				}
			}
			okCarry = okCarry && stored
		}
		R.check(okCarry, "C17.carry", "pkg/io.FileStream.read", u.pos(g.Pos()), "the undecoded tail of one block is prepended to the next", "the remainder of a block is not carried into the next read (characters straddling a block boundary are lost)")
		// BOM
		okBom := false
		for _, b := range g.Blocks {
			ifi, ok := b.Instrs[len(b.Instrs)-1].(*ssa.If)
			if !ok {
				continue
			}
			if _, isFlag := fieldLoad(ifi.Cond, "hasRead"); !isFlag {
				continue
			}
			first := b.Succs[1] // `if !f.hasRead` is compiled as If(hasRead) with swapped successors
			isFlagStore := func(x ssa.Instruction) bool {
				st, ok := x.(*ssa.Store)
				if !ok {
					return false
				}
				fa, ok := st.Addr.(*ssa.FieldAddr)
				if !ok || fieldAddrName(fa) != "FileStream.hasRead" {
					return false
				}
				k, ok := st.Val.(*ssa.Const)
				return ok && k.Value != nil && constant.BoolVal(k.Value)
			}
			// every path from the first-read edge to a return sets the flag
			setsFlag := reachableAvoiding(first, 0, isRetInstr, isFlagStore) == nil
			// the BOM slice is inside the first-read region
			slices := false
			for _, in := range instrsOf(g) {
				if sl, ok := in.(*ssa.Slice); ok && sl.Low != nil && first.Dominates(sl.Block()) {
					slices = true
				}
			}
			// and nowhere else
			for _, in := range instrsOf(g) {
				if sl, ok := in.(*ssa.Slice); ok && sl.Low != nil && !first.Dominates(sl.Block()) {
					slices = false
				}
			}
			if setsFlag && slices {
				okBom = true
			}
		}
		R.check(okBom, "C17.bom", "pkg/io.FileStream.read", u.pos(g.Pos()), "only the first read can strip a BOM: the first-read flag is set whenever the first read happened", "the first-read flag is not set on every first read: a U+FEFF at the start of a later block would be dropped")
	} else {
		R.lost("C17.carry", "pkg/io.FileStream.read")
	}
}
