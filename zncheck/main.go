// zncheck - repository-specific static checker for DemoHn/Zn (see /verif/DESIGN.md)
//
// Every verdict is decided from /repo's current source (type-checked syntax trees, go/cfg, go/ssa,
// VTA call graph, compiler prove-pass output). Nothing of Zn is executed.
package main

import (
	"encoding/json"
	"flag"
	"fmt"
	"os"
	"path/filepath"
	"runtime/debug"
	"sort"
	"strconv"
	"strings"

	"golang.org/x/tools/go/packages"
)

// Ctx - lazily loaded universes shared by the rules of one run
type Ctx struct {
	Repo   string
	Verif  string
	Tier   string
	core   *Universe
	server *Universe
	R      *Report
}

func (c *Ctx) Core() *Universe {
	if c.core == nil {
		u, err := loadUniverse(c.Repo, "core(linux)", corePkgs, "")
		if err != nil {
			fatal(c, err)
		}
		if len(u.Pkgs) < len(corePkgs) {
			fatal(c, fmt.Errorf("expected >= %d module packages, got %d", len(corePkgs), len(u.Pkgs)))
		}
		c.core = u
		if len(u.overlay) > 0 {
			// the compiler inventory (C05.index / C10.index) must see the same text as the analysis
			if path, err := writeOverlayFiles(filepath.Join(c.Verif, "evidence", "remerged"), c.Repo, u.overlay); err == nil {
				bceOverlay[c.Repo] = path
			}
		}
		c.R.count("packages_core", len(u.Pkgs))
	}
	return c.core
}

// Server - pkg/server (and its deps) type-checked as the darwin build (named-pipe helpers exist
// only for darwin/windows). Shares no types.Object with Core().
func (c *Ctx) Server() *Universe {
	if c.server == nil {
		u, err := loadUniverse(c.Repo, "server(darwin)", []string{"pkg/server"}, "darwin")
		if err != nil {
			fatal(c, err)
		}
		c.server = u
		c.R.count("packages_server", len(u.Pkgs))
	}
	return c.server
}

func fatal(c *Ctx, err error) {
	fmt.Println("ERROR:", err)
	c.R.viol(c.R.Prop+".infra", "load", "", err.Error())
	os.Exit(c.R.finish(c.Verif, seed()))
}

func seed() int64 {
	s, _ := strconv.ParseInt(os.Getenv("VERIF_SEED"), 10, 64)
	return s
}

type propFn func(c *Ctx)

var props = map[string]propFn{}

func register(id string, f propFn) { props[id] = f }

func main() {
	repo := flag.String("repo", "/repo", "repository root")
	verif := flag.String("verif", "/verif", "verif root (known_findings.json, tables/, evidence/)")
	tier := flag.String("tier", "quick", "quick|thorough")
	prop := flag.String("prop", "", "property id (C01..C20)")
	list := flag.Bool("list", false, "list properties")
	genFuncs := flag.Bool("gen-functions", false, "maintenance: write tables/functions.json (the function inventory renames are resolved against) from -repo")
	flag.Parse()
	tablesDir = filepath.Join(*verif, "tables")
	if os.Getenv("ZNCHECK_DUMP_NILFIELDS") != "" {
		c := &Ctx{Repo: *repo, Verif: *verif, Tier: "quick", R: newReport("C00", "quick")}
		u := c.Core()
		u.buildSSA()
		dumpNilFields(u, corePkgs)
		for _, d := range droppedErrors(u, []string{"pkg/exec", "pkg/value", "pkg/runtime", "pkg/common", "stdlib/file", "stdlib/json"}) {
			fmt.Printf("DROPPED %s %s %s\n", d.Fn, d.Field, d.Pos)
		}
		return
	}
	if os.Getenv("ZNCHECK_DUMP_MUSTCALL") != "" {
		c := &Ctx{Repo: *repo, Verif: *verif, Tier: "quick", R: newReport("C00", "quick")}
		u := c.Core()
		u.buildSSA()
		dumpMustCall(u, corePkgs)
		su := c.Server()
		su.buildSSA()
		dumpMustCall(su, []string{"pkg/server"})
		return
	}
	if *genFuncs {
		tablesDir = ""
		var inv inventoryFile
		for _, spec := range []struct {
			rels []string
			goos string
		}{{corePkgs, ""}, {[]string{"pkg/server"}, "darwin"}} {
			u, err := loadUniverse(*repo, "inventory", spec.rels, spec.goos)
			if err != nil {
				fmt.Println("ERROR:", err)
				os.Exit(2)
			}
			pk := map[string]*packages.Package{}
			for rel, p := range u.Pkgs {
				if spec.goos == "" || rel == "pkg/server" {
					pk[rel] = p
				}
			}
			inv.Functions = append(inv.Functions, functionInventory(pk)...)
			inv.Structs = append(inv.Structs, structInventory(pk)...)
		}
		b, _ := json.MarshalIndent(inv, "", " ")
		if err := os.WriteFile(filepath.Join(*verif, "tables", "functions.json"), b, 0o644); err != nil {
			fmt.Println("ERROR:", err)
			os.Exit(2)
		}
		fmt.Printf("wrote %d function records, %d struct records\n", len(inv.Functions), len(inv.Structs))
		return
	}
	if *list {
		var ids []string
		for id := range props {
			ids = append(ids, id)
		}
		sort.Strings(ids)
		for _, id := range ids {
			fmt.Println(id)
		}
		return
	}
	if *prop == "all" {
		// every property against one loaded universe (used for refactoring / seed sweeps on scratch copies)
		os.Exit(runAll(*repo, *verif, *tier))
	}
	f, ok := props[*prop]
	if !ok {
		fmt.Fprintf(os.Stderr, "unknown property %q\n", *prop)
		os.Exit(2)
	}
	if *tier != "quick" && *tier != "thorough" {
		fmt.Fprintf(os.Stderr, "unknown tier %q\n", *tier)
		os.Exit(2)
	}
	c := &Ctx{Repo: *repo, Verif: *verif, Tier: *tier, R: newReport(*prop, *tier)}
	code := func() (code int) {
		defer func() {
			if e := recover(); e != nil {
				// an analyser panic fails the check (never a silent pass)
				fmt.Printf("ERROR: analyser panic: %v\n%s\n", e, debug.Stack())
				c.R.viol(*prop+".infra", "analyser-panic", "", fmt.Sprint(e))
				code = c.R.finish(c.Verif, seed())
			}
		}()
		f(c)
		runMustCall(c, *prop)
		if c.Tier == "thorough" && os.Getenv("ZNCHECK_NO_SELFTEST") == "" {
			// only meaningful when the unchanged tree has no unlisted violation
			failing := false
			for _, o := range c.R.Obls {
				if o.Status != Holds && o.Status != Known && o.Status != Violated {
					failing = true
				}
			}
			if !failing {
				rs := selfTest(c)
				c.R.selfTestResults = rs
				c.R.benignResults = selfTestBenign(c)
			}
		}
		return c.R.finish(c.Verif, seed())
	}()
	os.Exit(code)
}

func runAll(repo, verif, tier string) int {
	var ids []string
	for id := range props {
		ids = append(ids, id)
	}
	sort.Strings(ids)
	worst := 0
	var shared *Ctx
	for _, id := range ids {
		c := &Ctx{Repo: repo, Verif: verif, Tier: tier, R: newReport(id, tier)}
		if shared != nil {
			c.core, c.server = shared.core, shared.server
		}
		code := func() (code int) {
			defer func() {
				if e := recover(); e != nil {
					fmt.Printf("ERROR: analyser panic: %v\n%s\n", e, debug.Stack())
					c.R.viol(id+".infra", "analyser-panic", "", fmt.Sprint(e))
					code = c.R.finish(c.Verif, seed())
				}
			}()
			props[id](c)
			runMustCall(c, id)
			return c.R.finish(c.Verif, seed())
		}()
		if shared == nil {
			shared = &Ctx{}
		}
		if c.core != nil {
			shared.core = c.core
		}
		if c.server != nil {
			shared.server = c.server
		}
		if code > worst {
			worst = code
		}
	}
	return worst
}

// borrowRule re-runs another property's checker on the already loaded universes and adopts the obligations of
// one of its rules under a rule name of the current property (the same structural fact is a necessary
// condition of both properties)
var borrowCache = map[string][]Obligation{}

var borrowMin = map[string]map[string]int{}

func borrowRule(c *Ctx, fromProp, fromRule, asRule string) {
	obls, cached := borrowCache[c.Repo+"|"+fromProp]
	if !cached {
		sub := &Ctx{Repo: c.Repo, Verif: c.Verif, Tier: c.Tier, core: c.core, server: c.server, R: newReport(fromProp, c.Tier)}
		props[fromProp](sub)
		c.core, c.server = sub.core, sub.server
		obls = sub.R.Obls
		borrowCache[c.Repo+"|"+fromProp] = obls
		borrowMin[c.Repo+"|"+fromProp] = sub.R.MinCount
	}
	n := 0
	for _, o := range obls {
		if o.Rule == fromRule {
			c.R.add(asRule, o.Construct, o.Status, o.Pos, o.Detail)
			n++
		}
	}
	// the lender's minimum instance count applies to the borrowed rule as well
	if min := borrowMin[c.Repo+"|"+fromProp][fromRule]; n > 0 && n < min {
		c.R.viol(asRule, "instance-count", "", fmt.Sprintf("rule matched %d instances, fewer than the %d confirmed by hand (rule is going vacuous: code moved or idiom changed)", n, min))
	}
	if n == 0 {
		c.R.viol(asRule, "borrowed:"+fromRule, "", "rule "+fromRule+" produced no obligation")
	}
}

// runMustCall adds the must-call obligations of the property (tables/mustcall.json) to its report
func runMustCall(c *Ctx, prop string) {
	if len(c.R.Obls) > 0 && c.R.Obls[0].Rule == prop+".infra" {
		return
	}
	u := c.Core()
	u.buildSSA()
	var table []mustCallEntry
	if !loadTable(c, "mustcall.json", &table) {
		return
	}
	var core, server []mustCallEntry
	for _, e := range table {
		if e.Property != prop {
			continue
		}
		if strings.HasPrefix(e.Fn, "pkg/server.") {
			server = append(server, e)
		} else {
			core = append(core, e)
		}
	}
	c.R.Explain += " Also decided for the functions this property's table names (tables/mustcall.json): (" + prop + ".mustcall) every normal exit of F is preceded by the call K that does F's work, directly or through a helper (no shortcut / fast path around it); (" + prop + ".errdrop) no error of a module call, dynamic call or strconv / encoding/json / os call is dropped there (tested, returned, wrapped or classified on every path; reviewed exceptions in tables/errdrop_allow.json)."
	ruleMustCallEntries(c, u, prop, core)
	if prop == "C09" {
		// a failing statement ends its body: no evaluator function (eval…, exec…, handle… of pkg/exec) lets an error go
		ruleErrDropOwned(c, u, prop, func(fname string) bool {
			for _, pre := range []string{"pkg/exec.eval", "pkg/exec.exec", "pkg/exec.handle"} {
				if strings.HasPrefix(fname, pre) {
					return true
				}
			}
			return false
		})
	} else if prop != "C05" && prop != "C17" { // these two have their own error-propagation rules
		ruleErrDrop(c, u, prop)
	}
	if len(server) > 0 {
		su := c.Server()
		su.buildSSA()
		ruleMustCallEntries(c, su, prop, server)
	}
}
