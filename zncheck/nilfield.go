package main

import (
	"fmt"
	"go/token"
	"go/types"
	"sort"
	"strings"

	"golang.org/x/tools/go/ssa"
)

// Inconsistent nil checks (Engler et al.: "if one path checks a pointer for nil and another dereferences it
// unconditionally, one of them is wrong"): a pointer-typed struct field that some function of the module compares
// with nil is a field that can be nil; every dereference of a value loaded from that field must then lie behind a
// nil test of that field (in the function or in a guard helper), unless the table lists the site with its reason.

type nilFieldSite struct {
	Fn, Field, Pos string
}

// maybeNilFields: "Type.field" of pointer fields that are nil-tested somewhere in rels
func maybeNilFields(u *Universe, rels []string) map[string]bool {
	out := map[string]bool{}
	for _, rel := range rels {
		for _, f := range u.srcFuncs(rel) {
			for _, t := range nilTests(f) {
				if n, ok := fieldLoadFullName(t.X); ok {
					out[n] = true
				}
			}
		}
	}
	return out
}

func fieldLoadFullName(v ssa.Value) (string, bool) {
	un, ok := v.(*ssa.UnOp)
	if !ok || un.Op != token.MUL {
		return "", false
	}
	fa, ok := un.X.(*ssa.FieldAddr)
	if !ok {
		return "", false
	}
	if _, isPtr := un.Type().Underlying().(*types.Pointer); !isPtr {
		return "", false
	}
	return fieldAddrName(fa), true
}

// unguardedNilFieldDerefs lists dereferences of maybe-nil fields without a dominating nil test
func unguardedNilFieldDerefs(u *Universe, rels []string, fields map[string]bool) []nilFieldSite {
	var out []nilFieldSite
	for _, rel := range rels {
		for _, f := range u.srcFuncs(rel) {
			tests := nilTests(f)
			// stores of freshly allocated values into the field in this function make later loads non-nil: skip
			// functions that store the field (constructors / setters) for that field
			stores := map[string]bool{}
			for _, in := range instrsOf(f) {
				if st, ok := in.(*ssa.Store); ok {
					if fa, ok := st.Addr.(*ssa.FieldAddr); ok {
						stores[fieldAddrName(fa)] = true
					}
				}
			}
			for _, in := range instrsOf(f) {
				var base ssa.Value
				switch x := in.(type) {
				case *ssa.FieldAddr:
					base = x.X
				case *ssa.Call:
					if !x.Call.IsInvoke() && len(x.Call.Args) > 0 && x.Call.StaticCallee() != nil && x.Call.StaticCallee().Signature.Recv() != nil {
						if !nilSafeMethod(x.Call.StaticCallee()) {
							base = x.Call.Args[0]
						}
					}
				}
				if base == nil {
					continue
				}
				name, ok := fieldLoadFullName(base)
				if !ok || !fields[name] || stores[name] {
					continue
				}
				// only objects received from outside (parameters): what this function built itself is non-nil by construction
				if !strings.HasPrefix(accessPath(base), "param:") {
					continue
				}
				guarded := false
				for _, t := range tests {
					tn, okT := fieldLoadFullName(t.X)
					if !okT || tn != name {
						continue
					}
					if !(t.X == base || sameSlice(t.X, base) || accessPath(t.X) == accessPath(base)) {
						continue
					}
					if edgeDominates(t.If.Block(), t.NotNil, in.Block()) || t.NotNil.Dominates(in.Block()) {
						guarded = true
					}
				}
				if !guarded && establishedAt(u, f, in.Block(), base, notNilPred, 2) {
					guarded = true
				}
				if !guarded {
					out = append(out, nilFieldSite{u.fname(f), name, u.pos(in.Pos())})
				}
			}
		}
	}
	sort.Slice(out, func(i, j int) bool {
		if out[i].Fn != out[j].Fn {
			return out[i].Fn < out[j].Fn
		}
		return out[i].Pos < out[j].Pos
	})
	return out
}

func dumpNilFields(u *Universe, rels []string) {
	fields := maybeNilFields(u, rels)
	var names []string
	for n := range fields {
		names = append(names, n)
	}
	sort.Strings(names)
	fmt.Println("maybe-nil fields:", strings.Join(names, " "))
	for _, s := range unguardedNilFieldDerefs(u, rels, fields) {
		fmt.Printf("UNGUARDED %s %s %s\n", s.Fn, s.Field, s.Pos)
	}
}

// accessPath renders a value as root.field.field… (root = parameter, or the value's identity)
func accessPath(v ssa.Value) string {
	switch x := v.(type) {
	case *ssa.UnOp:
		if x.Op == token.MUL {
			if fa, ok := x.X.(*ssa.FieldAddr); ok {
				return accessPath(fa.X) + fmt.Sprintf(".%d", fa.Field)
			}
		}
	case *ssa.Parameter:
		return "param:" + x.Name()
	}
	return fmt.Sprintf("%p", v)
}

// ruleNilFields reports unguarded dereferences of maybe-nil fields in the functions accepted by filter (file path
// relative to the repository)
func ruleNilFields(c *Ctx, u *Universe, rule string, fileFilter func(string) bool) {
	R := c.R
	fields := maybeNilFields(u, corePkgs)
	// the fields known to be nil-able on the reference tree stay in the set even when their last test disappears
	for _, n := range []string{"Program.ExecBlock", "ExecBlock.StmtBlock", "ParserZH.TokenP1", "ParserZH.TokenP2", "FuncCallExpr.YieldResult", "MemberMethodExpr.YieldResult", "CallFrame.programAST", "SyntaxErrorWrapper.parser"} {
		fields[n] = true
	}
	sites := unguardedNilFieldDerefs(u, corePkgs, fields)
	n := 0
	seen := map[string]bool{}
	for _, s := range sites {
		file := s.Pos
		if i := strings.LastIndex(file, ":"); i >= 0 {
			file = file[:i]
		}
		if fileFilter != nil && !fileFilter(file) {
			continue
		}
		key := s.Fn + ":" + s.Field
		if seen[key] {
			continue
		}
		seen[key] = true
		n++
		R.viol(rule, key, s.Pos, "the field "+s.Field+" can be nil (other code tests it) and is dereferenced here without a nil test: nil pointer dereference")
	}
	var names []string
	for f := range fields {
		names = append(names, f)
	}
	sort.Strings(names)
	if n == 0 {
		R.hold(rule, "maybe-nil-fields", "", fmt.Sprintf("%d nil-able pointer fields (%s): every dereference of a value loaded from them through a parameter lies behind a nil test", len(names), strings.Join(names, " ")))
	}
}

// droppedErrors lists calls of module functions (and dynamic calls) returning an error after which the function can
// return normally without having tested / returned that error
func droppedErrors(u *Universe, rels []string) []nilFieldSite {
	var out []nilFieldSite
	for _, rel := range rels {
		for _, g := range u.srcFuncs(rel) {
			tests := nilTests(g)
			for _, in := range instrsOf(g) {
				call, ok := in.(*ssa.Call)
				if !ok {
					continue
				}
				sig := call.Call.Signature()
				if sig == nil || sig.Results().Len() == 0 || !isErrorType(sig.Results().At(sig.Results().Len()-1).Type()) {
					continue
				}
				name := u.callName(call)
				if callee := call.Call.StaticCallee(); callee != nil && (callee.Pkg == nil || !strings.HasPrefix(callee.Pkg.Pkg.Path(), modPath)) {
					// library calls: only the ones whose failure matters to Zn programs
					if !strings.HasPrefix(name, "strconv.") && !strings.HasPrefix(name, "encoding/json.") && !strings.HasPrefix(name, "os.") {
						continue
					}
				}
				// a call that is handed an error processes that error (classifies, resolves or wraps it): what it
				// returns is the caller's decision about the incoming error, not a new failure
				takesErr := false
				for _, a := range call.Call.Args {
					if isErrorType(a.Type()) {
						takesErr = true
					}
				}
				if takesErr {
					continue
				}
				errV := errResult(call)
				if errV == nil {
					out = append(out, nilFieldSite{u.fname(g), name, u.pos(call.Pos())})
					continue
				}
				if bad := errorDroppedAt(u, g, call, errV, tests); bad != "" {
					out = append(out, nilFieldSite{u.fname(g), name, u.pos(call.Pos())})
				}
			}
		}
	}
	return out
}

// ruleErrDrop: in the functions the property owns (the functions its must-call table names), no error of a module
// call, a dynamic call or a strconv / encoding/json / os call is dropped
func ruleErrDrop(c *Ctx, u *Universe, prop string) {
	ruleErrDropOwned(c, u, prop, nil)
}

// ruleErrDropOwned: the same with further owned functions (by name as given by u.fname)
func ruleErrDropOwned(c *Ctx, u *Universe, prop string, extra func(fname string) bool) {
	R := c.R
	var table []mustCallEntry
	var allow map[string]string
	if !loadTable(c, "mustcall.json", &table) || !loadTable(c, "errdrop_allow.json", &allow) {
		return
	}
	owned := map[string]bool{}
	for _, e := range table {
		if e.Property == prop {
			owned[e.Fn] = true
		}
	}
	if len(owned) == 0 {
		return
	}
	rule := prop + ".errdrop"
	n, nBad := 0, 0
	seen := map[string]bool{}
	for _, d := range droppedErrors(u, []string{"pkg/exec", "pkg/value", "pkg/runtime", "pkg/common", "stdlib/file", "stdlib/json", "pkg/io"}) {
		root := d.Fn
		if i := strings.Index(root, "$"); i >= 0 {
			root = root[:i]
		}
		if !owned[d.Fn] && !owned[root] && (extra == nil || !extra(root)) {
			continue
		}
		n++
		key := d.Fn + " -> " + d.Field
		if seen[key] {
			continue
		}
		seen[key] = true
		why, ok := allow[key]
		if !ok {
			// an allowed pair whose function was inlined into this one keeps its permission
			for ak, aw := range allow {
				parts := strings.SplitN(ak, " -> ", 2)
				if len(parts) != 2 || parts[1] != d.Field {
					continue
				}
				for r := range u.Pkgs {
					if strings.HasPrefix(parts[0], r+".") && len(parts[0]) > len(r)+1 && u.ssaFuncExact(r, parts[0][len(r)+1:]) == nil && u.inlinedInto(r, parts[0][len(r)+1:]) == d.Fn {
						why, ok = aw+" (the listed function was inlined here)", true
					}
				}
			}
		}
		if ok {
			R.hold(rule, key, d.Pos, "reviewed: "+why)
			continue
		}
		nBad++
		R.viol(rule, key, d.Pos, "the error of this call is dropped: the function can return normally although the call failed")
	}
	if nBad == 0 {
		R.hold(rule, "owned-functions", "", fmt.Sprintf("no error is dropped in the %d functions this property's must-call table names (errors are tested, returned, wrapped or classified on every path)", len(owned)))
	}
}
