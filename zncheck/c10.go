package main

import (
	"bufio"
	"bytes"
	"fmt"
	"go/ast"
	"go/constant"
	"go/token"
	"go/types"
	"os"
	"os/exec"
	"regexp"
	"sort"
	"strconv"
	"strings"

	"golang.org/x/tools/go/packages"
	"golang.org/x/tools/go/ssa"
)

func init() { register("C10", checkC10) }

// ---------- validators

var validatorTypes = map[string]string{
	"number": "Number", "string": "String", "array": "Array", "hashmap": "HashMap", "bool": "Bool",
	"object": "Object", "function": "Function", "govalue": "GoValue",
}

// variadicStrings extracts the constant strings of a variadic ...string argument (nil if not constant)
func variadicStrings(v ssa.Value) ([]string, bool) {
	if k, ok := v.(*ssa.Const); ok && k.IsNil() {
		return []string{}, true
	}
	sl, ok := v.(*ssa.Slice)
	if !ok {
		return nil, false
	}
	al, ok := sl.X.(*ssa.Alloc)
	if !ok {
		return nil, false
	}
	out := map[int64]string{}
	for _, r := range *al.Referrers() {
		ia, ok := r.(*ssa.IndexAddr)
		if !ok {
			continue
		}
		idx, ok := ia.Index.(*ssa.Const)
		if !ok {
			return nil, false
		}
		for _, rr := range *ia.Referrers() {
			if st, ok := rr.(*ssa.Store); ok {
				k, ok := st.Val.(*ssa.Const)
				if !ok || k.Value == nil || k.Value.Kind() != constant.String {
					return nil, false
				}
				out[idx.Int64()] = constant.StringVal(k.Value)
			}
		}
	}
	res := make([]string, len(out))
	for i := range res {
		s, ok := out[int64(i)]
		if !ok {
			return nil, false
		}
		res[i] = s
	}
	return res, true
}

// sameSlice: two values denote the same slice (same SSA value or loads of the same field)
func sameSlice(a, b ssa.Value) bool {
	if a == b {
		return true
	}
	ba, oka := fieldLoadAny(a)
	bb, okb := fieldLoadAny(b)
	return oka && okb && ba == bb
}

func fieldLoadAny(v ssa.Value) (string, bool) {
	un, ok := v.(*ssa.UnOp)
	if !ok || un.Op != token.MUL {
		return "", false
	}
	fa, ok := un.X.(*ssa.FieldAddr)
	if !ok {
		return "", false
	}
	return fmt.Sprintf("%p.%d", fa.X, fa.Field), true
}

type validation struct {
	call   ssa.CallInstruction
	slice  ssa.Value
	kind   string // exact | least | all
	types  []string
	okEdge *ssa.BasicBlock // successor on which the validator returned nil
	from   *ssa.BasicBlock
}

func validationsOf(u *Universe, f *ssa.Function) []validation {
	var out []validation
	tests := nilTests(f)
	for _, in := range instrsOf(f) {
		call, ok := in.(ssa.CallInstruction)
		if !ok {
			continue
		}
		kind := ""
		switch u.callName(call) {
		case "pkg/value.ValidateExactParams":
			kind = "exact"
		case "pkg/value.ValidateLeastParams":
			kind = "least"
		case "pkg/value.ValidateAllParams":
			kind = "all"
		default:
			continue
		}
		args := call.Common().Args
		v := validation{call: call, slice: args[0], kind: kind}
		if kind == "all" {
			if k, ok := args[1].(*ssa.Const); ok && k.Value != nil {
				v.types = []string{constant.StringVal(k.Value)}
			}
		} else {
			ts, ok := variadicStrings(args[1])
			if !ok {
				continue
			}
			v.types = ts
		}
		for _, t := range tests {
			if t.X == call.Value() {
				v.okEdge, v.from = t.OnNil, t.If.Block()
			}
		}
		if v.okEdge != nil {
			out = append(out, v)
		}
	}
	return out
}

// guaranteedLen: number of leading parameters a successful validation guarantees
func (v validation) guaranteedLen() int {
	switch v.kind {
	case "exact":
		return len(v.types)
	case "least":
		n := 0
		for _, t := range v.types {
			if strings.HasSuffix(t, "*") || strings.HasSuffix(t, "+") || strings.HasSuffix(t, "?") {
				break
			}
			n++
		}
		return n
	}
	return 0
}

// allElements: the validation fixes the type of every element (ValidateAllParams, or a single "T*"/"T+")
func (v validation) allElements() (string, bool) {
	if v.kind == "all" {
		return v.types[0], true
	}
	if v.kind == "least" && len(v.types) == 1 && (strings.HasSuffix(v.types[0], "*") || strings.HasSuffix(v.types[0], "+")) {
		return strings.TrimRight(v.types[0], "*+"), true
	}
	return "", false
}

func (v validation) typeAt(i int) string {
	switch v.kind {
	case "all":
		return v.types[0]
	default:
		if i < len(v.types) {
			return strings.TrimRight(v.types[i], "*+?")
		}
	}
	return ""
}

func (v validation) covers(b *ssa.BasicBlock) bool {
	return edgeDominates(v.from, v.okEdge, b) || v.okEdge.Dominates(b)
}

// ---------- BCE inventory

type bceSite struct {
	file      string
	line, col int
	kind      string
}

var bceRe = regexp.MustCompile(`^(.*\.go):(\d+):(\d+): Found (IsInBounds|IsSliceInBounds)`)

var bceCache = map[string][]bceSite{}

// bceOverlay: per repository, the go command's -overlay file with the re-merged sources (remerge.go)
var bceOverlay = map[string]string{}

func runBCE(repo string, rels []string) ([]bceSite, error) {
	ck := repo + "|" + strings.Join(rels, ",")
	if s, ok := bceCache[ck]; ok {
		return s, nil
	}
	s, err := runBCE1(repo, rels)
	if err == nil {
		bceCache[ck] = s
	}
	return s, err
}

func runBCE1(repo string, rels []string) ([]bceSite, error) {
	args := []string{"build", "-gcflags=-l -d=ssa/check_bce/debug=1"}
	if ov := bceOverlay[repo]; ov != "" {
		args = append(args, "-overlay", ov)
	}
	for _, r := range rels {
		args = append(args, "./"+r)
	}
	cmd := exec.Command("go", args...)
	cmd.Dir = repo
	cmd.Env = append(os.Environ(), "GOFLAGS=-mod=mod", "GOPROXY=off", "GOSUMDB=off", "GOTOOLCHAIN=local", "GOWORK=off")
	var buf bytes.Buffer
	cmd.Stdout, cmd.Stderr = &buf, &buf
	err := cmd.Run()
	var out []bceSite
	sc := bufio.NewScanner(&buf)
	for sc.Scan() {
		m := bceRe.FindStringSubmatch(strings.TrimSpace(sc.Text()))
		if m == nil {
			continue
		}
		l, _ := strconv.Atoi(m[2])
		cc, _ := strconv.Atoi(m[3])
		out = append(out, bceSite{strings.TrimPrefix(m[1], "./"), l, cc, m[4]})
	}
	if err != nil && len(out) == 0 {
		return nil, fmt.Errorf("go build for the bounds-check inventory failed: %v\n%s", err, buf.String())
	}
	return out, nil
}

type bceEntry struct {
	Reason string `json:"reason"`
	Side   string `json:"side_condition,omitempty"`
	// Given: the part of the argument that is the callers' obligation ("param1>=0"); with it the own prover must
	// establish the rest, so the entry does not mask a later change of the function itself
	Given []string `json:"given,omitempty"`
}

// ruleBCE: every bounds check the compiler cannot eliminate is discharged by a validator or listed
// (with a reason) in the reviewed table; fileFilter selects the files of this property
func ruleBCE(c *Ctx, u *Universe, rule string, rels []string, fileFilter func(string) bool) {
	R := c.R
	sites, err := runBCE(c.Repo, rels)
	if err != nil {
		R.viol(rule, "compiler-inventory", "", err.Error())
		return
	}
	var table map[string]bceEntry
	if !loadTable(c, "bce.json", &table) {
		return
	}
	used := map[string]bool{}
	nSites, nProved := 0, 0
	perKey := map[string]int{}
	sort.Slice(sites, func(i, j int) bool {
		if sites[i].file != sites[j].file {
			return sites[i].file < sites[j].file
		}
		if sites[i].line != sites[j].line {
			return sites[i].line < sites[j].line
		}
		return sites[i].col < sites[j].col
	})
	type siteRec struct {
		s    bceSite
		rel  string
		p    *packages.Package
		node ast.Expr
		fd   *ast.FuncDecl
		key  string
	}
	var recs []siteRec
	present := map[string]bool{}
	for _, s := range sites {
		rel := s.file[:strings.LastIndex(s.file, "/")]
		p := u.Pkgs[rel]
		if p == nil {
			continue
		}
		// locate the AST node and the enclosing function
		var node ast.Expr
		var fd *ast.FuncDecl
		for _, f := range p.Syntax {
			if !strings.HasSuffix(u.Fset.Position(f.Pos()).Filename, "/"+s.file) {
				continue
			}
			ast.Inspect(f, func(n ast.Node) bool {
				var lb token.Pos
				switch x := n.(type) {
				case *ast.IndexExpr:
					lb = x.Lbrack
				case *ast.SliceExpr:
					lb = x.Lbrack
				default:
					return true
				}
				pp := u.Fset.Position(lb)
				if pp.Line == s.line && pp.Column == s.col {
					node = n.(ast.Expr)
				}
				return true
			})
			if node != nil {
				fd = enclosingDecl(p, node.Pos())
			}
		}
		if node == nil || fd == nil {
			if fileFilter == nil || fileFilter(s.file) {
				R.undecided(rule, fmt.Sprintf("%s:%d:%d", s.file, s.line, s.col), fmt.Sprintf("%s:%d", s.file, s.line), "compiler reports an unproven bounds check that could not be mapped to an index/slice expression")
			}
			continue
		}
		// the key names the function and the expression with every local variable replaced by its type, so
		// renaming a local (or the receiver) does not change it
		base := rel + "." + declName(fd) + ":" + normExpr(p.TypesInfo, node)
		if os.Getenv("ZNCHECK_BCE_MIGRATE") != "" {
			fmt.Printf("BCEKEY\t%s\t%s\n", rel+"."+declName(fd)+":"+types.ExprString(node), base)
		}
		perKey[base]++
		key := base
		if perKey[base] > 1 {
			key = fmt.Sprintf("%s#%d", base, perKey[base])
		}
		present[key] = true
		recs = append(recs, siteRec{s, rel, p, node, fd, key})
	}
	// a reviewed entry whose function no longer contains the expression may be claimed once by a site with the
	// identical normalised expression in the same package (the code was moved into / out of a helper)
	exprOf := func(k string) string {
		e := k[strings.Index(k, ":")+1:]
		if i := strings.LastIndex(e, "#"); i > 0 {
			e = e[:i]
		}
		return e
	}
	pkgOf := func(k string) string {
		fn := k[:strings.Index(k, ":")]
		for _, rel := range corePkgs {
			if strings.HasPrefix(fn, rel+".") && !strings.Contains(fn[len(rel)+1:], "/") {
				return rel
			}
		}
		return ""
	}
	claimMoved := func(rel, key string) (string, bceEntry, bool) {
		var cands []string
		for k := range table {
			if !present[k] && !used[k] && pkgOf(k) == rel && exprOf(k) == exprOf(key) {
				cands = append(cands, k)
			}
		}
		sort.Strings(cands)
		if len(cands) == 0 {
			// an entry of a function that no longer exists at all (inlined into several callers and deleted) may be
			// claimed by each of the sites its body was copied to
			for k := range table {
				if !present[k] && pkgOf(k) == rel && exprOf(k) == exprOf(key) {
					fn := k[:strings.Index(k, ":")]
					if strings.HasPrefix(fn, rel+".") && u.ssaFuncExact(rel, fn[len(rel)+1:]) == nil {
						cands = append(cands, k)
					}
				}
			}
			sort.Strings(cands)
		}
		if len(cands) == 0 {
			return "", bceEntry{}, false
		}
		return cands[0], table[cands[0]], true
	}
	for _, rc := range recs {
		s, rel, node, fd, key := rc.s, rc.rel, rc.node, rc.fd, rc.key
		if fileFilter != nil && !fileFilter(s.file) {
			continue
		}
		nSites++
		pos := fmt.Sprintf("%s:%d", s.file, s.line)
		// (V) validator discharge: P[const] dominated by a successful Validate*Params(P, …) guaranteeing the length
		if why := validatorDischarge(u, rel, fd, node); why != "" {
			R.hold(rule, key, pos, "discharged: "+why)
			continue
		}
		if why := guardDischarge(u, rel, fd, node); why != "" {
			R.hold(rule, key, pos, "discharged: "+why)
			continue
		}
		if f := u.ssaFunc(rel, declName(fd)); f != nil {
			var lb token.Pos
			switch x := node.(type) {
			case *ast.IndexExpr:
				lb = x.Lbrack
			case *ast.SliceExpr:
				lb = x.Lbrack
			}
			if why := proveSite(f, lb, node); why != "" {
				if _, listed := table[key]; listed {
					used[key] = true
				}
				R.hold(rule, key, pos, "discharged: "+why)
				nProved++
				continue
			}
		}
		if e, ok := table[key]; ok {
			used[key] = true
			if len(e.Given) > 0 {
				var lb token.Pos
				switch x := node.(type) {
				case *ast.IndexExpr:
					lb = x.Lbrack
				case *ast.SliceExpr:
					lb = x.Lbrack
				}
				why := ""
				if f := u.ssaFunc(rel, declName(fd)); f != nil {
					why = proveSiteGiven(f, lb, node, e.Given)
				}
				if why == "" {
					R.viol(rule, key, pos, "the reviewed argument no longer proves this index: given "+strings.Join(e.Given, ", ")+" (the callers' obligation) the function itself must establish the remaining bound ("+e.Reason+")")
				} else {
					R.hold(rule, key, pos, "reviewed: given "+strings.Join(e.Given, ", ")+" - "+why)
				}
				continue
			}
			if e.Side != "" {
				if msg := bceSideCondition(u, e.Side); msg != "" {
					R.viol(rule, key, pos, "the invariant that justifies this index no longer holds: "+msg)
					continue
				}
			}
			R.hold(rule, key, pos, "reviewed: "+e.Reason)
			continue
		}
		if from, e, ok := claimMoved(rel, key); ok {
			used[from] = true
			if e.Side != "" {
				if msg := bceSideCondition(u, e.Side); msg != "" {
					R.viol(rule, key, pos, "the invariant that justifies this index no longer holds: "+msg)
					continue
				}
			}
			R.hold(rule, key, pos, "reviewed (entry "+from+", whose function no longer contains this expression: moved): "+e.Reason)
			continue
		}
		R.viol(rule, key, pos, "index/slice expression whose bounds the compiler cannot prove and that is neither covered by a parameter validator nor in the reviewed table (possible Go runtime panic: index out of range)")
	}
	R.count("unproven_bounds_checks", nSites)
	R.count("bounds_proved_by_own_prover", nProved)
	for k := range table {
		if !used[k] && fileFilter == nil {
			R.note("table entry %q matches no unproven bounds check any more (stale)", k)
		}
	}
}

func validatorDischarge(u *Universe, rel string, fd *ast.FuncDecl, node ast.Expr) string {
	ix, ok := node.(*ast.IndexExpr)
	if !ok {
		return ""
	}
	f := u.ssaFunc(rel, declName(fd))
	if f == nil {
		return ""
	}
	// the SSA IndexAddr at this position (search closures too)
	var fns []*ssa.Function
	var add func(fn *ssa.Function)
	add = func(fn *ssa.Function) {
		fns = append(fns, fn)
		for _, a := range fn.AnonFuncs {
			add(a)
		}
	}
	add(f)
	for _, fn := range fns {
		vals := validationsOf(u, fn)
		for _, in := range instrsOf(fn) {
			ia, ok := in.(*ssa.IndexAddr)
			if !ok || ia.Pos() != ix.Lbrack {
				continue
			}
			k, ok := ia.Index.(*ssa.Const)
			if !ok {
				continue
			}
			for _, v := range vals {
				if sameSlice(v.slice, ia.X) && v.covers(ia.Block()) && int(k.Int64()) < v.guaranteedLen() {
					return fmt.Sprintf("%s guarantees at least %d parameters", shortName(u.callName(v.call)), v.guaranteedLen())
				}
			}
		}
	}
	return ""
}

// guardDischarge: (G) the index is tested against both bounds of the same slice on dominating edges
// (i < 0 false, i >= len(S) false), or (G-eq) a constant index under a dominating len(S) == k with k > index
func guardDischarge(u *Universe, rel string, fd *ast.FuncDecl, node ast.Expr) string {
	ix, ok := node.(*ast.IndexExpr)
	if !ok {
		return ""
	}
	f := u.ssaFunc(rel, declName(fd))
	if f == nil {
		return ""
	}
	var fns []*ssa.Function
	var add func(fn *ssa.Function)
	add = func(fn *ssa.Function) {
		fns = append(fns, fn)
		for _, a := range fn.AnonFuncs {
			add(a)
		}
	}
	add(f)
	isLenOf := func(v ssa.Value, s ssa.Value) bool {
		return flowsFrom(v, func(x ssa.Value) bool {
			call, ok := x.(*ssa.Call)
			if !ok {
				return false
			}
			bi, ok := call.Call.Value.(*ssa.Builtin)
			return ok && bi.Name() == "len" && sameSlice(call.Call.Args[0], s)
		})
	}
	for _, fn := range fns {
		for _, in := range instrsOf(fn) {
			ia, ok := in.(*ssa.IndexAddr)
			if !ok || ia.Pos() != ix.Lbrack {
				continue
			}
			lo, hi := false, false
			for _, b := range fn.Blocks {
				ifi, ok := b.Instrs[len(b.Instrs)-1].(*ssa.If)
				if !ok {
					continue
				}
				bo, ok := ifi.Cond.(*ssa.BinOp)
				if !ok {
					continue
				}
				falseDom := edgeDominates(b, b.Succs[1], ia.Block()) || b.Succs[1].Dominates(ia.Block())
				trueDom := edgeDominates(b, b.Succs[0], ia.Block()) || b.Succs[0].Dominates(ia.Block())
				if bo.X == ia.Index && bo.Op == token.LSS && isZeroConst(bo.Y) && falseDom {
					lo = true
				}
				if bo.X == ia.Index && bo.Op == token.GEQ && isLenOf(bo.Y, ia.X) && falseDom {
					hi = true
				}
				if bo.X == ia.Index && bo.Op == token.LSS && isLenOf(bo.Y, ia.X) && trueDom {
					hi = true
				}
				if k, isK := ia.Index.(*ssa.Const); isK && bo.Op == token.EQL && trueDom {
					if n, isN := bo.Y.(*ssa.Const); isN && isLenOf(bo.X, ia.X) && n.Int64() > k.Int64() {
						return fmt.Sprintf("constant index %d under len == %d", k.Int64(), n.Int64())
					}
				}
			}
			if lo && hi {
				return "index tested against 0 and len() of the same slice on dominating edges"
			}
		}
	}
	return ""
}

// bceSideCondition checks a machine-checkable invariant named in the table; "" = holds
func bceSideCondition(u *Universe, name string) string {
	switch name {
	case "parallel-width-tables":
		fd, p := u.funcDecl("pkg/exec", "calcCursorOffset")
		if fd == nil {
			return "calcCursorOffset not found"
		}
		// the two parallel tables are the (large) integer list literals of the function, whatever they are called
		var lens []int
		ast.Inspect(fd, func(n ast.Node) bool {
			if cl, ok := n.(*ast.CompositeLit); ok {
				if _, isSlice := p.TypesInfo.TypeOf(cl).Underlying().(*types.Slice); isSlice && len(cl.Elts) > 4 {
					lens = append(lens, len(cl.Elts))
				}
			}
			return true
		})
		if len(lens) != 2 {
			return "width tables not found"
		}
		if lens[0] != lens[1] {
			return "the range-border table and the width table have different lengths"
		}
		return ""
	case "binary-search-midpoint-updates":
		f := u.ssaFunc("pkg/syntax", "IdInRange")
		if f == nil {
			return "IdInRange not found"
		}
		// the midpoint: (e+s)/2 ; bounds s,e are phis whose loop-carried values are exactly the midpoint
		// the midpoint: (lo+hi)/2, or its overflow-free spelling lo + (hi-lo)/2
		var mid ssa.Value
		for _, in := range instrsOf(f) {
			if bo, ok := in.(*ssa.BinOp); ok && bo.Op == token.QUO {
				if k, ok := bo.Y.(*ssa.Const); ok && k.Int64() == 2 {
					mid = bo
					if sub, isSub := bo.X.(*ssa.BinOp); isSub && sub.Op == token.SUB {
						for _, in2 := range instrsOf(f) {
							if add, isAdd := in2.(*ssa.BinOp); isAdd && add.Op == token.ADD &&
								((add.X == sub.Y && add.Y == ssa.Value(bo)) || (add.Y == sub.Y && add.X == ssa.Value(bo))) {
								mid = add
							}
						}
					}
				}
			}
		}
		if mid == nil {
			return "midpoint (lo+hi)/2 not found"
		}
		for _, in := range instrsOf(f) {
			phi, ok := in.(*ssa.Phi)
			if !ok || phi == mid {
				continue
			}
			if b, ok := phi.Type().Underlying().(*types.Basic); !ok || b.Info()&types.IsInteger == 0 {
				continue
			}
			for _, e := range phi.Edges {
				switch x := e.(type) {
				case *ssa.Const:
				case *ssa.Call: // len(idRange)
				case *ssa.Phi:
				default:
					if x != mid {
						return "a search bound is updated to something other than the midpoint (the invariant lo <= mid < hi <= len no longer follows)"
					}
				}
			}
		}
		return ""
	case "lexer-cursor-clamped":
		return lexerCursorClamped(u)
	case "branch-parallel-appends":
		f := u.ssaFunc("pkg/syntax/zh", "ParseBranchStmt")
		if f == nil {
			return "ParseBranchStmt not found"
		}
		blocks := map[*ssa.BasicBlock]map[string]bool{}
		for _, in := range instrsOf(f) {
			if st, ok := in.(*ssa.Store); ok {
				if fa, ok := st.Addr.(*ssa.FieldAddr); ok {
					n := fieldAddrName(fa)
					if n == "BranchStmt.OtherExprs" || n == "BranchStmt.OtherBlocks" {
						if blocks[in.Block()] == nil {
							blocks[in.Block()] = map[string]bool{}
						}
						blocks[in.Block()][n] = true
					}
				}
			}
		}
		if len(blocks) == 0 {
			return "appends to OtherExprs / OtherBlocks not found"
		}
		for _, m := range blocks {
			if len(m) != 2 {
				return "OtherExprs and OtherBlocks are not appended together (their lengths can differ)"
			}
		}
		return ""
	case "least-type-strings-wordy":
		re := regexp.MustCompile(`\w`)
		for _, rel := range corePkgs {
			for _, f := range u.srcFuncs(rel) {
				for _, call := range u.callsNamed(f, "pkg/value.ValidateLeastParams") {
					ts, ok := variadicStrings(call.Common().Args[1])
					if !ok {
						return "a ValidateLeastParams call passes non-constant type strings in " + u.fname(f)
					}
					for _, t := range ts {
						if !re.MatchString(t) {
							return "type string without a word character passed to ValidateLeastParams in " + u.fname(f)
						}
					}
				}
			}
		}
		return ""
	case "insert-index-clamped":
		f := u.ssaFunc("pkg/value", "insertArrayValue")
		if f == nil {
			return "insertArrayValue not found"
		}
		// the slicing index is a phi that receives the constant 0 on the `< 0` edge, and the function
		// returns early when idx >= len(target)
		early, clamp := false, false
		for _, b := range f.Blocks {
			ifi, ok := b.Instrs[len(b.Instrs)-1].(*ssa.If)
			if !ok {
				continue
			}
			bo, ok := ifi.Cond.(*ssa.BinOp)
			if !ok {
				continue
			}
			if bo.Op == token.GEQ && bo.X == ssa.Value(f.Params[1]) {
				if _, isRet := b.Succs[0].Instrs[len(b.Succs[0].Instrs)-1].(*ssa.Return); isRet {
					early = true
				}
			}
			if bo.Op == token.LSS && isZeroConst(bo.Y) {
				if _, isParam := bo.X.(*ssa.Parameter); !isParam {
					// second test on the normalised value: its true edge must feed constant 0
					for _, in := range instrsOf(f) {
						if phi, ok := in.(*ssa.Phi); ok {
							for i, e := range phi.Edges {
								if isZeroConst(e) && (phi.Block().Preds[i] == b.Succs[0] || phi.Block().Preds[i] == b) {
									clamp = true
								}
							}
						}
					}
				}
			}
		}
		if !early {
			return "no early return for idx >= len(target)"
		}
		if !clamp {
			return "a still-negative position after normalisation is not clamped to 0"
		}
		return ""
	case "strslice-upper-guard":
		f := u.ssaFunc("pkg/value", "strExecSlice")
		if f == nil {
			return "strExecSlice not found"
		}
		var sl *ssa.Slice
		for _, in := range instrsOf(f) {
			if s, ok := in.(*ssa.Slice); ok && s.Low != nil && s.High != nil {
				sl = s
			}
		}
		if sl == nil {
			return "slice expression not found"
		}
		okHi, okLo, okOrder := false, false, false
		for _, b := range f.Blocks {
			ifi, ok := b.Instrs[len(b.Instrs)-1].(*ssa.If)
			if !ok {
				continue
			}
			bo, ok := ifi.Cond.(*ssa.BinOp)
			if !ok {
				continue
			}
			leaves := func() bool {
				return reachableAvoiding(b.Succs[0], 0, func(x ssa.Instruction) bool { return x == ssa.Instruction(sl) }, nil) == nil
			}
			if bo.Op == token.GTR {
				if call, ok := bo.Y.(*ssa.Call); ok {
					if bi, ok := call.Call.Value.(*ssa.Builtin); ok && bi.Name() == "len" && sameSlice(call.Call.Args[0], sl.X) && leaves() {
						okHi = true
					}
				}
				if _, isC := bo.Y.(*ssa.Const); !isC && leaves() && !okOrder {
					if _, isCall := bo.Y.(*ssa.Call); !isCall {
						okOrder = true // startIdx > endIdx -> returns the empty text
					}
				}
			}
			if bo.Op == token.LSS {
				if k, ok := bo.Y.(*ssa.Const); ok && k.Int64() == 1 && leaves() {
					okLo = true
				}
			}
		}
		switch {
		case !okHi:
			return "the end position is not compared with len() of the character slice that is sliced"
		case !okLo:
			return "the start position is not tested to be >= 1"
		case !okOrder:
			return "start > end is not handled before slicing"
		}
		return ""
	}
	return "unknown side condition " + name
}

// lexerCursorClamped: the only increments of Lexer.cursor are guarded by cursor < len(Source)
func lexerCursorClamped(u *Universe) string {
	for _, f := range u.srcFuncs("pkg/syntax") {
		for _, in := range instrsOf(f) {
			st, ok := in.(*ssa.Store)
			if !ok {
				continue
			}
			fa, ok := st.Addr.(*ssa.FieldAddr)
			if !ok || fieldAddrName(fa) != "Lexer.cursor" {
				continue
			}
			switch u.fname(f) {
			case "pkg/syntax.Lexer.SetCursor", "pkg/syntax.NewLexer":
				continue
			}
			// increment: must be dominated by the true edge of cursor < len(Source)
			guarded := false
			for _, b := range f.Blocks {
				ifi, ok := b.Instrs[len(b.Instrs)-1].(*ssa.If)
				if !ok {
					continue
				}
				bo, ok := ifi.Cond.(*ssa.BinOp)
				if !ok || bo.Op != token.LSS {
					continue
				}
				if _, isCur := fieldLoad(bo.X, "cursor"); !isCur {
					continue
				}
				if call, ok := bo.Y.(*ssa.Call); ok {
					if bi, ok := call.Call.Value.(*ssa.Builtin); ok && bi.Name() == "len" && containerField(call.Call.Args[0]) == "Lexer.Source" && edgeDominates(b, b.Succs[0], st.Block()) {
						guarded = true
					}
				}
			}
			if !guarded {
				return "Lexer.cursor is advanced in " + u.fname(f) + " without the cursor < len(Source) guard (error positions can leave the text)"
			}
		}
	}
	return ""
}

// ---------- unchecked type assertions

type assertAllow struct {
	Reason string `json:"reason"`
}

func ruleAsserts(c *Ctx, u *Universe, rule string, rels []string, allowFile string) {
	R := c.R
	var allow map[string]assertAllow
	if !loadTable(c, allowFile, &allow) {
		return
	}
	n := 0
	for _, rel := range rels {
		for _, f := range u.srcFuncs(rel) {
			if f.Signature.TypeParams() != nil && f.Signature.TypeParams().Len() > 0 {
				continue
			}
			if len(f.TypeArgs()) > 0 {
				continue
			}
			vals := validationsOf(u, f)
			perType := map[string]int{}
			for _, in := range instrsOf(f) {
				ta, ok := in.(*ssa.TypeAssert)
				if !ok {
					continue
				}
				unchecked := !ta.CommaOk
				if ta.CommaOk {
					// v, _ := x.(T): ok never looked at
					okUsed := false
					for _, r := range *ta.Referrers() {
						if ex, isEx := r.(*ssa.Extract); isEx && ex.Index == 1 && len(*ex.Referrers()) > 0 {
							okUsed = true
						}
					}
					unchecked = !okUsed
				}
				if !unchecked {
					continue
				}
				n++
				tname := typeShort(ta.AssertedType)
				perType[tname]++
				key := fmt.Sprintf("%s:.(%s)#%d", u.fname(f), tname, perType[tname])
				// justified by a validator?
				why := ""
				if un, isUn := ta.X.(*ssa.UnOp); isUn && un.Op == token.MUL {
					if ia, isIA := un.X.(*ssa.IndexAddr); isIA {
						for _, v := range vals {
							if !sameSlice(v.slice, ia.X) || !v.covers(ta.Block()) {
								continue
							}
							want := ""
							if k, isK := ia.Index.(*ssa.Const); isK {
								if v.kind == "all" || int(k.Int64()) < len(v.types) {
									want = v.typeAt(int(k.Int64()))
								}
							} else if t, all := v.allElements(); all {
								want = t
							}
							if g, known := validatorTypes[want]; known && namedTypeIs(ta.AssertedType, "pkg/value", g) {
								why = shortName(u.callName(v.call)) + ` validated this parameter as "` + want + `"`
							}
						}
					}
				}
				if why != "" {
					R.hold(rule, key, u.pos(ta.Pos()), why)
					continue
				}
				if a, ok := allow[key]; ok {
					R.hold(rule, key, u.pos(ta.Pos()), "allowed: "+a.Reason)
					continue
				}
				R.viol(rule, key, u.pos(ta.Pos()), "type assertion without a test: a value of another type makes the Go runtime panic (interface conversion) instead of producing a Zn error")
			}
		}
	}
	R.count("unchecked_assertions", n)
}

// ---------- (nil, nil) returns

func ruleNilNil(c *Ctx, u *Universe, rule string, rels []string) {
	R := c.R
	n := 0
	for _, rel := range rels {
		for _, f := range u.srcFuncs(rel) {
			res := f.Signature.Results()
			if res.Len() != 2 || !isErrorType(res.At(1).Type()) {
				continue
			}
			if _, isIface := res.At(0).Type().Underlying().(*types.Interface); !isIface || !isElementIface(res.At(0).Type()) {
				continue
			}
			n++
			bad := ""
			for _, b := range f.Blocks {
				ret, ok := b.Instrs[len(b.Instrs)-1].(*ssa.Return)
				if !ok {
					continue
				}
				if isNilConst(retValue(ret, 0)) && isNilConst(retValue(ret, 1)) {
					bad = u.pos(ret.Pos())
				}
				// a result variable that can still hold its zero value (nil) when the function returns normally
				if rv := retValue(ret, 0); !isNilConst(rv) && ret.Pos().IsValid() && ret.Block() != f.Recover && normalReturn(f, ret, nilTests(f)) {
					ev := retValue(ret, 1)
					evPhi, evIsPhi := ev.(*ssa.Phi)
					rvPhi, rvIsPhi := rv.(*ssa.Phi)
					switch {
					case rvIsPhi && evIsPhi && rvPhi.Block() == evPhi.Block():
						// value and error are joined at the same point (named results, single exit): a nil value is a defect
						// only on an edge where the error is not known to be set either
						for i := range rvPhi.Edges {
							if i >= len(evPhi.Edges) {
								break
							}
							valNil := false
							for _, src := range allSources(rvPhi.Edges[i]) {
								if isNilConst(src) {
									valNil = true
								}
							}
							errNil := false
							for _, src := range allSources(evPhi.Edges[i]) {
								if isNilConst(src) {
									errNil = true
								}
							}
							if valNil && errNil {
								bad = u.pos(ret.Pos()) + " (the result variable can still be nil there: no value was assigned on some path)"
							}
						}
					case isNilConst(ev) || !evIsPhi:
						for _, src := range allSources(rv) {
							if isNilConst(src) {
								bad = u.pos(ret.Pos()) + " (the result variable can still be nil there: no value was assigned on some path)"
							}
						}
					}
				}
				// a slot getter that answers nil when nothing was stored (return slot, receiver) is not handed on as a
				// value unless a nil test stands in between
				if ev := retValue(ret, 1); isNilConst(ev) || !provablyNonNilError(ev) {
					if maybeNilSlot(u, f, retValue(ret, 0), bpoint{b: b}, 0) && normalReturn(f, ret, nilTests(f)) {
						bad = u.pos(ret.Pos()) + " (the possibly-empty slot read by a Get…Value call is returned as the value)"
					}
				}
			}
			R.check(bad == "", rule, u.fname(f), u.pos(f.Pos()), "never returns (nil, nil)", "returns a nil element together with a nil error at "+bad+": the caller dereferences the nil element (String(), GetProperty …) and the process crashes")
		}
	}
	R.count("element_returning_functions", n)
}

func checkC10(c *Ctx) {
	R := c.R
	R.Explain = "Decided: (C10.index) the Go compiler's own prove pass enumerates every index/slice expression of the analysed packages whose bounds check it cannot eliminate (build with -gcflags='-l -d=ssa/check_bce/debug=1'); each is discharged by a " +
		"dominating parameter validator that guarantees the length, or must be in the reviewed table with its invariant (some invariants are machine-checked side conditions) - a new or changed unprovable index fails; " +
		"(C10.assert) every type assertion without a test (v.(T), or v,_ := x.(T)) on the execution path is justified by a dominating Validate*Params call fixing that parameter's type, or is in the allow table with a reason; " +
		"(C10.nilret) no function returning (runtime.Element, error) - built-ins, library functions, GetProperty/ExecMethod/Construct, evaluator functions - returns (nil, nil); " +
		"(C10.nilrecv) results of VM.getCurrentScope()/getCurrentCallFrame() are used only under a nil test and getCurrentCallFrame guards the empty stack; " +
		"(C10.exit) no os.Exit / log.Fatal / panic is reachable from Interpreter.Execute or ExecVarInputText except the parser's error-typed panics recovered by Parser.Parse (VTA call graph). " +
		"C10.index sites are first tried with the own symbolic bounds prover (bounds.go: dominating comparisons, monotone loop phis, len equalities, helper summaries) and only then looked up in the reviewed table (keys name the function and the expression with locals replaced by their types; a moved expression may claim a stale entry once). C10.exit accepts panics only below a function that defers a recover handler storing the recovered error (must-pass-through on the call graph). (C10.dictsync = C12.sync, C10.tmpl = C14.tmpl) invariants the reviewed index sites rest on. (C10.nilfield) nil-able pointer fields are dereferenced only behind a nil test; C10.nilret also rejects returning the possibly-empty return slot / receiver slot as a value. NOT decided: stack exhaustion by deep recursion, memory exhaustion, results of float->int conversions, stdlib/http (does not compile at the pinned commit). (C10.nilresult) the pointer a module function returns together with an error is not dereferenced when the error was discarded."
	R.Assumptions = []string{"the compiler's prove pass is sound (a bounds check it removes cannot fail)", "tables/bce.json and tables/assert_allow.json were reviewed entry by entry (one reason each)", "VTA call graph over-approximates dynamic calls through FuncExecutor values"}
	u := c.Core()
	u.buildSSA()
	scope := []string{"pkg/common", "pkg/exec", "pkg/io", "pkg/runtime", "pkg/value", "stdlib/file", "stdlib/json", "pkg/syntax", "pkg/syntax/zh"}
	// the front end's index sites belong to C05; C10 takes the execution path
	ruleBCE(c, u, "C10.index", corePkgs, func(file string) bool {
		return !strings.HasPrefix(file, "pkg/syntax/") && !strings.HasSuffix(file, "error_printer.go")
	})
	R.min("C10.index", 50)
	ruleAsserts(c, u, "C10.assert", []string{"pkg/common", "pkg/exec", "pkg/runtime", "pkg/value", "stdlib/file", "stdlib/json"}, "assert_allow.json")
	R.min("C10.assert", 30)
	ruleNilNil(c, u, "C10.nilret", []string{"pkg/common", "pkg/exec", "pkg/runtime", "pkg/value", "stdlib/file", "stdlib/json"})
	R.min("C10.nilret", 60)
	_ = scope

	// structural invariants other rules' index arguments rest on: keyOrder lists exactly the keys of the map (a
	// key listed without a value is a nil Element: nil dereference while displaying), and the template scanner
	// leaves complete [kind,start,end) triples (the fill loop indexes fmtStack[i+1], [i+2] and the argument list)
	borrowRule(c, "C12", "C12.sync", "C10.dictsync")
	// a copy never shares its key list with the original (a key listed without a value is a nil element)
	borrowRule(c, "C07", "C07.adopt", "C10.adopt")
	borrowRule(c, "C14", "C14.tmpl", "C10.tmpl")

	// ---- C10.nilfield: nil-able pointer fields are dereferenced only behind a nil test
	ruleNilFields(c, u, "C10.nilfield", func(file string) bool { return !strings.HasPrefix(file, "pkg/syntax/") })

	// ---- C10.cycles: objects are shared by reference, so object graphs can be cyclic (甲之邻 = 乙; 乙之邻 = 甲): displaying
	// an object must not recurse into its properties (unbounded recursion ends in a fatal stack overflow)
	if g := u.ssaFunc("pkg/value", "Object.String"); g != nil {
		bad := ""
		for _, in := range instrsOf(g) {
			call, isCall := in.(*ssa.Call)
			if !isCall || !call.Call.IsInvoke() || call.Call.Method.Name() != "String" {
				continue
			}
			if flowsFromDeep(call.Call.Value, func(v ssa.Value) bool { return containerFieldOf(v) == "Object.propList" }) {
				bad = u.pos(call.Pos())
			}
		}
		R.check(bad == "", "C10.cycles", "pkg/value.Object.String", u.pos(g.Pos()), "the display of an object does not descend into its property values", "Object.String() calls String() on the object's property values ("+bad+"): two objects referring to each other recurse without bound and the process dies with a fatal stack overflow that no recover can catch")
	}

	// ---- C10.nilresult: the value a module function returns together with an error is not used when the error was
	// thrown away: `v, _ := f(); v.M()` crashes on the nil v of f's error exits
	nNR := 0
	for _, rel := range []string{"pkg/common", "pkg/exec", "pkg/runtime", "pkg/value", "stdlib/file", "stdlib/json"} {
		for _, f := range u.srcFuncs(rel) {
			for _, in := range instrsOf(f) {
				call, ok := in.(*ssa.Call)
				if !ok {
					continue
				}
				callee := call.Call.StaticCallee()
				if callee == nil || callee.Blocks == nil || callee.Pkg == nil || !strings.HasPrefix(callee.Pkg.Pkg.Path(), modPath) {
					continue
				}
				res := callee.Signature.Results()
				if res.Len() != 2 || !isErrorType(res.At(1).Type()) {
					continue
				}
				if _, isPtr := res.At(0).Type().Underlying().(*types.Pointer); !isPtr {
					continue
				}
				var val, errX *ssa.Extract
				for _, r := range *call.Referrers() {
					if ex, isEx := r.(*ssa.Extract); isEx {
						if ex.Index == 0 {
							val = ex
						} else {
							errX = ex
						}
					}
				}
				if val == nil || (errX != nil && len(*errX.Referrers()) > 0) {
					continue
				}
				// the callee answers nil on some exit
				nilExit := false
				for _, b := range callee.Blocks {
					if ret, isRet := b.Instrs[len(b.Instrs)-1].(*ssa.Return); isRet && len(ret.Results) == 2 {
						for _, src := range allSources(retValue(ret, 0)) {
							if isNilConst(src) {
								nilExit = true
							}
						}
					}
				}
				if !nilExit {
					continue
				}
				derefs := false
				for _, r := range *val.Referrers() {
					switch x := r.(type) {
					case *ssa.FieldAddr:
						derefs = derefs || x.X == ssa.Value(val)
					case *ssa.UnOp:
						derefs = derefs || (x.Op == token.MUL && x.X == ssa.Value(val))
					case ssa.CallInstruction:
						if len(x.Common().Args) > 0 && x.Common().Args[0] == ssa.Value(val) && x.Common().StaticCallee() != nil && x.Common().StaticCallee().Signature.Recv() != nil {
							derefs = true
						}
					}
				}
				nNR++
				R.check(!derefs, "C10.nilresult", u.fname(f)+":"+siteName(u, f, call), u.pos(call.Pos()), "the value is not dereferenced", "the error of this call is thrown away and the returned pointer is used at once: on the callee's error exits it is nil and the process crashes with a nil pointer dereference")
			}
		}
	}
	R.count("discarded_error_with_pointer_result", nNR)

	// ---- C10.nilrecv
	for _, getter := range []string{"pkg/runtime.VM.getCurrentScope", "pkg/runtime.VM.getCurrentCallFrame"} {
		for _, f := range u.srcFuncs("pkg/runtime") {
			for _, call := range u.callsNamed(f, getter) {
				v := call.Value()
				if v == nil {
					continue
				}
				key := u.fname(f) + ":" + siteName(u, f, call)
				bad := ""
				tests := nilTests(f)
				for _, r := range *v.Referrers() {
					var useBlock *ssa.BasicBlock
					switch x := r.(type) {
					case *ssa.Call:
						if len(x.Call.Args) > 0 && x.Call.Args[0] == v && !x.Call.IsInvoke() {
							// nil-safe methods test their receiver themselves
							if sc := x.Call.StaticCallee(); sc != nil && nilSafeMethod(sc) {
								continue
							}
							useBlock = x.Block()
						}
					case *ssa.FieldAddr:
						useBlock = x.Block()
					case *ssa.Defer:
						if sc := x.Call.StaticCallee(); sc != nil && nilSafeMethod(sc) {
							continue
						}
						useBlock = x.Block()
					}
					if useBlock == nil {
						continue
					}
					guarded := false
					for _, t := range tests {
						if t.X == v && (edgeDominates(t.If.Block(), t.NotNil, useBlock) || t.NotNil.Dominates(useBlock)) {
							guarded = true
						}
					}
					// or the test sits in a guard helper that received the value
					if !guarded && establishedAt(u, f, useBlock, v, notNilPred, 2) {
						guarded = true
					}
					if !guarded {
						bad = u.pos(r.Pos())
					}
				}
				R.check(bad == "", "C10.nilrecv", key, u.pos(call.Pos()), "result is dereferenced only under a nil test", "the possibly-nil result is dereferenced without a nil test at "+bad+" (no call frame / scope exists e.g. while evaluating input-variable text)")
			}
		}
	}
	if f := u.ssaFunc("pkg/runtime", "VM.getCurrentCallFrame"); f != nil {
		ok := false
		for _, in := range instrsOf(f) {
			ia, isIA := in.(*ssa.IndexAddr)
			if !isIA {
				continue
			}
			for _, b := range f.Blocks {
				if ifi, isIf := b.Instrs[len(b.Instrs)-1].(*ssa.If); isIf {
					if bo, isB := ifi.Cond.(*ssa.BinOp); isB && (bo.Op == token.EQL || bo.Op == token.LEQ) && isZeroConst(bo.Y) {
						if _, isC := fieldLoad(bo.X, "csCount"); isC && edgeDominates(b, b.Succs[1], ia.Block()) {
							ok = true
						}
					}
				}
			}
		}
		R.check(ok, "C10.nilrecv", "pkg/runtime.VM.getCurrentCallFrame:empty-stack", u.pos(f.Pos()), "an empty call stack yields nil instead of indexing callStack[-1]", "callStack[csCount-1] is indexed without the csCount == 0 guard")
	}
	R.min("C10.nilrecv", 8)

	// ---- C10.exit
	cg := u.callGraph()
	roots := []*ssa.Function{u.ssaFunc("pkg/exec", "Interpreter.Execute"), u.ssaFunc("pkg/exec", "ExecVarInputText"), u.ssaFunc("pkg/exec", "ExecExpressionInputText")}
	isRecoverCall := func(v ssa.Value) bool {
		call, ok := v.(*ssa.Call)
		if !ok {
			return false
		}
		bi, ok := call.Call.Value.(*ssa.Builtin)
		return ok && bi.Name() == "recover"
	}
	// a recover handler: calls recover(), asserts the recovered value to error and stores it (into the
	// named result of the deferring function, through a captured variable or a pointer parameter)
	isHandler := func(fn *ssa.Function) bool {
		if fn == nil || fn.Blocks == nil {
			return false
		}
		stores := false
		for _, in := range instrsOf(fn) {
			st, ok := in.(*ssa.Store)
			if !ok || !isErrorType(st.Val.Type()) {
				continue
			}
			if flowsFrom(st.Val, func(v ssa.Value) bool {
				ta, ok := v.(*ssa.TypeAssert)
				return ok && isErrorType(ta.AssertedType) && flowsFrom(ta.X, isRecoverCall)
			}) {
				stores = true
			}
		}
		return stores
	}
	// boundary: a function that defers a recover handler - panics raised below it come back as errors
	boundary := map[*ssa.Function]bool{}
	for _, rel := range corePkgs {
		for _, fn := range u.srcFuncs(rel) {
			for _, in := range instrsOf(fn) {
				d, ok := in.(*ssa.Defer)
				if !ok {
					continue
				}
				callee := d.Call.StaticCallee()
				if mc, isMC := d.Call.Value.(*ssa.MakeClosure); isMC {
					callee, _ = mc.Fn.(*ssa.Function)
				}
				if isHandler(callee) {
					boundary[fn] = true
				}
			}
		}
	}
	walk := func(stopAtBoundary bool) map[*ssa.Function]bool {
		reach := map[*ssa.Function]bool{}
		var stack []*ssa.Function
		for _, r := range roots {
			if r != nil {
				stack = append(stack, r)
			}
		}
		for len(stack) > 0 {
			fn := stack[len(stack)-1]
			stack = stack[:len(stack)-1]
			if reach[fn] {
				continue
			}
			reach[fn] = true
			if stopAtBoundary && boundary[fn] {
				continue
			}
			if n := cg.Nodes[fn]; n != nil {
				for _, e := range n.Out {
					if e.Callee.Func.Pkg != nil && strings.HasPrefix(e.Callee.Func.Pkg.Pkg.Path(), modPath) {
						stack = append(stack, e.Callee.Func)
					}
				}
			}
			for _, a := range fn.AnonFuncs {
				stack = append(stack, a)
			}
		}
		return reach
	}
	reach := walk(false)
	unprotected := walk(true) // reachable without passing below a recover boundary
	R.check(len(boundary) > 0, "C10.exit", "recover-boundary", "", fmt.Sprintf("%d function(s) defer a recover handler that turns a panicked error into a returned error", len(boundary)), "no function defers a recover handler: every parser panic crashes the process")
	nReach, nExit := 0, 0
	for fn := range reach {
		if fn.Blocks == nil {
			continue
		}
		nReach++
		for _, in := range instrsOf(fn) {
			switch x := in.(type) {
			case *ssa.Panic:
				nExit++
				key := u.fname(fn) + ":panic"
				inner := strip(x.X)
				switch {
				case flowsFrom(inner, isRecoverCall):
					// the recover handler re-panics only recovered values that are not errors; every panic below
					// the boundary carries an error (checked here) and Go runtime errors are errors: it cannot fire
					R.hold("C10.exit", key+"@"+u.pos(x.Pos()), u.pos(x.Pos()), "re-panic of a recovered value that is not an error (no panic below the recover boundary carries a non-error)")
				case !unprotected[fn]:
					okT := types.Implements(inner.Type(), errorIface()) || isErrorType(inner.Type())
					R.check(okT, "C10.exit", key+"@"+u.pos(x.Pos()), u.pos(x.Pos()), "panic carries an error and every call path from program execution passes a function deferring a recover handler", "a panic below the recover boundary carries a non-error value: the handler re-panics it and the process crashes")
				default:
					R.viol("C10.exit", key+"@"+u.pos(x.Pos()), u.pos(x.Pos()), "panic on the execution path (no function deferring a recover handler lies on every call path to it)")
				}
			case *ssa.Call:
				n := u.callName(x)
				if n == "os.Exit" || strings.HasPrefix(n, "log.Fatal") || strings.HasPrefix(n, "log.Panic") {
					nExit++
					R.viol("C10.exit", u.fname(fn)+":"+n, u.pos(x.Pos()), "process exit reachable from program execution")
				}
			}
		}
	}
	if nExit == 0 {
		R.viol("C10.exit", "inventory", "", "no panic site found at all (parser panics expected): reachability computation is broken")
	}
	R.count("functions_reachable_from_execute", nReach)
	R.min("C10.exit", 20)
}

func errorIface() *types.Interface {
	return types.Universe.Lookup("error").Type().Underlying().(*types.Interface)
}

// nilSafeMethod: the method starts with `if recv == nil { return … }`
func nilSafeMethod(f *ssa.Function) bool {
	if f.Blocks == nil || len(f.Params) == 0 {
		return false
	}
	b := f.Blocks[0]
	ifi, ok := b.Instrs[len(b.Instrs)-1].(*ssa.If)
	if !ok {
		return false
	}
	bo, ok := ifi.Cond.(*ssa.BinOp)
	if !ok || bo.Op != token.EQL || bo.X != ssa.Value(f.Params[0]) || !isNilConst(bo.Y) {
		return false
	}
	// nothing dereferences the receiver before the test
	for _, in := range b.Instrs {
		if fa, ok := in.(*ssa.FieldAddr); ok && fa.X == ssa.Value(f.Params[0]) {
			return false
		}
	}
	_, isRet := b.Succs[0].Instrs[len(b.Succs[0].Instrs)-1].(*ssa.Return)
	return isRet
}

// normExpr prints e with identifiers of local variables / parameters / receivers replaced by $<type>
func normExpr(info *types.Info, e ast.Expr) string {
	var cp func(e ast.Expr) ast.Expr
	cp = func(e ast.Expr) ast.Expr {
		// constant sub-expressions are printed by value (a literal replaced by a named constant is the same site)
		if tv, ok := info.Types[e]; ok && tv.Value != nil {
			if _, isLit := e.(*ast.BasicLit); !isLit {
				return &ast.BasicLit{Kind: token.INT, Value: tv.Value.ExactString()}
			}
		}
		switch x := e.(type) {
		case *ast.Ident:
			if v, ok := info.Uses[x].(*types.Var); ok && !v.IsField() && v.Parent() != nil && v.Parent() != v.Pkg().Scope() {
				return &ast.Ident{Name: "$" + typeShort(v.Type())}
			}
			return x
		case *ast.SelectorExpr:
			return &ast.SelectorExpr{X: cp(x.X), Sel: &ast.Ident{Name: astFieldName(info, x.Sel)}}
		case *ast.IndexExpr:
			return &ast.IndexExpr{X: cp(x.X), Index: cp(x.Index)}
		case *ast.SliceExpr:
			n := &ast.SliceExpr{X: cp(x.X), Slice3: x.Slice3}
			if x.Low != nil {
				n.Low = cp(x.Low)
			}
			if x.High != nil {
				n.High = cp(x.High)
			}
			if x.Max != nil {
				n.Max = cp(x.Max)
			}
			return n
		case *ast.BinaryExpr:
			return &ast.BinaryExpr{X: cp(x.X), Op: x.Op, Y: cp(x.Y)}
		case *ast.UnaryExpr:
			return &ast.UnaryExpr{Op: x.Op, X: cp(x.X)}
		case *ast.ParenExpr:
			return cp(x.X)
		case *ast.StarExpr:
			return &ast.StarExpr{X: cp(x.X)}
		case *ast.CallExpr:
			n := &ast.CallExpr{Fun: cp(x.Fun)}
			for _, a := range x.Args {
				n.Args = append(n.Args, cp(a))
			}
			return n
		case *ast.TypeAssertExpr:
			return &ast.TypeAssertExpr{X: cp(x.X), Type: x.Type}
		}
		return e
	}
	return types.ExprString(cp(e))
}

// maybeNilSlot: v can be the nil answer of VM.GetReturnValue / VM.GetThisValue at point at (no nil test of that very
// result lies on the way)
func maybeNilSlot(u *Universe, f *ssa.Function, v ssa.Value, at bpoint, depth int) bool {
	if depth > 4 {
		return false
	}
	switch x := v.(type) {
	case *ssa.Call:
		n := u.callName(x)
		if n != "pkg/runtime.VM.GetReturnValue" && n != "pkg/runtime.VM.GetThisValue" {
			return false
		}
		for _, t := range nilTests(f) {
			if t.X != ssa.Value(x) {
				continue
			}
			if edgeDominates(t.If.Block(), t.NotNil, at.b) || (at.via != nil && t.If.Block() == at.b && t.NotNil == at.via) {
				return false
			}
		}
		return true
	case *ssa.Phi:
		for i, e := range x.Edges {
			if maybeNilSlot(u, f, e, bpoint{x.Block().Preds[i], x.Block()}, depth+1) {
				return true
			}
		}
	case *ssa.UnOp:
		// defer-spilled result cell: look at the stores
		if a, ok := x.X.(*ssa.Alloc); ok && x.Op == token.MUL {
			for _, r := range *a.Referrers() {
				if st, ok := r.(*ssa.Store); ok && st.Addr == ssa.Value(a) {
					if maybeNilSlot(u, f, st.Val, bpoint{b: st.Block()}, depth+1) {
						return true
					}
				}
			}
		}
	}
	return false
}
