package main

import (
	"fmt"
	"go/ast"
	"go/constant"
	"go/token"
	"go/types"
	"sort"
	"strings"

	"golang.org/x/tools/go/ssa"
)

func init() { register("C03", checkC03) }

// fields of syntax-tree nodes that the evaluator dereferences without a nil test (reviewed against pkg/exec)
var requiredFields = map[string][]string{
	"BranchStmt":          {"IfTrueExpr", "IfTrueBlock"},
	"WhileLoopStmt":       {"TrueExpr", "LoopBlock"},
	"IterateStmt":         {"IterateExpr", "IterateBlock"},
	"FunctionDeclareStmt": {"Name", "ExecBlock"},
	"ExecBlock":           {"StmtBlock"},
	"CatchBlockPair":      {"ExceptionClass", "StmtBlock"},
	"VarAssignExpr":       {"TargetVar", "AssignExpr"},
	"LogicExpr":           {"LeftExpr", "RightExpr"},
	"ArithExpr":           {"LeftExpr", "RightExpr"},
	"FuncCallExpr":        {"FuncName"},
	"ObjNewExpr":          {"ClassName"},
	"MemberMethodExpr":    {"Root"},
	"FunctionReturnStmt":  {"ReturnExpr"},
	"ThrowExceptionStmt":  {"ExceptionClass"},
	"ClassDeclareStmt":    {"ClassName"},
	"PropertyDeclareStmt": {"PropertyID", "InitValue"},
	"ImportStmt":          {"ImportName"},
}

// consumeSets collects, per function of the zh parser, the token sets passed to tryConsume / consume
type consumeSite struct {
	fn   string
	pos  token.Pos
	set  map[int64]bool
	tkOb types.Object // the token variable bound by `match, tk := p.tryConsume(…)` (nil if none)
	fd   *ast.FuncDecl
}

func collectConsumeSites(u *Universe) []consumeSite {
	p := u.Pkgs["pkg/syntax/zh"]
	info := p.TypesInfo
	var out []consumeSite
	for _, fd := range u.allFuncDecls("pkg/syntax/zh") {
		pe := newPE(u, info, fd)
		ast.Inspect(fd.Body, func(n ast.Node) bool {
			var call *ast.CallExpr
			var tkObj types.Object
			switch x := n.(type) {
			case *ast.AssignStmt:
				if len(x.Rhs) == 1 && len(x.Lhs) == 2 {
					if c, ok := x.Rhs[0].(*ast.CallExpr); ok {
						call = c
						tkObj = identObj(info, x.Lhs[1])
					}
				}
			case *ast.ExprStmt:
				if c, ok := x.X.(*ast.CallExpr); ok {
					call = c
				}
			}
			if call == nil {
				return true
			}
			f := calleeFunc(info, call)
			id := funcID(f)
			if id != "pkg/syntax/zh.ParserZH.tryConsume" && id != "pkg/syntax/zh.ParserZH.consume" {
				return true
			}
			set := map[int64]bool{}
			if call.Ellipsis.IsValid() && len(call.Args) == 1 {
				if list, ok := pe.constList(call.Args[0]); ok {
					for _, v := range list {
						set[v] = true
					}
				}
				if o := identObj(info, call.Args[0]); o != nil {
					ast.Inspect(fd.Body, func(m ast.Node) bool {
						if as, ok := m.(*ast.AssignStmt); ok && len(as.Lhs) == 1 && identObj(info, as.Lhs[0]) == o {
							if c2, ok := as.Rhs[0].(*ast.CallExpr); ok {
								if idn, ok := c2.Fun.(*ast.Ident); ok && idn.Name == "append" {
									for _, a := range c2.Args[1:] {
										if v, ok := constInt(info, a); ok {
											set[v] = true
										}
									}
								}
							}
						}
						return true
					})
				}
			} else {
				for _, a := range call.Args {
					if v, ok := constInt(info, a); ok {
						set[v] = true
					}
				}
			}
			out = append(out, consumeSite{fn: declName(fd), pos: call.Pos(), set: set, tkOb: tkObj, fd: fd})
			return true
		})
	}
	return out
}

func checkC03(c *Ctx) {
	R := c.R
	R.Explain = "Decided: (C03.complete) every syntax-tree node the parser can return has all the parts the evaluator relies on: on every feasible path from the node's allocation to a return of it each required field was assigned a non-nil value " +
		"(path search on SSA with constant propagation through the phase variable); (C03.switch) wherever a token obtained from tryConsume(T1…Tn) is dispatched by a switch on its type, every Ti has a case; " +
		"(C03.kw) every keyword token of the manual's table is consumed somewhere in the grammar; (C03.syn) synonymous spellings are interchangeable: Chinese/ASCII punctuation pairs map to one token type, 之/的 and 设为/= appear together in every consume set; " +
		"(C03.linebreak) the line-continuation exception lists equal the manual's sets ({， 、 { 【 ： ？} before / {】 }} after a line end) and each hashmap entry resets the statement-complete flag like its siblings; " +
		"(C03.indent) block membership is decided only by equality of indentation levels (never by an ordering comparison); (C03.sections) the section state of a program / exec block only moves forward (导入 -> statements; 输入 -> statements -> 拦截) and a body may end only in the statement or catch state. " +
		"(C03.yield) the 得到 suffix has one owner per production: a production (or the production calling a chain helper) that consumes 得到 itself passes parseYieldResult=false to its inner calls; (C03.linebreak) additionally the line-break test compares the following token's start line with the current token's END line. The token's start / end line indices are FindLineIdx of its StartIdx / EndIdx; (C03.ident = C04.ident) where a name ends, including before every token that starts with '/'. NOT decided: equality of the tree with the BNF for all programs and layout-invariance as such (they quantify over all renderings); operator precedence is C01. (C03.spaces) the space predicate accepts exactly the characters of the table of spaces (evaluated for every entry and for probes outside); (C03.prec, C03.assoc = C01.prec, C01.assoc)."
	R.Assumptions = []string{"the required-field table in c03.go lists the fields pkg/exec dereferences without a nil test (reviewed)", "tables/keywords.json"}
	u := c.Core()
	u.buildSSA()
	p := u.Pkgs["pkg/syntax/zh"]
	info := p.TypesInfo
	typeConsts := constsWithPrefix(p, "Type")
	typeName := map[int64]string{}
	for n, v := range typeConsts {
		if _, dup := typeName[v]; !dup || len(n) < len(typeName[v]) {
			typeName[v] = n
		}
	}

	// ---- C03.complete
	nNodes := 0
	for _, f := range u.srcFuncs("pkg/syntax/zh") {
		for _, in := range instrsOf(f) {
			al, ok := in.(*ssa.Alloc)
			if !ok || !al.Heap {
				continue
			}
			st, ok := al.Type().Underlying().(*types.Pointer).Elem().Underlying().(*types.Struct)
			if !ok {
				continue
			}
			tname := recvNamed(al.Type())
			req, ok := requiredFields[tname]
			if !ok {
				continue
			}
			// returns of this node (possibly converted to an interface)
			var rets []*ssa.Return
			for _, b := range f.Blocks {
				if ret, ok := b.Instrs[len(b.Instrs)-1].(*ssa.Return); ok {
					for i := range ret.Results {
						for _, s := range allSources(retValue(ret, i)) {
							if s == ssa.Value(al) {
								rets = append(rets, ret)
							}
						}
					}
				}
			}
			// composite literal stored into a slice (e.g. CatchBlock append) is returned by its own function; others skipped
			if len(rets) == 0 {
				continue
			}
			nNodes++
			for _, field := range req {
				idx := -1
				for i := 0; i < st.NumFields(); i++ {
					if fieldName(st.Field(i)) == field {
						idx = i
					}
				}
				if idx < 0 {
					R.lost("C03.complete", tname+"."+field)
					continue
				}
				isStore := func(x ssa.Instruction) bool {
					s, ok := x.(*ssa.Store)
					if !ok {
						return false
					}
					fa, ok := s.Addr.(*ssa.FieldAddr)
					if !ok || fa.Field != idx || isNilConst(s.Val) {
						return false
					}
					if fa.X == ssa.Value(al) {
						return true
					}
					// the node lives in a captured variable: the field address goes through a load of that cell
					for _, src := range allSources(fa.X) {
						if src == ssa.Value(al) {
							return true
						}
					}
					return false
				}
				key := fmt.Sprintf("%s:%s.%s", u.fname(f), tname, field)
				bad := feasibleReturnAvoiding(al.Block(), instrIndex(al)+1, rets, isStore)
				R.check(bad == nil, "C03.complete", key, u.pos(al.Pos()), "assigned on every feasible path to a return of the node",
					"the parser can return a "+tname+" whose "+field+" was never set (half-built tree; the evaluator dereferences it)")
			}
		}
	}
	R.min("C03.complete", 25)
	R.count("node_allocations_checked", nNodes)

	// ---- C03.switch
	sites := collectConsumeSites(u)
	nSw := 0
	for _, s := range sites {
		if s.tkOb == nil || len(s.set) < 2 {
			continue
		}
		// a switch on tk.Type
		ast.Inspect(s.fd.Body, func(n ast.Node) bool {
			sw, ok := n.(*ast.SwitchStmt)
			if !ok || sw.Tag == nil {
				return true
			}
			sel, ok := ast.Unparen(sw.Tag).(*ast.SelectorExpr)
			if !ok || astFieldName(info, sel.Sel) != "Type" || identObj(info, sel.X) != s.tkOb {
				return true
			}
			nSw++
			cases := map[int64]bool{}
			hasDefault := false
			for _, cc := range sw.Body.List {
				cl := cc.(*ast.CaseClause)
				if cl.List == nil {
					hasDefault = true
				}
				for _, ce := range cl.List {
					if v, ok := constInt(info, ce); ok {
						cases[v] = true
					}
				}
			}
			var missing []string
			for v := range s.set {
				if !cases[v] && !hasDefault {
					missing = append(missing, typeName[v])
				}
			}
			sort.Strings(missing)
			R.check(len(missing) == 0, "C03.switch", fmt.Sprintf("%s:switch#%d", s.fn, nSw), u.pos(sw.Pos()), fmt.Sprintf("all %d accepted token types have a case", len(s.set)),
				"token types accepted by tryConsume but without a case (the construct is consumed and silently dropped / left nil): "+strings.Join(missing, " "))
			return true
		})
	}
	R.min("C03.switch", 7)

	// ---- C03.kw
	var kws []kwRef
	if loadTable(c, "keywords.json", &kws) {
		used := map[int64]bool{}
		for _, s := range sites {
			for v := range s.set {
				used[v] = true
			}
		}
		// tokens only compared (tk.Type == X)
		for _, fd := range u.allFuncDecls("pkg/syntax/zh") {
			if strings.HasPrefix(declName(fd), "parseKeyword") {
				continue
			}
			ast.Inspect(fd.Body, func(n ast.Node) bool {
				if be, ok := n.(*ast.BinaryExpr); ok && (be.Op == token.EQL || be.Op == token.NEQ) {
					if v, ok := constInt(info, be.Y); ok {
						if sel, ok := ast.Unparen(be.X).(*ast.SelectorExpr); ok && astFieldName(info, sel.Sel) == "Type" {
							used[v] = true
						}
					}
				}
				return true
			})
		}
		for _, k := range kws {
			R.check(used[typeConsts[k.Type]], "C03.kw", "keyword "+k.Text, "", "has a production that consumes it", "keyword "+k.Text+" ("+k.Type+") is emitted by the lexer but no production consumes it")
		}
		R.min("C03.kw", 34)
	}

	// the same tree whatever the spacing: where a name ends and the next token begins (rules of C04.ident)
	borrowRule(c, "C04", "C04.ident", "C03.ident")
	// every keyword spelling of the grammar (不等于, 不为, … included) is cut out as its token, else the production is never entered
	borrowRule(c, "C04", "C04.trie", "C03.keywords")
	R.Explain += " (C03.keywords = C04.trie) every keyword spelling of the grammar is cut out as its token."
	// operator precedence and associativity are clauses of this property too (decided by C01's rules)
	borrowRule(c, "C01", "C01.prec", "C03.prec")
	borrowRule(c, "C01", "C01.assoc", "C03.assoc")

	// ---- C03.lineends: LF, CR and CRLF are the same line end: wherever a scanner of the front end compares a character
	// with LF it also compares that character with CR (a loop that only stops at LF reads a CR-terminated line on)
	nLE := 0
	for _, rel := range []string{"pkg/syntax", "pkg/syntax/zh"} {
		for _, g := range u.srcFuncs(rel) {
			withLF, withCR := map[ssa.Value]token.Pos{}, map[ssa.Value]bool{}
			for _, in := range instrsOf(g) {
				bo, ok := in.(*ssa.BinOp)
				if !ok || (bo.Op != token.EQL && bo.Op != token.NEQ) {
					continue
				}
				for _, pr := range [][2]ssa.Value{{bo.X, bo.Y}, {bo.Y, bo.X}} {
					k, isK := pr[1].(*ssa.Const)
					if !isK || k.Value == nil || k.Value.Kind() != constant.Int {
						continue
					}
					if b, isB := pr[0].Type().Underlying().(*types.Basic); !isB || b.Kind() != types.Int32 {
						continue
					}
					switch k.Int64() {
					case 10:
						withLF[pr[0]] = bo.Pos()
					case 13:
						withCR[pr[0]] = true
					}
				}
			}
			for v, p := range withLF {
				nLE++
				okCR := withCR[v]
				// the same character held in another SSA value (a phi of it, or the value it is a phi of)
				for w := range withCR {
					if flowsFrom(v, func(x ssa.Value) bool { return x == w }) || flowsFrom(w, func(x ssa.Value) bool { return x == v }) {
						okCR = true
					}
				}
				if !okCR {
					R.viol("C03.lineends", u.fname(g)+":LF-without-CR", u.pos(p), "a character is compared with LF but never with CR: a text with CR line ends is scanned past its line end (a single-line comment swallows the following lines), so the same program gives another tree than its LF spelling")
				}
			}
		}
	}
	if nLE > 0 {
		R.hold("C03.lineends", "front-end scanners", "", fmt.Sprintf("%d characters compared with LF are compared with CR as well", nLE))
	}
	// every item of the program's top-level list is looked at with a fresh statement-complete flag: in ParseProgram's
	// consumer the flag is reset before the 导入 test (a set flag makes tryConsume refuse the next import line)
	if g := u.ssaFunc("pkg/syntax/zh", "ParseProgram"); g != nil {
		okFlag, nTC := true, 0
		for _, h := range family(g, 0) {
			unsets := u.callsNamed(h, "pkg/syntax/zh.ParserZH.unsetStmtCompleteFlag")
			for _, tc := range u.callsNamed(h, "pkg/syntax/zh.ParserZH.tryConsume") {
				nTC++
				dom := false
				for _, us := range unsets {
					if ui, isI := us.(ssa.Instruction); isI {
						if ti, isT := tc.(ssa.Instruction); isT && dominatesInstr(ui, ti) {
							dom = true
						}
					}
				}
				if !dom {
					okFlag = false
				}
			}
		}
		R.check(okFlag && nTC >= 1, "C03.sections", "pkg/syntax/zh.ParseProgram:flag-reset-before-import-test", u.pos(g.Pos()), "the statement-complete flag is reset before every 导入 test", "the 导入 test of ParseProgram can run with the statement-complete flag still set from the previous line: a second 导入 line is not recognised and the program is rejected")
	}

	// ---- C03.spaces: optional spaces are layout only - the space predicate accepts every character of the table of
	// spaces and nothing else (evaluated on the function body for each table entry and for representatives outside)
	if fd, sp := u.funcDecl("pkg/syntax", "IsWhiteSpace"); fd != nil {
		sinfo := sp.TypesInfo
		var table []int64
		// the table: the package-level list of constants the predicate consults (ranged over or handed to a helper)
		ast.Inspect(fd.Body, func(n ast.Node) bool {
			if id, ok := n.(*ast.Ident); ok && table == nil {
				if v, isVar := sinfo.Uses[id].(*types.Var); isVar && v.Parent() == sp.Types.Scope() {
					if l, ok := newPE(u, sinfo, fd).constList(id); ok && len(l) >= 4 {
						table = l
					}
				}
			}
			return true
		})
		var chObj types.Object
		if len(fd.Type.Params.List) == 1 && len(fd.Type.Params.List[0].Names) == 1 {
			chObj = sinfo.Defs[fd.Type.Params.List[0].Names[0]]
		}
		if len(table) < 4 || chObj == nil {
			R.undecided("C03.spaces", "pkg/syntax.IsWhiteSpace", u.pos(fd.Pos()), "the table of spaces the predicate scans was not found")
		} else {
			inTable := map[int64]bool{}
			for _, t := range table {
				inTable[t] = true
			}
			probes := append([]int64{}, table...)
			for _, r := range []int64{'a', '0', '中', '\n', '\r', 0, '+', 0x3001, 0x2060, 0x1FFF, 0x7F, 0x85, 0xFEFF} {
				if !inTable[r] {
					probes = append(probes, r)
				}
			}
			bad := ""
			for _, ch := range probes {
				pe := newPE(u, sinfo, fd)
				st := newState()
				st.env[chObj] = intVal(ch)
				outs := pe.exec(st, fd.Body.List)
				if pe.failed != "" || len(outs) != 1 || outs[0].Kind != "return" || len(outs[0].RetV) != 1 || outs[0].RetV[0].K != vBool {
					bad = fmt.Sprintf("U+%04X: answer not extractable %s", ch, pe.failed)
					break
				}
				if outs[0].RetV[0].B != inTable[ch] {
					bad = fmt.Sprintf("U+%04X: answers %v, the table of spaces says %v", ch, outs[0].RetV[0].B, inTable[ch])
					break
				}
			}
			R.check(bad == "", "C03.spaces", "pkg/syntax.IsWhiteSpace", u.pos(fd.Pos()), fmt.Sprintf("accepts exactly the %d characters of the table of spaces (%d probes)", len(table), len(probes)), "the space predicate disagrees with the table of spaces - "+bad+": a program that differs only in the kind of space between tokens no longer parses to the same tree")
		}
	} else {
		R.lost("C03.spaces", "pkg/syntax.IsWhiteSpace")
	}

	// ---- C03.syn
	pe := newPE(u, info, nil)
	if fd, _ := u.funcDecl("pkg/syntax/zh", "parsePunctuations"); fd != nil {
		// the mark -> token table is the map literal of the function (whatever the variable is called)
		var lit *ast.CompositeLit
		ast.Inspect(fd, func(n ast.Node) bool {
			if cl, ok := n.(*ast.CompositeLit); ok && lit == nil && isMapType(info.TypeOf(cl)) && len(cl.Elts) >= 4 {
				lit = cl
			}
			return true
		})
		byName := map[string]int64{}
		keys := map[int64]bool{}
		if lit != nil {
			for _, el := range lit.Elts {
				kv := el.(*ast.KeyValueExpr)
				v, _ := constInt(info, kv.Value)
				k, _ := constInt(info, kv.Key)
				keys[k] = true
				if id, ok := kv.Key.(*ast.Ident); ok {
					byName[id.Name] = v
				}
			}
		}
		bad := []string{}
		nPairs := 0
		for n, v := range byName {
			if strings.HasSuffix(n, "_EN") {
				nPairs++
				if w, ok := byName[strings.TrimSuffix(n, "_EN")]; !ok || w != v {
					bad = append(bad, n)
				}
			}
		}
		R.check(len(bad) == 0 && nPairs >= 9, "C03.syn", "punctuationTypeMap:zh/en", u.pos(fd.Pos()), fmt.Sprintf("%d Chinese/ASCII punctuation pairs map to the same token", nPairs), "ASCII and Chinese punctuation differ in token type: "+strings.Join(bad, " "))
		// markPunctuations = keys of the map
		if mp := u.obj("pkg/syntax/zh", "markPunctuations"); mp != nil {
			l2 := pe.findListLiteral(mp)
			same := l2 != nil && len(l2.Elts) == len(keys)
			if l2 != nil {
				for _, el := range l2.Elts {
					if v, ok := constInt(info, el); !ok || !keys[v] {
						same = false
					}
				}
			}
			R.check(same, "C03.syn", "markPunctuations=keys(punctuationTypeMap)", u.pos(mp.Pos()), "every punctuation mark has a token type and vice versa", "markPunctuations and punctuationTypeMap disagree (a mark would be an invalid character or never dispatched)")
		}
	} else {
		R.lost("C03.syn", "pkg/syntax/zh.parsePunctuations")
	}
	pairs := [][2]string{{"TypeObjDotW", "TypeObjDotIIW"}, {"TypeAssignW", "TypeAssignMark"}}
	// the productions of dictionary literals (they build a HashMapExpr, or are helpers called only from such
	// productions): there '=' alone is the key = value sign / the empty-dictionary mark, not the assignment synonym
	mapLiteralFns := map[string]bool{}
	for _, g := range u.srcFuncs("pkg/syntax/zh") {
		for _, in := range instrsOf(g) {
			if fa, ok := in.(*ssa.FieldAddr); ok && strings.HasPrefix(fieldAddrName(fa), "HashMapExpr.") {
				top := g
				for top.Parent() != nil {
					top = top.Parent()
				}
				mapLiteralFns[strings.TrimPrefix(u.fname(top), "pkg/syntax/zh.")] = true
			}
		}
	}
	for h := range helpersOfAllowed(u, []string{"pkg/syntax/zh"}, func(name string) bool { return mapLiteralFns[strings.TrimPrefix(name, "pkg/syntax/zh.")] }) {
		mapLiteralFns[strings.TrimPrefix(h, "pkg/syntax/zh.")] = true
	}
	for _, s := range sites {
		for _, pr := range pairs {
			a, b := s.set[typeConsts[pr[0]]], s.set[typeConsts[pr[1]]]
			if !a && !b {
				continue
			}
			// '=' alone is legitimate as the map sign / empty-map mark inside brackets
			if pr[1] == "TypeAssignMark" && b && !a && mapLiteralFns[s.fn] {
				continue
			}
			R.check(a && b, "C03.syn", fmt.Sprintf("%s@%s:%s/%s", s.fn, u.pos(s.pos), pr[0], pr[1]), u.pos(s.pos), "both spellings accepted", "only one of two synonymous spellings is accepted here")
		}
	}
	R.min("C03.syn", 6)

	// ---- C03.linebreak
	if fd, _ := u.funcDecl("pkg/syntax/zh", "ParserZH.meetStmtLineBreak"); fd != nil {
		want := map[string][]string{
			"after-current-token":    {"TypeCommaSep", "TypePauseCommaSep", "TypeStmtQuoteL", "TypeArrayQuoteL", "TypeFuncCall", "TypeFuncDeclare"},
			"before-following-token": {"TypeArrayQuoteR", "TypeStmtQuoteR"},
		}
		// the decision is evaluated (constant propagation over the function body) for every token kind standing before the
		// line break and for every token kind standing after it: the answer "no statement break" must be given exactly
		// for the manual's two exception sets - whether the function spells them as lists, switches or a chain of tests
		neutral := typeConsts["TypeIdentifier"]
		decide := func(cur, peek int64) (bool, string) {
			pe := newPE(u, info, fd)
			pe.oracle = func(pe *PE, st *peState, call *ast.CallExpr, id string) (Val, bool) {
				switch {
				case strings.HasSuffix(id, "ParserZH.current"):
					return Val{K: vStruct, F: map[string]Val{"Type": intVal(cur)}}, true
				case strings.HasSuffix(id, "ParserZH.peek"):
					return Val{K: vStruct, F: map[string]Val{"Type": intVal(peek)}}, true
				}
				return Val{}, false
			}
			pe.selOracle = func(pe *PE, st *peState, sel *ast.SelectorExpr) (Val, bool) {
				switch astFieldName(info, sel.Sel) {
				case "StartLineIdxP2":
					return intVal(7), true
				case "EndLineIdxP1", "StartLineIdxP1":
					return intVal(5), true
				}
				return Val{}, false
			}
			outs := pe.exec(newState(), fd.Body.List)
			if pe.failed != "" || len(outs) != 1 || outs[0].Kind != "return" || len(outs[0].RetV) != 1 || outs[0].RetV[0].K != vBool {
				return false, "not extractable " + pe.failed
			}
			return outs[0].RetV[0].B, ""
		}
		for name, ws := range want {
			wantSet := map[int64]bool{}
			for _, w := range ws {
				wantSet[typeConsts[w]] = true
			}
			bad := ""
			for _, tn := range sortedKeys(typeConsts) {
				tv := typeConsts[tn]
				if tn == "TypeEOF" || !strings.HasPrefix(tn, "Type") {
					continue
				}
				var breaks bool
				var why string
				if name == "after-current-token" {
					breaks, why = decide(tv, neutral)
				} else {
					breaks, why = decide(neutral, tv)
				}
				if why != "" {
					bad = tn + ": " + why
					break
				}
				if breaks == wantSet[tv] {
					bad = fmt.Sprintf("%s: a line break there %s a statement, the manual says the opposite", tn, map[bool]string{true: "ends", false: "does not end"}[breaks])
					break
				}
			}
			R.check(bad == "", "C03.linebreak", "meetStmtLineBreak:"+name, u.pos(fd.Pos()), "equals the manual's set "+strings.Join(ws, " "), "line-continuation exception list differs from the manual ("+bad+")")
		}
		// "a line break separates the two tokens" = the following token starts on a later line than the one the
		// current token ENDS on (a multi-line literal followed by more text on its last line is one statement)
		if f := u.ssaFunc("pkg/syntax/zh", "ParserZH.meetStmtLineBreak"); f != nil {
			okCmp, badCmp := false, ""
			for _, b := range f.Blocks {
				ifi, isIf := b.Instrs[len(b.Instrs)-1].(*ssa.If)
				if !isIf {
					continue
				}
				bo, isB := ifi.Cond.(*ssa.BinOp)
				if !isB {
					continue
				}
				fx, okx := fieldLoadAnyName(bo.X)
				fy, oky := fieldLoadAnyName(bo.Y)
				if !okx || !oky || !strings.Contains(fx, "LineIdx") || !strings.Contains(fy, "LineIdx") {
					continue
				}
				switch {
				case fx == "StartLineIdxP2" && fy == "EndLineIdxP1" && (bo.Op == token.GTR || bo.Op == token.LEQ),
					fx == "EndLineIdxP1" && fy == "StartLineIdxP2" && (bo.Op == token.LSS || bo.Op == token.GEQ):
					okCmp = true
				default:
					badCmp = fx + " " + bo.Op.String() + " " + fy + " at " + u.pos(ifi.Pos())
				}
			}
			R.check(okCmp && badCmp == "", "C03.linebreak", "meetStmtLineBreak:line-comparison", u.pos(fd.Pos()), "start line of the following token is compared with the END line of the current token", "the line-break test does not compare the following token's start line with the current token's end line ("+badCmp+"): a multi-line literal splits its statement")
		}
	} else {
		R.lost("C03.linebreak", "pkg/syntax/zh.ParserZH.meetStmtLineBreak")
	}
	// the two line indices that test compares are the lines of the token's first and last character
	if f := u.ssaFunc("pkg/syntax/zh", "ParserZH.next"); f != nil {
		for _, pr := range [][2]string{{"StartLineIdxP2", "StartIdx"}, {"EndLineIdxP2", "EndIdx"}} {
			okL, nSt := true, 0
			for _, in := range instrsOf(f) {
				st, ok := in.(*ssa.Store)
				if !ok {
					continue
				}
				fa, ok := st.Addr.(*ssa.FieldAddr)
				if !ok || fieldAddrName(fa) != "ParserZH."+pr[0] {
					continue
				}
				nSt++
				call, isCall := st.Val.(*ssa.Call)
				if !isCall || u.callName(call) != "pkg/syntax.Lexer.FindLineIdx" {
					okL = false
					continue
				}
				arg := call.Call.Args[1]
				fromField := false
				switch x := arg.(type) {
				case *ssa.Field:
					if stt, isS := x.X.Type().Underlying().(*types.Struct); isS && fieldName(stt.Field(x.Field)) == pr[1] {
						fromField = true
					}
				default:
					if _, isF := fieldLoad(arg, pr[1]); isF {
						fromField = true
					}
				}
				if !fromField {
					okL = false
				}
			}
			R.check(okL && nSt == 1, "C03.linebreak", "ParserZH.next:"+pr[0], u.pos(f.Pos()), pr[0]+" is the line of the token's "+pr[1], pr[0]+" is not computed as the line of the token's "+pr[1]+" (a token spanning several lines is taken to end where it starts, or vice versa)")
		}
	} else {
		R.lost("C03.linebreak", "pkg/syntax/zh.ParserZH.next")
	}
	// ---- C03.yield: the 得到 ‹name› suffix has exactly one owner per production. A production that consumes
	// 得到 itself (for the whole chain) must parse its inner calls with parseYieldResult = false, otherwise the
	// first call of `以 X（a）、（b）得到 R` swallows the suffix / binds it to the wrong call
	if pf := u.ssaFunc("pkg/syntax/zh", "ParseFuncCallExpr"); pf != nil && len(pf.Params) == 2 {
		ownsYield := map[string]bool{}
		for _, cs := range sites {
			if cs.set[typeConsts["TypeGetResultW"]] {
				ownsYield[cs.fn] = true
			}
		}
		nY := 0
		for _, g := range u.srcFuncs("pkg/syntax/zh") {
			if g == pf {
				continue
			}
			owner := g
			for owner.Parent() != nil {
				owner = owner.Parent()
			}
			// the production, or a production that calls this helper (the helper parses the chain on its behalf)
			var owns func(fn *ssa.Function, depth int) bool
			owns = func(fn *ssa.Function, depth int) bool {
				for fn.Parent() != nil {
					fn = fn.Parent()
				}
				if ownsYield[strings.TrimPrefix(u.fname(fn), "pkg/syntax/zh.")] {
					return true
				}
				if depth == 0 {
					return false
				}
				for _, cs := range u.staticCallers(fn) {
					if cs.Parent() != fn && owns(cs.Parent(), depth-1) {
						return true
					}
				}
				return false
			}
			for _, call := range u.callsNamed(g, "pkg/syntax/zh.ParseFuncCallExpr") {
				nY++
				k, isK := call.Common().Args[1].(*ssa.Const)
				key := u.fname(g) + ":" + siteName(u, g, call)
				if !isK || k.Value == nil {
					R.undecided("C03.yield", key, u.pos(call.Pos()), "parseYieldResult is not a constant at this call")
					continue
				}
				inner := constant.BoolVal(k.Value)
				R.check(!(inner && owns(owner, 2)), "C03.yield", key, u.pos(call.Pos()), "得到 has one owner here", "this production consumes 得到 itself and also lets the inner call consume it: in a call chain the suffix is bound to the wrong call")
			}
		}
		if nY < 2 {
			R.viol("C03.yield", "instances", "", fmt.Sprintf("expected at least 2 calls of ParseFuncCallExpr, found %d", nY))
		}
	} else {
		R.lost("C03.yield", "pkg/syntax/zh.ParseFuncCallExpr")
	}
	// siblings: every appended hashmap entry is followed by unsetStmtCompleteFlag before the next token is consumed
	{
		n := 0
		var f *ssa.Function
		var entryStores []*ssa.Store
		for _, g := range u.srcFuncs("pkg/syntax/zh") {
			for _, in := range instrsOf(g) {
				st, ok := in.(*ssa.Store)
				if !ok {
					continue
				}
				fa, ok := st.Addr.(*ssa.FieldAddr)
				if !ok || fieldAddrName(fa) != "HashMapExpr.KVPair" {
					continue
				}
				if _, isAppend := st.Val.(*ssa.Call); !isAppend {
					continue
				}
				entryStores = append(entryStores, st)
				f = g
			}
		}
		for _, st := range entryStores {
			n++
			w := reachableAvoiding(st.Block(), instrIndex(st)+1,
				func(x ssa.Instruction) bool {
					return isCallTo(u, x, "pkg/syntax/zh.ParserZH.tryConsume", "pkg/syntax/zh.ParserZH.consume", "pkg/syntax/zh.ParseExpressionMAP")
				},
				func(x ssa.Instruction) bool { return isCallTo(u, x, "pkg/syntax/zh.ParserZH.unsetStmtCompleteFlag") })
			R.check(w == nil, "C03.linebreak", fmt.Sprintf("ParseArrayExpr:entry#%d", n), u.pos(st.Pos()), "after a key = value entry the statement-complete flag is reset, so the next entry may start on a new line", "after this entry the statement-complete flag stays set: a following entry on the next line (no comma) is rejected although the layout rules allow it")
		}
		if n < 2 || f == nil {
			R.viol("C03.linebreak", "ParseArrayExpr:entries", "", "expected the first-entry and the loop-entry append sites")
		}
	}

	// ---- C03.indent
	nInd := 0
	for _, f := range u.srcFuncs("pkg/syntax/zh") {
		for _, in := range instrsOf(f) {
			bo, ok := in.(*ssa.BinOp)
			if !ok {
				continue
			}
			isIndent := func(v ssa.Value) bool {
				return flowsFrom(v, func(x ssa.Value) bool {
					if call, ok := x.(*ssa.Call); ok {
						n := u.callName(call)
						return n == "pkg/syntax/zh.ParserZH.getPeekIndent" || n == "pkg/syntax/zh.ParserZH.getCurrIndent"
					}
					if _, ok := fieldLoad(x, "Indents"); ok {
						return true
					}
					return false
				})
			}
			switch bo.Op {
			case token.EQL, token.NEQ, token.LSS, token.LEQ, token.GTR, token.GEQ:
			default:
				continue
			}
			if !isIndent(bo.X) && !isIndent(bo.Y) {
				continue
			}
			nInd++
			R.check(bo.Op == token.EQL || bo.Op == token.NEQ, "C03.indent", fmt.Sprintf("%s:indent-compare#%d", u.fname(f), nInd), u.pos(bo.Pos()), "indent levels are compared for equality", "indentation levels are compared with an ordering ("+bo.Op.String()+"): a line of a different block would be attached to this construct (silent re-nesting)")
		}
	}
	R.min("C03.indent", 4)

	// ---- C03.sections
	pg := newProgress(u)
	for _, name := range []string{"ParseProgram", "ParseExecBlock"} {
		f := u.ssaFunc("pkg/syntax/zh", name)
		if f == nil {
			R.lost("C03.sections", "pkg/syntax/zh."+name)
			continue
		}
		n, ok := 0, true
		for _, a := range f.AnonFuncs {
			for _, in := range instrsOf(a) {
				st, isSt := in.(*ssa.Store)
				if !isSt {
					continue
				}
				if _, isFV := st.Addr.(*ssa.FreeVar); !isFV {
					continue
				}
				if _, isK := st.Val.(*ssa.Const); !isK {
					continue
				}
				n++
				if !pg.phaseOK[in] {
					ok = false
				}
			}
		}
		R.check(ok && n >= 1, "C03.sections", "pkg/syntax/zh."+name+":forward-only", u.pos(f.Pos()), "the section state only moves to a later section", "the section state can move backwards (sections could be interleaved)")
	}
	if fd, _ := u.funcDecl("pkg/syntax/zh", "ParseExecBlock"); fd != nil {
		// roles, not names: the section variable is the local assigned only local constants; the admissible end
		// states are the int-list literal of the function; it must hold every section constant except the initial one
		consts := localIntConsts(info, fd)
		ok := false
		sv := stateLikeVars(info, fd)
		var lists [][]int64
		ast.Inspect(fd.Body, func(n ast.Node) bool {
			if cl, isCL := n.(*ast.CompositeLit); isCL {
				if _, isSlice := info.TypeOf(cl).Underlying().(*types.Slice); isSlice {
					var got []int64
					for _, el := range cl.Elts {
						if v, isInt := constInt(info, el); isInt {
							got = append(got, v)
						}
					}
					if len(got) == len(cl.Elts) && len(got) > 0 {
						lists = append(lists, got)
					}
				}
			}
			return true
		})
		if len(sv) == 1 && len(lists) == 1 {
			defs := definitionsOf(info, fd, sv[0])
			if len(defs) > 0 {
				if initVal, isInt := constInt(info, defs[0]); isInt {
					want := map[int64]bool{}
					for _, v := range consts {
						if v != initVal {
							want[v] = true
						}
					}
					got := map[int64]bool{}
					for _, v := range lists[0] {
						got[v] = true
					}
					ok = len(got) == len(want) && len(want) >= 1
					for v := range want {
						if !got[v] {
							ok = false
						}
					}
				}
			}
		}
		R.check(ok, "C03.sections", "pkg/syntax/zh.ParseExecBlock:end-states", u.pos(fd.Pos()), "a body must reach the statement or catch section", "a body may end in the input section (no statements)")
	}
}

// identExpr finds an identifier expression that uses object o inside fd
func identExpr(info *types.Info, fd *ast.FuncDecl, o types.Object) ast.Expr {
	var res ast.Expr
	ast.Inspect(fd, func(n ast.Node) bool {
		if id, ok := n.(*ast.Ident); ok && info.Uses[id] == o && res == nil {
			res = id
		}
		return true
	})
	if res == nil {
		return &ast.Ident{Name: "_"}
	}
	return res
}

// feasibleReturnAvoiding searches a path from (b, idx) to one of the given returns that passes no
// `must` instruction, pruning branches whose condition is decided by constants carried through phis on
// the path (e.g. a phase variable that still has its initial value when the loop body never ran).
func feasibleReturnAvoiding(b *ssa.BasicBlock, idx int, rets []*ssa.Return, must func(ssa.Instruction) bool) ssa.Instruction {
	isRet := map[ssa.Instruction]bool{}
	for _, r := range rets {
		isRet[r] = true
	}
	type state struct {
		b    *ssa.BasicBlock
		i    int
		env  map[*ssa.Phi]int64
		from *ssa.BasicBlock
	}
	keyOf := func(s state) string {
		var ks []string
		for p, v := range s.env {
			ks = append(ks, fmt.Sprintf("%s=%d", p.Name(), v))
		}
		sort.Strings(ks)
		return fmt.Sprintf("%d|%s", s.b.Index, strings.Join(ks, ","))
	}
	seen := map[string]bool{}
	work := []state{{b, idx, map[*ssa.Phi]int64{}, nil}}
	steps := 0
	for len(work) > 0 {
		s := work[len(work)-1]
		work = work[:len(work)-1]
		steps++
		if steps > 200000 {
			return nil
		}
		blocked := false
		for i := s.i; i < len(s.b.Instrs); i++ {
			in := s.b.Instrs[i]
			if must(in) {
				blocked = true
				break
			}
			if isRet[in] {
				return in
			}
			if _, isPanic := in.(*ssa.Panic); isPanic {
				blocked = true
				break
			}
		}
		if blocked {
			continue
		}
		last := s.b.Instrs[len(s.b.Instrs)-1]
		for si, succ := range s.b.Succs {
			// feasibility of the branch under the constants known on this path
			if ifi, ok := last.(*ssa.If); ok {
				if bo, ok := ifi.Cond.(*ssa.BinOp); ok && (bo.Op == token.EQL || bo.Op == token.NEQ) {
					if phi, ok := bo.X.(*ssa.Phi); ok {
						if k, ok := bo.Y.(*ssa.Const); ok {
							if v, known := s.env[phi]; known {
								truth := (v == k.Int64()) == (bo.Op == token.EQL)
								if (si == 0) != truth {
									continue
								}
							}
						}
					}
				}
			}
			// entering succ from s.b: resolve its phis that receive constants (or known phis)
			env := map[*ssa.Phi]int64{}
			for p, v := range s.env {
				env[p] = v
			}
			predIdx := -1
			for i, pr := range succ.Preds {
				if pr == s.b {
					predIdx = i
				}
			}
			for _, in := range succ.Instrs {
				phi, ok := in.(*ssa.Phi)
				if !ok {
					break
				}
				delete(env, phi)
				if predIdx >= 0 {
					switch e := phi.Edges[predIdx].(type) {
					case *ssa.Const:
						if e.Value != nil && e.Value.Kind() == 3 { // constant.Int
							env[phi] = e.Int64()
						}
					case *ssa.Phi:
						if v, ok := s.env[e]; ok {
							env[phi] = v
						}
					}
				}
			}
			n := state{succ, 0, env, s.b}
			k := keyOf(n)
			if seen[k] {
				continue
			}
			seen[k] = true
			work = append(work, n)
		}
	}
	return nil
}
