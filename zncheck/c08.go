package main

import (
	"fmt"
	"go/token"
	"go/types"
	"sort"

	"golang.org/x/tools/go/ssa"
)

func init() {
	register("C08", checkC08)
	register("C09", checkC09)
}

// ruleFramePairing: every PushCallFrame is matched by PopCallFrame on every exit that does not
// return an error (frames are deliberately kept on error exits for the call chain; the handler
// that intercepts the error cuts them back - C09.unwind)
func ruleFramePairing(c *Ctx, u *Universe, rule string, only string) int {
	R := c.R
	n := 0
	isPop := func(x ssa.Instruction) bool { return isCallTo(u, x, "pkg/runtime.VM.PopCallFrame") }
	usedAsValue := map[*ssa.Function]bool{}
	for _, g := range u.srcFuncs("pkg/exec") {
		for _, in := range instrsOf(g) {
			for _, op := range in.Operands(nil) {
				if f, isF := (*op).(*ssa.Function); isF {
					if call, isCall := in.(ssa.CallInstruction); !isCall || call.Common().Value != ssa.Value(f) {
						usedAsValue[f] = true
					}
				}
			}
		}
	}
	type site struct {
		f    *ssa.Function
		in   ssa.CallInstruction
		via  string
		hops int
	}
	var work []site
	for _, f := range u.srcFuncs("pkg/exec") {
		if only != "" && u.fname(f) != only {
			continue
		}
		for _, push := range u.callsNamed(f, "pkg/runtime.VM.PushCallFrame") {
			work = append(work, site{f, push, "", 0})
		}
	}
	queued := map[ssa.Instruction]bool{}
	for len(work) > 0 {
		st := work[0]
		work = work[1:]
		f, push := st.f, st.in
		n++
		key := u.fname(f) + ":" + siteName(u, f, push) + st.via
		bad, leakOnSuccess := "", false
		for _, rr := range returnsReachable(push.Block(), instrIndex(push)+1, isPop) {
			ev := errorOperand(rr.Ret)
			switch {
			case ev == nil:
				bad = "a return without error result leaves the frame pushed (" + u.pos(rr.Ret.Pos()) + ")"
				leakOnSuccess = true
			case isNilConst(ev) || rr.IsNil[ev]:
				bad = "a successful return (nil error) leaves the frame pushed (" + u.pos(rr.Ret.Pos()) + ")"
				leakOnSuccess = true
			case rr.NonNil[ev] || provablyNonNilError(ev):
				// error exit: frame intentionally kept
			default:
				// some error is known non-nil on this path and an error value is returned: error exit
				onErrPath := false
				for v := range rr.NonNil {
					if isErrorType(v.Type()) {
						onErrPath = true
					}
				}
				if !onErrPath {
					bad = "a return that may carry a nil error leaves the frame pushed (" + u.pos(rr.Ret.Pos()) + ")"
					leakOnSuccess = true
				}
			}
		}
		// a helper that pushes on behalf of its callers (plain calls only, never a value): the obligation moves to
		// every call site of the helper
		if leakOnSuccess && f.Parent() == nil && !usedAsValue[f] && st.hops < 2 && only == "" {
			sites := u.staticCallers(f)
			movable := len(sites) > 0
			for _, cs := range sites {
				if _, plain := cs.(*ssa.Call); !plain {
					movable = false
				}
			}
			if movable {
				R.hold(rule, key, u.pos(push.Pos()), "pushes on behalf of its callers: the pop is required at each call site of "+u.fname(f))
				for _, cs := range sites {
					if !queued[cs] {
						queued[cs] = true
						work = append(work, site{cs.Parent(), cs, " (push inside " + shortName(u.fname(f)) + ")", st.hops + 1})
					}
				}
				continue
			}
		}
		R.check(bad == "", rule, key, u.pos(push.Pos()), "the frame is popped on every exit that does not return an error", "call frame leak: "+bad)
	}
	return n
}

func checkC08(c *Ctx) {
	R := c.R
	R.Explain = "Decided on SSA: (C08.args) arguments are produced by one in-order exprsToValues pass that dominates the call and are passed unchanged; (C08.arity) the parameter-count comparison's equal edge dominates every parameter binding " +
		"and the body; (C08.frames) every PushCallFrame is popped on every non-error exit and method/constructor frames carry the receiver and the defining module; (C08.this) 其 comes only from vm.GetThisValue() and a nil receiver is an error; " +
		"(C08.result) the value returned and the value bound by 得到 are the callee's result, and in a chain the receiver of link k+1 is the result of link k; (C08.new) Construct allocates a new object per call, hands exactly it and the call's arguments to the constructor, " +
		"and defaults are deep-copied per instance (C07.dup/C07.obj rules re-run); (C08.unknown) all implementers of runtime.Element answer an unknown property/method with PropertyNotFound/MethodNotFound and Object.SetProperty refuses undeclared names. " +
		"Also: NewObject is never handed the type's own default table as initial properties; (C08.unwind = C09.unwind) frames of failed inner calls are cut back completely before a handler runs. NOT decided: recursion depth limits, computed values."
	R.Assumptions = []string{"Go evaluates range loops front to back", "runtime.New*CallFrame store their arguments (pkg/runtime/callframe.go, covered by baseline tests)"}
	u := c.Core()
	u.buildSSA()

	// ---- C08.frames
	n := ruleFramePairing(c, u, "C08.frames", "")
	R.min("C08.frames", 7)
	R.count("push_sites", n)
	// receiver / module of frames
	if f := u.ssaFunc("pkg/exec", "execMethodFunction"); f != nil {
		// the frames built for a method call (here or in a helper the function calls) carry the call's root value
		ok, nNF := true, 0
		scope := []*ssa.Function{f}
		for _, in := range instrsOf(f) {
			if call, isCall := in.(*ssa.Call); isCall {
				if callee := call.Call.StaticCallee(); callee != nil && callee.Pkg == f.Pkg && callee.Blocks != nil && callee != f {
					scope = append(scope, callee)
				}
			}
		}
		for _, g := range scope {
			for _, nf := range u.callsNamed(g, "pkg/runtime.NewFunctionCallFrame") {
				nNF++
				match := false
				for d := 0; d <= 2 && !match; d++ {
					roots := paramRoots(u, nf.Common().Args[1], d)
					match = len(roots) == 1 && roots[0] == f.Params[1]
				}
				if !match {
					ok = false
				}
			}
		}
		R.check(ok && nNF >= 1, "C08.frames", "pkg/exec.execMethodFunction:receiver", u.pos(f.Pos()), "a method call's frame carries the receiving value as 其", "a method frame is built with a receiver other than the call's root value")
	} else {
		R.lost("C08.frames", "pkg/exec.execMethodFunction")
	}
	if f := u.ssaFunc("pkg/exec", "execDirectFunction"); f != nil {
		ok := false
		for _, nf := range u.callsNamed(f, "pkg/runtime.NewFunctionCallFrame") {
			ok = flowsFrom(nf.Common().Args[0], func(v ssa.Value) bool {
				ex, isEx := v.(*ssa.Extract)
				if !isEx || ex.Index != 1 {
					return false
				}
				cv, isC := ex.Tuple.(*ssa.Call)
				return isC && u.callName(cv) == "pkg/runtime.VM.FindElementWithModule"
			})
		}
		R.check(ok, "C08.frames", "pkg/exec.execDirectFunction:module", u.pos(f.Pos()), "the callee runs under the module that defines it", "the callee's frame does not use the defining module")
	} else {
		R.lost("C08.frames", "pkg/exec.execDirectFunction")
	}

	// frames of failed inner calls are cut back completely before a handler runs - otherwise the caller's pop
	// removes a stale frame and 其 / the module of the CALLER are those of the callee (same fact as C09.unwind)
	borrowRule(c, "C09", "C09.unwind", "C08.unwind")
	// property writes on one object never affect another: every assignment target (variable, element, property) stores a copy
	borrowRule(c, "C07", "C07.bind", "C08.bind")
	// the 得到 name is attached to the call that produces the value the evaluator binds (one owner per production)
	borrowRule(c, "C03", "C03.yield", "C08.yield")
	R.Explain += " (C08.yield = C03.yield) the 得到 name is attached to the call whose value the evaluator binds."

	// ---- C08.args + C08.result
	if f := u.ssaFunc("pkg/exec", "evalFunctionCall"); f != nil {
		ev := u.callsNamed(f, "pkg/exec.exprsToValues")
		ex := u.callsNamed(f, "pkg/exec.execDirectFunction")
		ok := len(ev) == 1 && len(ex) == 1
		if ok {
			arg := ex[0].Common().Args[2]
			e, isEx := arg.(*ssa.Extract)
			ok = isEx && e.Tuple == ev[0].Value() && e.Index == 0 && dominatesInstr(ev[0], ex[0])
		}
		R.check(ok, "C08.args", "pkg/exec.evalFunctionCall", u.pos(f.Pos()), "arguments evaluated once, in order, and passed unchanged", "arguments of a call are not the single in-order evaluation result")
		// result
		okRes := len(ex) == 1
		if okRes {
			isRes := func(v ssa.Value) bool {
				e, isEx := v.(*ssa.Extract)
				return isEx && e.Tuple == ex[0].Value() && e.Index == 0
			}
			for _, d := range u.callsNamed(f, "pkg/runtime.VM.DeclareConstElement", "pkg/runtime.VM.DeclareElement") {
				if !isRes(d.Common().Args[2]) {
					okRes = false
				}
			}
			for _, b := range f.Blocks {
				if ret, isR := b.Instrs[len(b.Instrs)-1].(*ssa.Return); isR {
					rv := retValue(ret, 0)
					if !isNilConst(rv) && !isRes(rv) {
						okRes = false
					}
				}
			}
		}
		R.check(okRes, "C08.result", "pkg/exec.evalFunctionCall", u.pos(f.Pos()), "the call yields, and 得到 binds, the callee's result", "the value returned or bound by 得到 is not the callee's result")
	} else {
		R.lost("C08.args", "pkg/exec.evalFunctionCall")
	}
	if f := u.ssaFunc("pkg/exec", "evalMemberMethodExpr"); f != nil {
		calls := u.callsNamed(f, "pkg/exec.execMethodFunction")
		ok := len(calls) == 1
		var phi *ssa.Phi
		if ok {
			recv := calls[0].Common().Args[1]
			p, isPhi := recv.(*ssa.Phi)
			ok = isPhi
			if isPhi {
				phi = p
				self, root := false, false
				for _, e := range p.Edges {
					if ex, isEx := e.(*ssa.Extract); isEx && ex.Tuple == calls[0].Value() && ex.Index == 0 {
						self = true
					}
					if ex, isEx := e.(*ssa.Extract); isEx {
						if cv, isC := ex.Tuple.(*ssa.Call); isC && u.callName(cv) == "pkg/exec.evalExpression" {
							root = true
						}
					}
				}
				ok = self && root
			}
		}
		R.check(ok, "C08.result", "pkg/exec.evalMemberMethodExpr:chain", u.pos(f.Pos()), "each link of 以 X（a）、（b） runs on the previous link's result (the first on X)", "a link of a method chain does not receive the previous link's result")
		// bound / returned value is the chain's last value
		okLast := phi != nil
		if phi != nil {
			for _, d := range u.callsNamed(f, "pkg/runtime.VM.DeclareConstElement", "pkg/runtime.VM.DeclareElement") {
				if d.Common().Args[2] != ssa.Value(phi) {
					okLast = false
				}
			}
			for _, b := range f.Blocks {
				if ret, isR := b.Instrs[len(b.Instrs)-1].(*ssa.Return); isR {
					rv := retValue(ret, 0)
					if !isNilConst(rv) && rv != ssa.Value(phi) {
						okLast = false
					}
				}
			}
		}
		R.check(okLast, "C08.result", "pkg/exec.evalMemberMethodExpr:yield", u.pos(f.Pos()), "the chain yields, and 得到 binds, the last link's result", "the chain's value or its 得到 binding is not the last link's result")
		// params per link
		ev := u.callsNamed(f, "pkg/exec.exprsToValues")
		okA := len(ev) == 1 && len(calls) == 1
		if okA {
			e, isEx := calls[0].Common().Args[3].(*ssa.Extract)
			okA = isEx && e.Tuple == ev[0].Value() && dominatesInstr(ev[0], calls[0])
		}
		R.check(okA, "C08.args", "pkg/exec.evalMemberMethodExpr", u.pos(f.Pos()), "each link's arguments are evaluated once, in order, right before the link", "a chain link's arguments are not its own in-order evaluation result")
	} else {
		R.lost("C08.result", "pkg/exec.evalMemberMethodExpr")
	}
	if f := u.ssaFunc("pkg/exec", "evalNewObject"); f != nil {
		ev := u.callsNamed(f, "pkg/exec.exprsToValues")
		ok := false
		for _, in := range instrsOf(f) {
			if call, isC := in.(*ssa.Call); isC && call.Call.IsInvoke() && call.Call.Method.Name() == "Construct" && len(ev) == 1 {
				e, isEx := call.Call.Args[0].(*ssa.Extract)
				ok = isEx && e.Tuple == ev[0].Value()
			}
		}
		R.check(ok, "C08.args", "pkg/exec.evalNewObject", u.pos(f.Pos()), "新建 passes the evaluated arguments to Construct", "新建 does not pass its evaluated arguments to the constructor")
	} else {
		R.lost("C08.args", "pkg/exec.evalNewObject")
	}

	// ---- C08.arity
	// The count test may live in evalExecBlock or in a helper it calls (parameters are followed to the
	// helper's static call sites): the binding sites must lie on the equal edge of the test in their own
	// function, and the body must run only on that edge / after the helper returned no error.
	if f := u.ssaFunc("pkg/exec", "evalExecBlock"); f != nil {
		var originsOf func(v ssa.Value, depth int) map[string]bool
		originsOf = func(v ssa.Value, depth int) map[string]bool {
			out := map[string]bool{}
			for _, src := range allSources(v) {
				switch x := src.(type) {
				case *ssa.Parameter:
					fn := x.Parent()
					idx := -1
					for i, q := range fn.Params {
						if q == x {
							idx = i
						}
					}
					if fn == f && idx == 2 {
						out["params"] = true
						continue
					}
					if depth >= 3 || idx < 0 {
						continue
					}
					for _, cs := range u.staticCallers(fn) {
						if idx < len(cs.Common().Args) {
							for o := range originsOf(cs.Common().Args[idx], depth+1) {
								out[o] = true
							}
						}
					}
				case *ssa.UnOp:
					if fa, ok := x.X.(*ssa.FieldAddr); ok && x.Op == token.MUL && fieldAddrName(fa) == "ExecBlock.InputBlock" {
						out["input"] = true
					}
				}
			}
			return out
		}
		lenOrigin := func(v ssa.Value) string {
			o := ""
			flowsFrom(v, func(x ssa.Value) bool {
				if a, ok := lenArg(x); ok {
					os := originsOf(a, 0)
					if len(os) == 1 {
						for k := range os {
							o = k
						}
					}
					return true
				}
				return false
			})
			return o
		}
		type arityGuard struct {
			fn      *ssa.Function
			b       *ssa.BasicBlock
			eq, neq *ssa.BasicBlock
		}
		var guards []arityGuard
		for _, g := range u.srcFuncs("pkg/exec") {
			for _, b := range g.Blocks {
				ifi, ok := b.Instrs[len(b.Instrs)-1].(*ssa.If)
				if !ok {
					continue
				}
				bo, ok := ifi.Cond.(*ssa.BinOp)
				if !ok || (bo.Op != token.NEQ && bo.Op != token.EQL) {
					continue
				}
				if _, isLen := lenArg(bo.X); !isLen && !flowsFrom(bo.X, func(x ssa.Value) bool { _, ok := lenArg(x); return ok }) {
					continue
				}
				ox, oy := lenOrigin(bo.X), lenOrigin(bo.Y)
				if !(ox == "params" && oy == "input" || ox == "input" && oy == "params") {
					continue
				}
				ag := arityGuard{fn: g, b: b, eq: b.Succs[0], neq: b.Succs[1]}
				if bo.Op == token.NEQ {
					ag.eq, ag.neq = b.Succs[1], b.Succs[0]
				}
				guards = append(guards, ag)
			}
		}
		ok := len(guards) == 1
		why := "no (or more than one) test of len(params) against len(InputBlock) found"
		nDom := 0
		if ok {
			g := guards[0]
			why = ""
			// unequal edge returns an error
			for _, rr := range returnsReachable(g.neq, 0, nil) {
				if ev := errorOperand(rr.Ret); ev == nil || isNilConst(ev) {
					ok, why = false, "the unequal edge of the count test can return without an error"
				}
			}
			// a helper enforces the count when each of its returns that may carry a nil error lies on the equal edge
			enforces := true
			if g.fn != f {
				for _, b := range g.fn.Blocks {
					ret, isRet := b.Instrs[len(b.Instrs)-1].(*ssa.Return)
					if !isRet {
						continue
					}
					ev := errorOperand(ret)
					if ev == nil {
						enforces = false
					} else if !provablyNonNilError(ev) && !edgeDominates(g.b, g.eq, b) {
						enforces = false
					}
				}
			}
			protected := func(in ssa.Instruction) bool {
				fn := in.Parent()
				if fn == g.fn {
					return edgeDominates(g.b, g.eq, in.Block())
				}
				if !enforces {
					return false
				}
				// dominated by the nil-error edge of a call of the helper
				for _, cs := range u.staticCallers(g.fn) {
					if cs.Parent() != fn || cs.Value() == nil {
						continue
					}
					errV := errResult(cs)
					if errV == nil {
						continue
					}
					for _, t := range nilTests(fn) {
						if t.X == errV && edgeDominates(t.If.Block(), t.OnNil, in.Block()) {
							return true
						}
					}
				}
				return false
			}
			for _, h := range u.srcFuncs("pkg/exec") {
				for _, in := range instrsOf(h) {
					call, isCall := in.(ssa.CallInstruction)
					if !isCall {
						continue
					}
					switch {
					case isCallTo(u, in, "pkg/runtime.VM.DeclareConstElement", "pkg/runtime.VM.DeclareElement"):
						bindsParam := false
						for _, o := range nameOrigins(u, call.Common().Args[1]) {
							if o == "ExecBlock.InputBlock" {
								bindsParam = true
							}
						}
						if !bindsParam {
							continue
						}
					case isCallTo(u, in, "pkg/exec.evalStmtBlock") && h == f:
					default:
						continue
					}
					nDom++
					if !protected(in) {
						ok, why = false, "a parameter is bound or the body runs at "+u.pos(in.Pos())+" without the parameter-count check"
					}
				}
			}
		}
		if ok && nDom < 2 {
			ok, why = false, "parameter binding / body execution sites not found"
		}
		R.check(ok, "C08.arity", "pkg/exec.evalExecBlock", u.pos(f.Pos()), "a parameter-count mismatch is an error and no parameter is bound nor any statement run before the check", "parameters are bound or the body runs without the parameter-count check: "+why)
	} else {
		R.lost("C08.arity", "pkg/exec.evalExecBlock")
	}

	// ---- C08.this
	if f := u.ssaFunc("pkg/exec", "getMemberExprIV"); f != nil {
		th := u.callsNamed(f, "pkg/runtime.VM.GetThisValue")
		ok := len(th) == 1
		if ok {
			tested := false
			for _, t := range nilTests(f) {
				if t.X == th[0].Value() {
					tested = true
					for _, rr := range returnsReachable(t.OnNil, 0, nil) {
						if ev := errorOperand(rr.Ret); t.OnNil.Dominates(rr.Ret.Block()) && (ev == nil || isNilConst(ev)) {
							ok = false
						}
					}
					// the IV for 其 uses exactly this value
					used := false
					for _, iv := range u.callsNamed(f, "pkg/value.NewMemberIV") {
						if iv.Common().Args[0] == th[0].Value() && t.NotNil.Dominates(iv.Block()) {
							used = true
						}
					}
					ok = ok && used
				}
			}
			ok = ok && tested
		}
		R.check(ok, "C08.this", "pkg/exec.getMemberExprIV", u.pos(f.Pos()), "其 denotes the frame's receiver; without a receiver it is an error", "其 is not resolved from the current frame's receiver with a nil check")
	} else {
		R.lost("C08.this", "pkg/exec.getMemberExprIV")
	}
	// 此 only for function frames
	if f := u.ssaFunc("pkg/exec", "evalExecBlock"); f != nil {
		ok := false
		for _, d := range u.callsNamed(f, "pkg/runtime.VM.DeclareConstElement") {
			if nameOrigin(u, d.Common().Args[1]) != "此" {
				continue
			}
			for _, b := range f.Blocks {
				if ifi, isIf := b.Instrs[len(b.Instrs)-1].(*ssa.If); isIf {
					if cv, isC := ifi.Cond.(*ssa.Call); isC && u.callName(cv) == "pkg/runtime.CallFrame.IsFunctionCallFrame" && b.Succs[0].Dominates(d.Block()) {
						ok = true
					}
				}
			}
		}
		R.check(ok, "C08.this", "pkg/exec.evalExecBlock:此", u.pos(f.Pos()), "此 is injected only for method frames", "此 is injected outside function frames")
	}

	// ---- C08.new
	if f := u.ssaFunc("pkg/value", "ClassModel.Construct"); f != nil {
		no := u.callsNamed(f, "pkg/value.NewObject")
		ok := len(no) == 1
		if ok {
			ok = false
			for _, in := range instrsOf(f) {
				call, isC := in.(*ssa.Call)
				if !isC || call.Call.IsInvoke() || call.Call.StaticCallee() != nil {
					continue
				}
				if _, isCtor := fieldLoad(call.Call.Value, "constructor"); !isCtor || len(call.Call.Args) != 2 {
					continue
				}
				inst := strip(call.Call.Args[0])
				ok = inst == no[0].Value() && call.Call.Args[1] == ssa.Value(f.Params[1])
			}
		}
		R.check(ok, "C08.new", "pkg/value.ClassModel.Construct", u.pos(f.Pos()), "every 新建 allocates a new object and hands it and the call's arguments to the constructor", "Construct does not pass a freshly allocated object and the call's arguments to the constructor")
	} else {
		R.lost("C08.new", "pkg/value.ClassModel.Construct")
	}
	ruleNewObjectCopies(c, u, "C08.new")
	ruleDupDeep(c, u, "C08.new")

	// ---- C08.unknown
	elemIface := u.obj("pkg/runtime", "Element")
	var impls []string
	if elemIface != nil {
		it := elemIface.Type().Underlying().(*types.Interface)
		sc := u.Pkgs["pkg/value"].Types.Scope()
		for _, n := range sc.Names() {
			tn, ok := sc.Lookup(n).(*types.TypeName)
			if !ok || tn.IsAlias() {
				continue
			}
			if _, isStruct := tn.Type().Underlying().(*types.Struct); !isStruct {
				continue
			}
			if named, isNamed := tn.Type().(*types.Named); isNamed && named.TypeParams().Len() > 0 {
				continue
			}
			if types.Implements(types.NewPointer(tn.Type()), it) {
				impls = append(impls, n)
			}
		}
	}
	sort.Strings(impls)
	R.count("element_implementers", len(impls))
	for _, tn := range impls {
		for _, m := range []struct{ meth, ctor string }{{"GetProperty", "pkg/error.PropertyNotFound"}, {"SetProperty", "pkg/error.PropertyNotFound"}, {"ExecMethod", "pkg/error.MethodNotFound"}} {
			f := u.ssaFunc("pkg/value", tn+"."+m.meth)
			key := "pkg/value." + tn + "." + m.meth
			if f == nil {
				R.lost("C08.unknown", key)
				continue
			}
			// a return whose error is the NotFound constructor's result exists and is reachable from entry
			found := false
			for _, b := range f.Blocks {
				ret, ok := b.Instrs[len(b.Instrs)-1].(*ssa.Return)
				if !ok {
					continue
				}
				ev := errorOperand(ret)
				if ev == nil {
					continue
				}
				for _, s := range allSources(ev) {
					if cv, ok := s.(*ssa.Call); ok && u.callName(cv) == m.ctor {
						found = true
					}
				}
			}
			R.check(found, "C08.unknown", key, u.pos(f.Pos()), "an unknown name is answered with "+shortName(m.ctor), "an unknown property/method is not reported as "+shortName(m.ctor))
		}
	}
	R.min("C08.unknown", 33)
	if f := u.ssaFunc("pkg/value", "Object.SetProperty"); f != nil {
		ok := false
		for _, in := range instrsOf(f) {
			if mu, isMU := in.(*ssa.MapUpdate); isMU {
				ok = false
				for _, b := range f.Blocks {
					if ifi, isIf := b.Instrs[len(b.Instrs)-1].(*ssa.If); isIf {
						if ex, isEx := ifi.Cond.(*ssa.Extract); isEx && ex.Index == 1 {
							if _, isLk := ex.Tuple.(*ssa.Lookup); isLk && edgeDominates(b, b.Succs[0], mu.Block()) {
								ok = true
							}
						}
					}
				}
			}
		}
		R.check(ok, "C08.unknown", "pkg/value.Object.SetProperty:declared-only", u.pos(f.Pos()), "only properties declared by the type can be written", "an undeclared property can be written into an object")
	}
}

func checkC09(c *Ctx) {
	R := c.R
	R.Explain = "Decided on SSA: (C09.stop) a failing statement ends its block at once (no path from the error edge back into the statement loop); (C09.channel) the handler entry recognises every catchable fault kind: exception signals (抛出), " +
		"*zerr.RuntimeError (division by zero, index errors, …) and *value.Exception (failing built-ins as converted by Function.Exec); (C09.match) a handler is chosen by comparing its class name with the exception's class name, runs under an " +
		"exception frame holding the exception as 其 and the catching body's module, its return slot becomes the body's value, and with no match the incoming error itself is returned; (C09.unwind) before the handler's frame is pushed the call " +
		"stack is cut back, by a loop popping frames while len(stack) > depth, to the depth captured when the protected body was entered (captured before the body runs); (C09.frames) the handler's own frame is popped on every non-error exit; (C09.scopes) every block ends the Scope object it began (deferred on the BeginScope result), so blocks unwound by a propagating error act on their own module even while a failed callee's frame is on top. " +
		"Also: Function.Exec returns a *Signal as the very same error value (an exception of a user-defined class keeps its class while propagating). (C09.value) no evaluator function returns the possibly-empty return slot as a value without a nil test (a handler without 输出 yields 空); (C09.loops = C02.signals) loops let everything but their own 继续/结束 signals through. NOT decided: state of other modules' symbol tables after arbitrary histories; only that the necessary unwinding operations exist on every path (their arithmetic is PopCallFrame's). (C09.channel …:every-failure-is-reported) Function.Exec returns an error for every kind of error its logic reports (classifying a kind in an empty switch case is not handling it); C09.errdrop covers every eval… / exec… / handle… function of pkg/exec."
	R.Assumptions = []string{"PopCallFrame restores csModuleID from the new top frame (pkg/runtime/vm.go)", "Function.Exec converts non-signal errors of built-ins into *value.Exception"}
	u := c.Core()
	u.buildSSA()
	ruleExceptionPayload(c, u, "C09.payload")

	// ---- C09.stop
	for _, name := range []string{"evalPureStmtBlock", "evalStmtBlock"} {
		f := u.ssaFunc("pkg/exec", name)
		if f == nil {
			R.lost("C09.stop", "pkg/exec."+name)
			continue
		}
		n := 0
		for _, in := range instrsOf(f) {
			call, ok := in.(ssa.CallInstruction)
			if !ok || !loopBlock(in.Block()) {
				continue
			}
			errV := errResult(call)
			if errV == nil {
				continue
			}
			if _, isDefer := in.(*ssa.Defer); isDefer {
				continue
			}
			for _, t := range nilTests(f) {
				if t.X != errV {
					continue
				}
				n++
				back := reachableAvoiding(t.NotNil, 0, func(x ssa.Instruction) bool { return x == in }, nil)
				okRet := true
				for _, rr := range returnsReachable(t.NotNil, 0, nil) {
					if t.NotNil.Dominates(rr.Ret.Block()) && errorOperand(rr.Ret) != errV {
						okRet = false
					}
				}
				R.check(back == nil && okRet, "C09.stop", "pkg/exec."+name+":"+siteName(u, f, call), u.pos(in.Pos()), "an error ends the block immediately and is returned unchanged", "after a failing statement the block goes on, or the error is replaced")
			}
		}
		if n == 0 {
			R.viol("C09.stop", "pkg/exec."+name, u.pos(f.Pos()), "no statement-error test found in the block loop")
		}
	}
	R.min("C09.stop", 4)

	f := u.ssaFunc("pkg/exec", "handleExceptionSignal")
	if f == nil {
		R.lost("C09.channel", "pkg/exec.handleExceptionSignal")
		return
	}
	pos := u.pos(f.Pos())
	// parameters by role (type), not by name: the block's error, the saved stack depth, the body's module
	var blockErr, blockDepth, blockModule *ssa.Parameter
	for _, p := range f.Params {
		switch {
		case isErrorType(p.Type()):
			blockErr = p
		case namedTypeIs(p.Type(), "pkg/runtime", "Module"):
			blockModule = p
		default:
			if b, ok := p.Type().Underlying().(*types.Basic); ok && b.Info()&types.IsInteger != 0 {
				blockDepth = p
			}
		}
	}
	// ---- C09.channel
	// the error is classified in the handler itself or in helpers it hands the error to
	type errHolder struct {
		fn *ssa.Function
		v  ssa.Value
	}
	holders := []errHolder{{f, blockErr}}
	for i := 0; i < len(holders) && i < 6; i++ {
		h := holders[i]
		for _, in := range instrsOf(h.fn) {
			call, ok := in.(*ssa.Call)
			if !ok {
				continue
			}
			callee := call.Call.StaticCallee()
			if callee == nil || callee.Pkg != f.Pkg || callee.Blocks == nil || callee == h.fn {
				continue
			}
			for ai, a := range call.Call.Args {
				if a == h.v && ai < len(callee.Params) {
					holders = append(holders, errHolder{callee, callee.Params[ai]})
				}
			}
		}
	}
	kinds := map[string]bool{}
	sigOK := false
	sigConsts := constsWithPrefix(u.Pkgs["pkg/error"], "SigTypeException")
	for _, h := range holders {
		for _, in := range instrsOf(h.fn) {
			if ta, ok := in.(*ssa.TypeAssert); ok && ta.X == h.v && ta.CommaOk {
				if namedTypeIs(ta.AssertedType, "pkg/error", "RuntimeError") {
					kinds["RuntimeError"] = true
				}
				if namedTypeIs(ta.AssertedType, "pkg/value", "Exception") {
					kinds["Exception"] = true
				}
			}
		}
		for _, cs := range u.callsNamed(h.fn, "pkg/exec.extractSignalValue") {
			if k, ok := cs.Common().Args[1].(*ssa.Const); ok && cs.Common().Args[0] == h.v && k.Int64() == sigConsts["SigTypeException"] {
				sigOK = true
			}
		}
	}
	R.check(sigOK, "C09.channel", "handleExceptionSignal:signal", pos, "exception signals raised by 抛出 are recognised", "exception signals are not extracted from the block's error")
	R.check(kinds["RuntimeError"], "C09.channel", "handleExceptionSignal:RuntimeError", pos, "runtime faults (*zerr.RuntimeError: division by zero, index errors, …) reach the handlers", "a runtime fault (*zerr.RuntimeError) bypasses every 拦截 block")
	R.check(kinds["Exception"], "C09.channel", "handleExceptionSignal:Exception", pos, "failing built-ins (*value.Exception) reach the handlers", "a failing built-in operation (*value.Exception) bypasses every 拦截 block")
	// Function.Exec: converts RuntimeError / native errors to *Exception, passes signals through
	if fe := u.ssaFunc("pkg/value", "Function.Exec"); fe != nil {
		R.check(len(u.callsNamed(fe, "pkg/value.NewException")) >= 1, "C09.channel", "pkg/value.Function.Exec", u.pos(fe.Pos()), "built-in failures are wrapped as exceptions", "built-in failures are no longer turned into exceptions")
		// a signal (抛出 of any class, 继续/结束, 输出) leaves the function as the very same error value: an
		// exception that is not handled here propagates outward unchanged
		okSame, nTA := true, 0
		for _, in := range instrsOf(fe) {
			ta, isTA := in.(*ssa.TypeAssert)
			if !isTA || !ta.CommaOk || !namedTypeIs(ta.AssertedType, "pkg/error", "Signal") || !isErrorType(ta.X.Type()) {
				continue
			}
			for _, r := range *ta.Referrers() {
				ex, isEx := r.(*ssa.Extract)
				if !isEx || ex.Index != 1 {
					continue
				}
				for _, d := range fe.Blocks {
					ifi, isIf := d.Instrs[len(d.Instrs)-1].(*ssa.If)
					if !isIf || ifi.Cond != ssa.Value(ex) {
						continue
					}
					nTA++
					for _, rr := range returnsReachable(d.Succs[0], 0, nil) {
						if !edgeDominates(d, d.Succs[0], rr.Ret.Block()) {
							continue
						}
						for _, src := range allSources(errorOperand(rr.Ret)) {
							if src != ta.X && !flowsFrom(ta.X, func(v ssa.Value) bool { return v == src }) {
								okSame = false
							}
						}
					}
				}
			}
		}
		// whatever kind of error the method's logic reports, the call fails: classifying the error (a type switch with
		// an empty case) is not handling it
		nLogic, badAt := 0, ""
		feTests := nilTests(fe)
		for _, in := range instrsOf(fe) {
			call, isCall := in.(*ssa.Call)
			if !isCall {
				continue
			}
			errV := errResult(call)
			if errV == nil || len(call.Call.Args) > 0 && isErrorType(call.Call.Args[0].Type()) {
				continue
			}
			nLogic++
			if bad := errorDroppedAtMode(u, fe, call, errV, feTests, true); bad != "" && badAt == "" {
				badAt = bad
			}
		}
		R.check(nLogic >= 1 && badAt == "", "C09.channel", "pkg/value.Function.Exec:every-failure-is-reported", u.pos(fe.Pos()), "every error of the method's logic leaves the call as an error (no error kind is classified and then dropped)", "an error of the method's logic is dropped: the call returns normally at "+badAt+" although the body failed, and the caller's next statement runs")
		R.check(okSame && nTA >= 1, "C09.channel", "pkg/value.Function.Exec:signal-unchanged", u.pos(fe.Pos()), "a signal leaves the function as the same error value", "a signal leaving a function is replaced by another error value: an exception of a user-defined class loses its class on the way out")
	}

	// ---- C09.ctorresult: what 抛出 raises is what the class constructor returned (the predefined 异常 constructor
	// returns the *Exception carrying the message): ClassModel.Construct hands the constructor's result on
	if g := u.ssaFunc("pkg/value", "ClassModel.Construct"); g != nil {
		okR, nR := true, 0
		gTests := nilTests(g)
		for _, b := range g.Blocks {
			ret, isRet := b.Instrs[len(b.Instrs)-1].(*ssa.Return)
			if !isRet || len(ret.Results) != 2 || !normalReturn(g, ret, gTests) {
				continue
			}
			nR++
			fromCtor := false
			for _, src := range allSources(retValue(ret, 0)) {
				var call *ssa.Call
				switch x := src.(type) {
				case *ssa.Call:
					call = x
				case *ssa.Extract:
					call, _ = x.Tuple.(*ssa.Call)
				}
				if call != nil && call.Call.StaticCallee() == nil && !call.Call.IsInvoke() {
					fromCtor = true
				}
			}
			if !fromCtor {
				okR = false
			}
		}
		R.check(okR && nR >= 1, "C09.channel", "pkg/value.ClassModel.Construct:constructor-result", u.pos(g.Pos()), "Construct yields what the constructor returned", "Construct ignores the element returned by the class constructor: 抛出异常：“…” raises a property-less object instead of the exception value the predefined constructor built, so 其内容 fails inside the handler and an uncaught exception ends the program without its message")
	}
	// the message of an uncaught exception is shown as it is: it is never used as a printf format
	for _, name := range []string{"WrapRuntimeError"} {
		if g := u.ssaFunc("pkg/exec", name); g != nil {
			bad := ""
			for _, in := range instrsOf(g) {
				call, isCall := in.(*ssa.Call)
				if !isCall {
					continue
				}
				n := u.callName(call)
				if n != "fmt.Errorf" && n != "fmt.Sprintf" {
					continue
				}
				if _, isConst := call.Call.Args[0].(*ssa.Const); !isConst {
					bad = u.pos(call.Pos())
				}
			}
			R.check(bad == "", "C09.channel", "pkg/exec."+name+":message-verbatim", u.pos(g.Pos()), "no text of the program is used as a format string", "the exception's message is used as a printf format at "+bad+": every % in it is garbled (折扣50%已失效 -> 折扣50%!已(MISSING)失效), the program no longer ends with the exception's message")
		}
	}

	// ---- C09.match
	pushes := u.callsNamed(f, "pkg/runtime.VM.PushCallFrame")
	frames := u.callsNamed(f, "pkg/runtime.NewExceptionCallFrame")
	okFrame := len(pushes) == 1 && len(frames) == 1
	if okFrame {
		okFrame = frames[0].Common().Args[0] == ssa.Value(blockModule) && strip(pushes[0].Common().Args[1]) == frames[0].Value()
		// the exception value: result of extractSignalValue / conversions (a phi) - must not be a constant
		if _, isConst := frames[0].Common().Args[1].(*ssa.Const); isConst {
			okFrame = false
		}
	}
	R.check(okFrame, "C09.match", "handleExceptionSignal:handler-frame", pos, "the handler runs under a frame with the exception as 其 and the catching body's module", "the handler frame does not carry the exception and the catching body's module")
	// class name comparison guards the handler
	okCmp := false
	for _, b := range f.Blocks {
		ifi, ok := b.Instrs[len(b.Instrs)-1].(*ssa.If)
		if !ok || len(pushes) != 1 {
			continue
		}
		if bo, ok := ifi.Cond.(*ssa.BinOp); ok && (bo.Op == token.EQL || bo.Op == token.NEQ) && isStringType(bo.X.Type()) {
			lit := func(v ssa.Value) bool {
				call, ok := v.(*ssa.Call)
				return ok && call.Call.IsInvoke() && call.Call.Method.Name() == "GetLiteral" || (ok && u.callName(call) == "pkg/runtime.IDName.GetLiteral")
			}
			// the edge on which the names are equal: true edge of ==, false edge of != (guard-clause form)
			eq := b.Succs[0]
			if bo.Op == token.NEQ {
				eq = b.Succs[1]
			}
			if (lit(bo.X) || lit(bo.Y)) && (eq.Dominates(pushes[0].Block()) || edgeDominates(b, eq, pushes[0].Block())) {
				okCmp = true
			}
		}
	}
	R.check(okCmp, "C09.match", "handleExceptionSignal:class-match", pos, "a handler runs only when its class name equals the exception's class name", "the handler is not guarded by the class-name comparison")
	// no match: the incoming error itself
	okSame := false
	for _, b := range f.Blocks {
		ret, ok := b.Instrs[len(b.Instrs)-1].(*ssa.Return)
		if !ok {
			continue
		}
		if ev := errorOperand(ret); ev == ssa.Value(blockErr) {
			// this must be the exit after the handler loop: not dominated by the push
			if len(pushes) == 1 && !pushes[0].Block().Dominates(b) {
				okSame = true
			}
		}
	}
	R.check(okSame, "C09.match", "handleExceptionSignal:no-match", pos, "without a matching handler the incoming error is returned unchanged", "an unmatched exception is not propagated unchanged")
	// handler value = return slot
	okSlot := false
	for _, rv := range u.callsNamed(f, "pkg/runtime.VM.GetReturnValue") {
		for _, b := range f.Blocks {
			if ret, ok := b.Instrs[len(b.Instrs)-1].(*ssa.Return); ok && retValue(ret, 0) == rv.Value() && isNilConst(errorOperand(ret)) {
				okSlot = true
			}
		}
	}
	R.check(okSlot, "C09.match", "handleExceptionSignal:handler-value", pos, "the handler's 输出 value becomes the body's value", "the handler's return slot is not what the body yields")

	// ---- C09.unwind
	okUnwind, why := false, "no loop popping frames down to the saved depth dominates the handler"
	if len(pushes) == 1 && blockDepth != nil {
		for _, pop := range u.callsNamed(f, "pkg/runtime.VM.PopCallFrame") {
			if !loopBlock(pop.Block()) {
				continue
			}
			// loop condition: len(vm.GetCallStack()) > blockDepth, re-evaluated on every cycle
			for _, b := range f.Blocks {
				ifi, ok := b.Instrs[len(b.Instrs)-1].(*ssa.If)
				if !ok || !loopBlock(b) {
					continue
				}
				bo, ok := ifi.Cond.(*ssa.BinOp)
				if !ok {
					continue
				}
				isLenStack := func(v ssa.Value) bool {
					call, ok := v.(*ssa.Call)
					if !ok {
						return false
					}
					bi, ok := call.Call.Value.(*ssa.Builtin)
					if !ok || bi.Name() != "len" {
						return false
					}
					cs, ok := call.Call.Args[0].(*ssa.Call)
					return ok && u.callName(cs) == "pkg/runtime.VM.GetCallStack" && cs.Block() == b
				}
				var bodyEdge *ssa.BasicBlock
				switch {
				case bo.Op == token.GTR && isLenStack(bo.X) && bo.Y == ssa.Value(blockDepth):
					bodyEdge = b.Succs[0]
				case bo.Op == token.LSS && isLenStack(bo.Y) && bo.X == ssa.Value(blockDepth):
					bodyEdge = b.Succs[0]
				case bo.Op == token.LEQ && isLenStack(bo.X) && bo.Y == ssa.Value(blockDepth):
					bodyEdge = b.Succs[1]
				}
				if bodyEdge == nil {
					continue
				}
				if bodyEdge.Dominates(pop.Block()) && b.Dominates(pushes[0].Block()) && !bodyEdge.Dominates(pushes[0].Block()) {
					okUnwind = true
				}
			}
		}
	} else if blockDepth == nil {
		why = "handleExceptionSignal does not receive the depth of the protected body"
	}
	R.check(okUnwind, "C09.unwind", "handleExceptionSignal:unwind", pos, "frames left by failed inner calls are popped until the stack is back at the protected body's depth, before the handler's frame is pushed", why)
	// the depth is captured on entry of the protected body
	if fb := u.ssaFunc("pkg/exec", "evalExecBlock"); fb != nil {
		okCap := false
		hs := u.callsNamed(fb, "pkg/exec.handleExceptionSignal")
		body := u.callsNamed(fb, "pkg/exec.evalStmtBlock")
		if len(hs) == 1 && len(body) == 1 && blockDepth != nil {
			idx := -1
			for i, p := range f.Params {
				if p == blockDepth {
					idx = i
				}
			}
			if idx >= 0 {
				arg := hs[0].Common().Args[idx]
				if call, ok := arg.(*ssa.Call); ok {
					if bi, ok := call.Call.Value.(*ssa.Builtin); ok && bi.Name() == "len" {
						if cs, ok := call.Call.Args[0].(*ssa.Call); ok && u.callName(cs) == "pkg/runtime.VM.GetCallStack" && dominatesInstr(call, body[0]) {
							okCap = true
							// nothing pushes a frame between capture and body
							if reachableAvoiding(call.Block(), instrIndex(call)+1, func(x ssa.Instruction) bool { return isCallTo(u, x, "pkg/runtime.VM.PushCallFrame") }, func(x ssa.Instruction) bool { return x == ssa.Instruction(body[0]) }) != nil {
								okCap = false
							}
						}
					}
				}
			}
		}
		R.check(okCap, "C09.unwind", "pkg/exec.evalExecBlock:depth-capture", u.pos(fb.Pos()), "the stack depth is captured before the protected body runs and handed to the handler", "the depth given to the handler is not the stack depth at entry of the protected body")
	} else {
		R.lost("C09.unwind", "pkg/exec.evalExecBlock")
	}

	// a body that handled an exception yields a value (the handler's 输出 or 空), never a nil element
	ruleNilNil(c, u, "C09.value", []string{"pkg/exec"})

	// loops let everything except their own 继续/结束 signals through: an exception raised in a loop body leaves the loop
	borrowRule(c, "C02", "C02.signals", "C09.loops")

	// ---- C09.scopes: blocks between the raise point and the handler end their own scope even though the
	// top frame belongs to the failed callee while the error propagates (same rule as C06.pair)
	ruleScopePairing(c, u, "C09.scopes")

	// ---- C09.frames
	n := ruleFramePairing(c, u, "C09.frames", "pkg/exec.handleExceptionSignal")
	if n == 0 {
		R.viol("C09.frames", "handleExceptionSignal", pos, "no handler frame push found")
	}
	_ = fmt.Sprint
}
