package main

import (
	"fmt"
	"go/ast"
	"go/token"
	"go/types"
	"os"
	"sort"
	"strings"

	"golang.org/x/tools/go/callgraph"
	"golang.org/x/tools/go/callgraph/cha"
	"golang.org/x/tools/go/callgraph/vta"
	"golang.org/x/tools/go/packages"
	"golang.org/x/tools/go/ssa"
	"golang.org/x/tools/go/ssa/ssautil"
)

const modPath = "github.com/DemoHn/Zn"

// corePkgs - the packages that type-check on linux (DESIGN §0)
var corePkgs = []string{
	"pkg/common", "pkg/error", "pkg/exec", "pkg/io", "pkg/runtime",
	"pkg/syntax", "pkg/syntax/zh", "pkg/value", "stdlib/file", "stdlib/json",
}

// Universe - one type-checked load of /repo (core on linux, or server on darwin)
type Universe struct {
	Name    string
	Fset    *token.FileSet
	Pkgs    map[string]*packages.Package // key: path relative to module root, e.g. "pkg/exec"
	Prog    *ssa.Program
	SSAPkgs map[string]*ssa.Package
	cg      *callgraph.Graph
	repo    string
	callers map[*ssa.Function][]ssa.CallInstruction
	overlay map[string][]byte // rewritten sources (new helper functions re-merged into their callers), by file name
}

// loadUniverse loads the packages and, when the tree contains new helper functions that the reference inventory does
// not know, loads them again with those helpers substituted back at their call sites (remerge.go)
func loadUniverse(repo string, name string, rel []string, goos string) (*Universe, error) {
	u, err := loadOnce(repo, name, rel, goos, nil)
	if err != nil || os.Getenv("ZNCHECK_NO_REMERGE") != "" {
		return u, err
	}
	acc := map[string][]byte{}
	var log []string
	for round := 0; round < 4; round++ {
		ov, lg := remergeOverlay(u, acc)
		if len(ov) == 0 {
			if round == 0 {
				log = append(log, lg...)
			}
			break
		}
		for k, v := range ov {
			acc[k] = v
		}
		u2, err2 := loadOnce(repo, name, rel, goos, acc)
		if err2 != nil && u2 != nil {
			// imports that only the removed helpers used
			again := false
			for _, p := range u2.Pkgs {
				if fixUnusedImports(u2.Fset, p, acc) {
					again = true
				}
			}
			if again {
				u2, err2 = loadOnce(repo, name, rel, goos, acc)
			}
		}
		if err2 != nil {
			// the substitution did not type-check: analyse the tree as it is
			for k := range ov {
				delete(acc, k)
			}
			log = append(log, fmt.Sprintf("re-merging of new helper functions was abandoned (%s universe): %v", name, firstLine(err2.Error())))
			break
		}
		u = u2
		log = append(log, lg...)
	}
	if len(acc) > 0 {
		u.overlay = acc
	}
	remergeLog = append(remergeLog, log...)
	return u, nil
}

func firstLine(s string) string {
	if i := strings.Index(s, "\n"); i >= 0 {
		lines := strings.SplitN(s, "\n", 3)
		if len(lines) > 1 {
			return lines[0] + " " + strings.TrimSpace(lines[1])
		}
	}
	return s
}

func loadOnce(repo string, name string, rel []string, goos string, overlay map[string][]byte) (*Universe, error) {
	fset := token.NewFileSet()
	env := append(os.Environ(),
		"GOFLAGS=-mod=mod", "GOPROXY=off", "GOSUMDB=off", "GOTOOLCHAIN=local", "GOWORK=off",
		"CGO_ENABLED=0",
	)
	if goos != "" {
		env = append(env, "GOOS="+goos)
	}
	cfg := &packages.Config{
		Mode: packages.NeedName | packages.NeedFiles | packages.NeedCompiledGoFiles | packages.NeedImports |
			packages.NeedDeps | packages.NeedTypes | packages.NeedSyntax | packages.NeedTypesInfo |
			packages.NeedTypesSizes | packages.NeedModule,
		Dir:     repo,
		Fset:    fset,
		Env:     env,
		Tests:   false,
		Overlay: overlay,
	}
	var patterns []string
	for _, r := range rel {
		patterns = append(patterns, "./"+r)
	}
	pkgs, err := packages.Load(cfg, patterns...)
	if err != nil {
		return nil, fmt.Errorf("packages.Load(%s): %v", name, err)
	}
	u := &Universe{Name: name, Fset: fset, Pkgs: map[string]*packages.Package{}, SSAPkgs: map[string]*ssa.Package{}, repo: repo}
	var errs []string
	// collect all module packages reachable (server universe pulls core packages as deps)
	seen := map[string]bool{}
	var visit func(p *packages.Package)
	visit = func(p *packages.Package) {
		if seen[p.PkgPath] {
			return
		}
		seen[p.PkgPath] = true
		if strings.HasPrefix(p.PkgPath, modPath) {
			relp := strings.TrimPrefix(strings.TrimPrefix(p.PkgPath, modPath), "/")
			u.Pkgs[relp] = p
			for _, e := range p.Errors {
				errs = append(errs, e.Error())
			}
			if p.Types == nil || p.IllTyped {
				errs = append(errs, "ill-typed package "+p.PkgPath)
			}
		}
		for _, ip := range p.Imports {
			visit(ip)
		}
	}
	for _, p := range pkgs {
		visit(p)
	}
	if len(errs) > 0 {
		sort.Strings(errs)
		if len(errs) > 8 {
			errs = errs[:8]
		}
		var partial *Universe
		if overlay != nil {
			partial = u
		}
		return partial, fmt.Errorf("load %s: type errors in analysed packages:\n  %s", name, strings.Join(errs, "\n  "))
	}
	for _, r := range rel {
		if _, ok := u.Pkgs[r]; !ok {
			return nil, fmt.Errorf("load %s: package %s missing", name, r)
		}
	}
	resolveRenames(u.Pkgs)
	return u, nil
}

// buildSSA builds SSA for the module packages of this universe (lazily, once)
func (u *Universe) buildSSA() {
	if u.Prog != nil {
		return
	}
	var initial []*packages.Package
	var keys []string
	for k := range u.Pkgs {
		keys = append(keys, k)
	}
	sort.Strings(keys)
	for _, k := range keys {
		initial = append(initial, u.Pkgs[k])
	}
	prog, spkgs := ssautil.Packages(initial, ssa.InstantiateGenerics)
	prog.Build()
	u.Prog = prog
	for i, k := range keys {
		u.SSAPkgs[k] = spkgs[i]
	}
}

func (u *Universe) callGraph() *callgraph.Graph {
	if u.cg == nil {
		u.buildSSA()
		u.cg = vta.CallGraph(ssautil.AllFunctions(u.Prog), cha.CallGraph(u.Prog))
	}
	return u.cg
}

// pos renders a position relative to the repository root
func (u *Universe) pos(p token.Pos) string {
	if !p.IsValid() {
		return "?"
	}
	pp := u.Fset.Position(p)
	f := strings.TrimPrefix(pp.Filename, u.repo+"/")
	return fmt.Sprintf("%s:%d", f, pp.Line)
}

// ---- lookup helpers (anchors are resolved through types, never by text position)

// funcDecl finds a function or method declaration: name is "Func" or "Type.Method"
func (u *Universe) funcDecl(rel, name string) (*ast.FuncDecl, *packages.Package) {
	fd, p := u.funcDeclExact(rel, name)
	if fd != nil || p == nil {
		return fd, p
	}
	if host := u.inlinedInto(rel, name); host != "" {
		for r := range u.Pkgs {
			if strings.HasPrefix(host, r+".") && len(host) > len(r)+1 {
				if fd2, p2 := u.funcDeclExact(r, host[len(r)+1:]); fd2 != nil && r+"."+declName(fd2) == host {
					return fd2, p2
				}
			}
		}
	}
	return nil, p
}

func (u *Universe) funcDeclExact(rel, name string) (*ast.FuncDecl, *packages.Package) {
	p := u.Pkgs[rel]
	if p == nil {
		return nil, nil
	}
	recv, fn := "", name
	if i := strings.Index(name, "."); i >= 0 {
		recv, fn = name[:i], name[i+1:]
	}
	for _, f := range p.Syntax {
		for _, d := range f.Decls {
			fd, ok := d.(*ast.FuncDecl)
			if !ok {
				continue
			}
			dn := fd.Name.Name
			if a, isAlias := declAlias[fd.Name]; isAlias {
				dn = a
			}
			if dn != fn {
				continue
			}
			if recv == "" && fd.Recv == nil {
				return fd, p
			}
			if recv != "" && fd.Recv != nil && len(fd.Recv.List) == 1 {
				if recvTypeName(fd.Recv.List[0].Type) == recv {
					return fd, p
				}
			}
		}
	}
	return nil, p
}

func recvTypeName(e ast.Expr) string {
	switch t := e.(type) {
	case *ast.StarExpr:
		return recvTypeName(t.X)
	case *ast.Ident:
		return t.Name
	case *ast.IndexExpr:
		return recvTypeName(t.X)
	case *ast.IndexListExpr:
		return recvTypeName(t.X)
	}
	return ""
}

// allFuncDecls lists every function declaration (with body) of a package
func (u *Universe) allFuncDecls(rel string) []*ast.FuncDecl {
	p := u.Pkgs[rel]
	if p == nil {
		return nil
	}
	var out []*ast.FuncDecl
	for _, f := range p.Syntax {
		for _, d := range f.Decls {
			if fd, ok := d.(*ast.FuncDecl); ok && fd.Body != nil {
				out = append(out, fd)
			}
		}
	}
	return out
}

func declName(fd *ast.FuncDecl) string {
	name := fd.Name.Name
	if a, ok := declAlias[fd.Name]; ok {
		name = a
	}
	if fd.Recv != nil && len(fd.Recv.List) == 1 {
		return recvTypeName(fd.Recv.List[0].Type) + "." + name
	}
	return name
}

// ssaFunc finds the SSA function for "Func" or "Type.Method" (pointer or value receiver)
// ssaFunc: the function listed as rel.name. When it no longer exists under any name and exactly one of its callers in the
// reference tree is left, that caller is answered (the function was inlined into it): the rules anchored in the
// function then look at the code where it now lives.
func (u *Universe) ssaFunc(rel, name string) *ssa.Function {
	if f := u.ssaFuncExact(rel, name); f != nil {
		return f
	}
	if host := u.inlinedInto(rel, name); host != "" {
		for r := range u.Pkgs {
			if strings.HasPrefix(host, r+".") && (len(host) > len(r)+1) {
				if f := u.ssaFuncExact(r, host[len(r)+1:]); f != nil && u.fname(f) == host {
					return f
				}
			}
		}
	}
	return nil
}

var inlinedLogged = map[string]bool{}

// inlinedInto: "" or the one reference caller ("pkgrel.Name") of the vanished function rel.name that still exists
func (u *Universe) inlinedInto(rel, name string) string {
	loadFormerCallers()
	var left []string
	for _, c := range formerCallers[rel+"."+name] {
		for r := range u.Pkgs {
			if strings.HasPrefix(c, r+".") && len(c) > len(r)+1 {
				if f := u.ssaFuncExact(r, c[len(r)+1:]); f != nil && u.fname(f) == c {
					left = append(left, c)
				}
			}
		}
	}
	sort.Strings(left)
	var uniq []string
	for i, c := range left {
		if i == 0 || c != left[i-1] {
			uniq = append(uniq, c)
		}
	}
	if len(uniq) != 1 {
		return ""
	}
	if !inlinedLogged[rel+"."+name] {
		inlinedLogged[rel+"."+name] = true
		remergeLog = append(remergeLog, fmt.Sprintf("%s.%s no longer exists (not even under another name); the rules anchored in it look at its only remaining reference caller %s (inlined there)", rel, name, uniq[0]))
	}
	return uniq[0]
}

func (u *Universe) ssaFuncExact(rel, name string) *ssa.Function {
	u.buildSSA()
	sp := u.SSAPkgs[rel]
	if sp == nil {
		return nil
	}
	// a renamed function is found under its listed name (rename.go)
	for obj, old := range funcAlias {
		if obj.Pkg() != sp.Pkg {
			continue
		}
		full := old
		if sig, _ := obj.Type().(*types.Signature); sig != nil && sig.Recv() != nil {
			full = recvNamed(sig.Recv().Type()) + "." + old
		}
		if full == name {
			if f := u.Prog.FuncValue(obj); f != nil {
				return f
			}
		}
	}
	if i := strings.Index(name, "."); i >= 0 {
		tn, mn := name[:i], name[i+1:]
		mem, ok := sp.Members[tn].(*ssa.Type)
		if !ok {
			return nil
		}
		T := mem.Type()
		for _, t := range []types.Type{types.NewPointer(T), T} {
			sel := u.Prog.MethodSets.MethodSet(t).Lookup(sp.Pkg, mn)
			if sel != nil {
				if f := u.Prog.MethodValue(sel); f != nil && f.Synthetic == "" {
					if _, renamed := funcAlias[f.Object().(*types.Func)]; renamed {
						continue // this name now belongs to another (new) function
					}
					return f
				}
			}
		}
		return nil
	}
	if f := sp.Func(name); f != nil {
		if obj, ok := f.Object().(*types.Func); ok {
			if _, renamed := funcAlias[obj]; renamed {
				return nil
			}
		}
		return f
	}
	return nil
}

// obj looks a package-level object up
func (u *Universe) obj(rel, name string) types.Object {
	p := u.Pkgs[rel]
	if p == nil || p.Types == nil {
		return nil
	}
	return p.Types.Scope().Lookup(name)
}

// srcFuncs lists all SSA functions with source of a package, including anonymous ones
func (u *Universe) srcFuncs(rel string) []*ssa.Function {
	u.buildSSA()
	sp := u.SSAPkgs[rel]
	if sp == nil {
		return nil
	}
	var out []*ssa.Function
	var add func(f *ssa.Function)
	add = func(f *ssa.Function) {
		if f == nil || f.Blocks == nil {
			return
		}
		out = append(out, f)
		for _, a := range f.AnonFuncs {
			add(a)
		}
	}
	var names []string
	for n := range sp.Members {
		names = append(names, n)
	}
	sort.Strings(names)
	for _, n := range names {
		switch m := sp.Members[n].(type) {
		case *ssa.Function:
			if m.Synthetic == "" || m.Name() == "init" {
				add(m)
			}
		case *ssa.Type:
			T := m.Type()
			for _, t := range []types.Type{T, types.NewPointer(T)} {
				ms := u.Prog.MethodSets.MethodSet(t)
				for i := 0; i < ms.Len(); i++ {
					f := u.Prog.MethodValue(ms.At(i))
					if f != nil && f.Synthetic == "" && f.Pkg == sp {
						dup := false
						for _, o := range out {
							if o == f {
								dup = true
							}
						}
						if !dup {
							add(f)
						}
					}
				}
			}
		}
	}
	return out
}

// fname renders an SSA function as pkgrel.Name (closures: parent$N)
func (u *Universe) fname(f *ssa.Function) string {
	if f == nil {
		return "<nil>"
	}
	base := f.Name()
	if obj, ok := f.Object().(*types.Func); ok && obj != nil {
		base = aliasName(obj)
	}
	name := base
	if f.Signature != nil && f.Signature.Recv() != nil {
		name = recvNamed(f.Signature.Recv().Type()) + "." + base
	}
	if f.Parent() != nil {
		// anonymous function: Parent$N
		return u.fname(f.Parent()) + strings.TrimPrefix(f.Name(), f.Parent().Name())
	}
	pk := ""
	if f.Pkg != nil {
		pk = strings.TrimPrefix(strings.TrimPrefix(f.Pkg.Pkg.Path(), modPath), "/")
	}
	return pk + "." + name
}

func recvNamed(t types.Type) string {
	if p, ok := t.(*types.Pointer); ok {
		t = p.Elem()
	}
	if n, ok := t.(*types.Named); ok {
		return n.Obj().Name()
	}
	return t.String()
}

// staticCallers lists the static call sites (call, go, defer) of fn in the module's source functions
func (u *Universe) staticCallers(fn *ssa.Function) []ssa.CallInstruction {
	if u.callers == nil {
		u.callers = map[*ssa.Function][]ssa.CallInstruction{}
		var rels []string
		for rel := range u.Pkgs {
			rels = append(rels, rel)
		}
		sort.Strings(rels)
		for _, rel := range rels {
			for _, f := range u.srcFuncs(rel) {
				for _, b := range f.Blocks {
					for _, in := range b.Instrs {
						if call, ok := in.(ssa.CallInstruction); ok {
							if callee := call.Common().StaticCallee(); callee != nil {
								u.callers[callee] = append(u.callers[callee], call)
							}
						}
					}
				}
			}
		}
	}
	return u.callers[fn]
}
