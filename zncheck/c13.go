package main

import (
	"fmt"
	"go/ast"
	"go/types"
	"sort"
	"strings"

	"golang.org/x/tools/go/ssa"
)

func init() { register("C13", checkC13) }

// reference quote families (manual ch.6 / ch.1): opening -> closing, token kind
var quoteFamilies = []struct {
	open, close rune
	kind        string
}{
	{0x201C, 0x201D, "TypeString"},     // “ ”
	{0x300C, 0x300D, "TypeString"},     // 「 」
	{0x2018, 0x2019, "TypeEnumString"}, // ‘ ’
	{0x300E, 0x300F, "TypeEnumString"}, // 『 』
	{0x300A, 0x300B, "TypeLibString"},  // 《 》
}

func checkC13(c *Ctx) {
	R := c.R
	R.Explain = "Decided: (C13.quotes) quoteMatchMap / markQuotes equal the five documented quote families; (C13.step) the step table of parseString's scanning loop is extracted " +
		"(constant propagation through the switch skeleton) for every opening quote x nesting depth 1..3 x next character class x following character class and compared with the reference: " +
		"depth changes only on the literal's own family, the token is returned exactly at depth 0 with the text collected so far, every other character (incl. CR, LF, CRLF, LFCR as written) is appended verbatim, " +
		"EOF gives a syntax error; (C13.escape) the backtick machine's step table is extracted and its complete configuration space (state x hex count x buffer) is explored exhaustively: " +
		"exactly `CR` `LF` `CRLF` `TAB` `SP` `BK` and `U+`H{1,8} decode, a lone quote between backticks denotes itself only directly after the opening backtick, every other text is kept verbatim " +
		"(the consumed characters are returned unchanged); (C13.codepoint) a U+hex escape is decoded only under err == nil && utf8.ValidRune. " +
		"(C13.verbatim) from the string token to the text value the characters are handed over unchanged (conversions only) at each of the five hand-over points; (C13.fresh = C07.fresh) a literal yields a new text on every evaluation. NewLexer stores the given characters unchanged (no line-break normalisation); (C13.decode = C17.runeerror) U+FFFD is a character, not a decoding error. NOT decided: the round trip encode∘decode = id itself (needs an encoder model), line bookkeeping (C18). (C13.errors = C05.errdrop) no lexer error is dropped on its way up."
	R.Assumptions = []string{
		"Lexer.Next/Peek/Peek2/GetCurrentChar return the characters at cursor+1 (after moving) / +1 / +2 / +0",
		"strconv.ParseInt and utf8.ValidRune behave as documented",
	}
	u := c.Core()
	p := u.Pkgs["pkg/syntax/zh"]
	info := p.TypesInfo
	typeConsts := constsWithPrefix(p, "Type")
	u.buildSSA()
	ruleGetCharVerbatim(c, u, "C13.getchar")

	// ---- C13.verbatim: between the string token and the text value the characters pass through unchanged
	// (conversions only - no slicing, trimming or rebuilding at any hand-over)
	u.buildSSA()
	verbatim := func(v ssa.Value, origin func(ssa.Value) bool) bool {
		okAll := true
		seen := map[ssa.Value]bool{}
		var walk func(v ssa.Value)
		walk = func(v ssa.Value) {
			if seen[v] || !okAll {
				return
			}
			seen[v] = true
			if origin(v) {
				return
			}
			switch x := v.(type) {
			case *ssa.Convert:
				walk(x.X)
			case *ssa.ChangeType:
				walk(x.X)
			case *ssa.Phi:
				for _, e := range x.Edges {
					walk(e)
				}
			default:
				okAll = false
			}
		}
		walk(v)
		return okAll
	}
	type hop struct {
		rel, fn, what string
		check         func(f *ssa.Function) bool
	}
	hops := []hop{
		{"pkg/syntax/zh", "newString", "the token's Literal is handed to SetLiteral as it is", func(f *ssa.Function) bool {
			calls := u.callsNamed(f, "pkg/syntax.PrimeExpr.SetLiteral")
			if len(calls) != 1 {
				return false
			}
			args := calls[0].Common().Args
			return verbatim(args[len(args)-1], func(v ssa.Value) bool { _, ok := fieldLoad(v, "Literal"); return ok })
		}},
		{"pkg/syntax", "PrimeExpr.SetLiteral", "stores string(literal)", func(f *ssa.Function) bool {
			n := 0
			for _, in := range instrsOf(f) {
				if st, ok := in.(*ssa.Store); ok {
					if fa, ok := st.Addr.(*ssa.FieldAddr); ok && fieldAddrName(fa) == "PrimeExpr.Literal" {
						n++
						if !verbatim(st.Val, func(v ssa.Value) bool { return v == ssa.Value(f.Params[1]) }) {
							return false
						}
					}
				}
			}
			return n == 1
		}},
		{"pkg/syntax", "PrimeExpr.GetLiteral", "returns the stored text", func(f *ssa.Function) bool {
			for _, b := range f.Blocks {
				if ret, ok := b.Instrs[len(b.Instrs)-1].(*ssa.Return); ok {
					if !verbatim(ret.Results[0], func(v ssa.Value) bool { _, ok := fieldLoad(v, "Literal"); return ok }) {
						return false
					}
				}
			}
			return true
		}},
		{"pkg/exec", "evalPrimeExpr", "the text value is built from GetLiteral() as it is", func(f *ssa.Function) bool {
			n := 0
			for _, cs := range u.callsNamed(f, "pkg/value.NewString") {
				n++
				if !verbatim(cs.Common().Args[0], func(v ssa.Value) bool {
					call, ok := v.(*ssa.Call)
					return ok && u.callName(call) == "pkg/syntax.PrimeExpr.GetLiteral"
				}) {
					return false
				}
			}
			return n >= 1
		}},
		{"pkg/value", "NewString", "stores its argument", func(f *ssa.Function) bool {
			n := 0
			for _, in := range instrsOf(f) {
				if st, ok := in.(*ssa.Store); ok {
					if fa, ok := st.Addr.(*ssa.FieldAddr); ok && fieldAddrName(fa) == "String.value" {
						n++
						if !verbatim(st.Val, func(v ssa.Value) bool { return v == ssa.Value(f.Params[0]) }) {
							return false
						}
					}
				}
			}
			return n == 1
		}},
	}
	hops = append(hops, hop{"pkg/syntax", "NewLexer", "the lexer scans exactly the characters it is given (no normalisation of line breaks or anything else)", func(f *ssa.Function) bool {
		n := 0
		for _, in := range instrsOf(f) {
			if st, ok := in.(*ssa.Store); ok {
				if fa, ok := st.Addr.(*ssa.FieldAddr); ok && fieldAddrName(fa) == "Lexer.Source" {
					n++
					if !verbatim(st.Val, func(v ssa.Value) bool { return v == ssa.Value(f.Params[0]) }) {
						return false
					}
				}
			}
		}
		return n == 1
	}})
	for _, h := range hops {
		f := u.ssaFunc(h.rel, h.fn)
		if f == nil {
			R.lost("C13.verbatim", h.rel+"."+h.fn)
			continue
		}
		R.check(h.check(f), "C13.verbatim", h.rel+"."+h.fn, u.pos(f.Pos()), h.what, "the literal's characters are altered on the way from the token to the text value (expected: "+h.what+")")
	}
	R.min("C13.verbatim", 6)

	// a literal yields a new text on every evaluation (texts are rewritten in place by 转换数值: a pooled literal
	// would read back altered the next time)
	borrowRule(c, "C07", "C07.fresh", "C13.fresh")

	// every character that can be written in a literal survives decoding of the source (U+FFFD is a character, not an error)
	borrowRule(c, "C17", "C17.runeerror", "C13.decode")
	// an unterminated literal is a syntax error wherever it stands: no error of the lexer is dropped on its way up
	borrowRule(c, "C05", "C05.errdrop", "C13.errors")
	// a U+FEFF inside a literal is a character like any other: only the first read strips a byte-order mark
	borrowRule(c, "C17", "C17.bom", "C13.bom")
	// a literal that spans lines is one token: the statement goes on after its closing quote (line test of C03.linebreak)
	borrowRule(c, "C03", "C03.linebreak", "C13.linebreak")

	// ---- C13.quotes: tables
	pe0 := newPE(u, info, nil)
	qmObj := u.obj("pkg/syntax/zh", "quoteMatchMap")
	if qmObj == nil {
		R.lost("C13.quotes", "pkg/syntax/zh.quoteMatchMap")
	} else {
		lit := pe0.findListLiteral(qmObj)
		got := map[int64]int64{}
		if lit != nil {
			for _, el := range lit.Elts {
				if kv, ok := el.(*ast.KeyValueExpr); ok {
					k, _ := pe0.constOf(kv.Key)
					v, _ := pe0.constOf(kv.Value)
					got[k.I] = v.I
				}
			}
		}
		ok := len(got) == len(quoteFamilies)
		for _, f := range quoteFamilies {
			if got[int64(f.open)] != int64(f.close) {
				ok = false
			}
		}
		R.check(ok, "C13.quotes", "pkg/syntax/zh.quoteMatchMap", u.pos(qmObj.Pos()), "five families, each opening quote mapped to its own closing quote", fmt.Sprintf("quote pairing differs from the manual: %v", got))
	}
	if mqObj := u.obj("pkg/syntax/zh", "markQuotes"); mqObj != nil {
		lit := pe0.findListLiteral(mqObj)
		got := map[int64]bool{}
		if lit != nil {
			for _, el := range lit.Elts {
				if v, ok := pe0.constOf(el); ok {
					got[v.I] = true
				}
			}
		}
		ok := len(got) == 2*len(quoteFamilies)
		for _, f := range quoteFamilies {
			if !got[int64(f.open)] || !got[int64(f.close)] {
				ok = false
			}
		}
		R.check(ok, "C13.quotes", "pkg/syntax/zh.markQuotes", u.pos(mqObj.Pos()), "the ten quote characters", "markQuotes is not the set of the ten quote characters")
	} else {
		R.lost("C13.quotes", "pkg/syntax/zh.markQuotes")
	}

	checkParseStringStep(c, u, typeConsts)
	checkBacktickMachine(c, u)
	R.Exhaustive = true
}

// lexer tape model for the extractor: cur = character under the cursor, then next, next2
type tape struct {
	cur, n1, n2 rune
	moved       int
}

func (t *tape) oracle(extra func(id string, call *ast.CallExpr, pe *PE, st *peState) (Val, bool)) func(pe *PE, st *peState, call *ast.CallExpr, id string) (Val, bool) {
	return func(pe *PE, st *peState, call *ast.CallExpr, id string) (Val, bool) {
		at := func(i int) rune {
			switch i + t.moved {
			case 0:
				return t.cur
			case 1:
				return t.n1
			case 2:
				return t.n2
			}
			return 'x'
		}
		switch id {
		case "pkg/syntax.Lexer.GetCurrentChar":
			return intVal(int64(at(0))), true
		case "pkg/syntax.Lexer.Peek":
			return intVal(int64(at(1))), true
		case "pkg/syntax.Lexer.Peek2":
			return intVal(int64(at(2))), true
		case "pkg/syntax.Lexer.Next":
			t.moved++
			return intVal(int64(at(0))), true
		case "pkg/syntax.Lexer.GetCursor":
			return intVal(int64(100 + t.moved)), true
		}
		if extra != nil {
			return extra(id, call, pe, st)
		}
		return Val{}, false
	}
}

func checkParseStringStep(c *Ctx, u *Universe, typeConsts map[string]int64) {
	R := c.R
	fd, p := u.funcDecl("pkg/syntax/zh", "parseString")
	if fd == nil {
		R.lost("C13.step", "pkg/syntax/zh.parseString")
		return
	}
	info := p.TypesInfo
	pos := u.pos(fd.Pos())
	body, loop := findMachineLoop(fd)
	if body == nil {
		R.undecided("C13.step", "pkg/syntax/zh.parseString", pos, "scanning loop not found")
		return
	}
	// roles, not names: nesting depth = the local the loop increments; collected text = the local rune slice the loop
	// appends to; token kind = the local returned as the token's Type; opening quote = the local read from
	// GetCurrentChar() before the loop
	var quoteNumObj, literalObj, tkTypeObj, schObj types.Object
	if cv := counterVars(info, body); len(cv) == 1 {
		quoteNumObj = cv[0]
	}
	literalObj = selfAppendedLocal(info, body)
	ast.Inspect(fd, func(n ast.Node) bool {
		switch x := n.(type) {
		case *ast.ReturnStmt:
			for _, r := range x.Results {
				if cl, ok := ast.Unparen(r).(*ast.CompositeLit); ok {
					for _, el := range cl.Elts {
						if kv, ok := el.(*ast.KeyValueExpr); ok {
							if id, ok := kv.Key.(*ast.Ident); ok && astFieldName(info, id) == "Type" {
								if o := identObj(info, kv.Value); o != nil {
									tkTypeObj = o
								}
							}
						}
					}
				}
			}
		}
		return true
	})
	for _, v := range localsInOrder(info, fd) {
		for _, def := range definitionsOf(info, fd, v) {
			if call, ok := ast.Unparen(def).(*ast.CallExpr); ok && funcID(calleeFunc(info, call)) == "pkg/syntax.Lexer.GetCurrentChar" && schObj == nil && def.Pos() < loop.Pos() {
				schObj = v
			}
		}
	}
	if quoteNumObj == nil || literalObj == nil || tkTypeObj == nil || schObj == nil {
		R.undecided("C13.step", "pkg/syntax/zh.parseString", pos, "nesting counter / collected text / token kind / opening quote variables not identifiable")
		return
	}
	allQuotes := []rune{}
	for _, f := range quoteFamilies {
		allQuotes = append(allQuotes, f.open, f.close)
	}
	chars := append([]rune{0, '\r', '\n', 'x', '中', ' ', '\t'}, allQuotes...)
	nSteps, nBad := 0, 0
	firstBad := ""
	report := func(msg string) {
		nBad++
		if firstBad == "" {
			firstBad = msg
		}
	}
	for _, fam := range quoteFamilies {
		// prologue: statements before the loop decide the token kind from the opening quote
		var tkType Val
		{
			t := &tape{cur: fam.open, n1: 'x', n2: 'x'}
			pe := newPE(u, info, fd)
			pe.oracle = t.oracle(nil)
			st := newState()
			for _, s := range flatStmts(fd.Body.List) {
				if s == loop {
					break
				}
				outs := pe.execStmt(st, s)
				if len(outs) != 1 || outs[0].Kind != "next" {
					R.undecided("C13.step", "pkg/syntax/zh.parseString", pos, "prologue not straight-line")
					return
				}
				st = outs[0].St
			}
			tkType = st.env[tkTypeObj]
			if tkType.K != vInt || tkType.I != typeConsts[fam.kind] {
				report(fmt.Sprintf("opening quote %c: token kind %v, want %s", fam.open, tkType, fam.kind))
			}
			if v := st.env[quoteNumObj]; v.K != vInt || v.I != 1 {
				report(fmt.Sprintf("opening quote %c: initial depth %v, want 1", fam.open, v))
			}
		}
		for depth := int64(1); depth <= 3; depth++ {
			for _, ch := range chars {
				for _, nx := range []rune{'x', '\r', '\n'} {
					if nx != 'x' && ch != '\r' && ch != '\n' {
						continue
					}
					nSteps++
					t := &tape{cur: 'q', n1: ch, n2: nx}
					pe := newPE(u, info, fd)
					pe.oracle = t.oracle(nil)
					st := newState()
					st.env[schObj] = intVal(int64(fam.open))
					st.env[quoteNumObj] = intVal(depth)
					st.env[literalObj] = Val{K: vStr, S: "ab"}
					st.env[tkTypeObj] = tkType
					outs := pe.exec(st, body.List)
					desc := fmt.Sprintf("open %c depth %d char %q next %q", fam.open, depth, ch, nx)
					if pe.failed != "" || len(outs) != 1 {
						report(desc + ": step not extractable " + pe.failed)
						continue
					}
					o := outs[0]
					lit := o.St.env[literalObj]
					dep := o.St.env[quoteNumObj]
					// reference
					switch {
					case ch == 0:
						if o.Kind != "return" || len(o.RetV) != 2 || o.RetV[1].K == vNil {
							report(desc + ": end of input inside a literal must be a syntax error")
						}
					case ch == fam.close && depth == 1:
						if o.Kind != "return" || len(o.RetV) != 2 || o.RetV[1].K != vNil {
							report(desc + ": own closing quote at depth 1 must end the literal")
							break
						}
						// returned token: Literal = text collected so far, Type = kind; cursor moved past the quote
						cl, ok := ast.Unparen(o.Ret[0]).(*ast.CompositeLit)
						okTok := ok
						if ok {
							for _, el := range cl.Elts {
								if kv, ok := el.(*ast.KeyValueExpr); ok {
									k := kv.Key.(*ast.Ident).Name
									v := pe.eval(o.St, kv.Value)
									if k == "Literal" && (v.K != vStr || v.S != "ab") {
										okTok = false
									}
									if k == "Type" && (v.K != vInt || v.I != typeConsts[fam.kind]) {
										okTok = false
									}
								}
							}
						}
						if !okTok || t.moved != 2 {
							report(desc + ": returned token does not carry exactly the collected text / kind, or the cursor is not moved past the closing quote")
						}
					default:
						if o.Kind != "next" && o.Kind != "continue" {
							report(desc + ": literal ended or failed on a character that must be taken verbatim (" + outcomeKey(o) + ")")
							break
						}
						wantLit := "ab" + string(ch)
						wantMoved := 1
						if (ch == '\r' && nx == '\n') || (ch == '\n' && nx == '\r') {
							wantLit += string(nx)
							wantMoved = 2
						}
						wantDepth := depth
						if ch == fam.open {
							wantDepth++
						}
						if ch == fam.close {
							wantDepth--
						}
						if lit.K != vStr || lit.S != wantLit {
							report(fmt.Sprintf("%s: text becomes %q, want %q (characters must be kept as written)", desc, lit.S, wantLit))
						}
						if dep.K != vInt || dep.I != wantDepth {
							report(fmt.Sprintf("%s: nesting depth becomes %v, want %d", desc, dep, wantDepth))
						}
						if t.moved != wantMoved {
							report(fmt.Sprintf("%s: cursor advanced by %d, want %d", desc, t.moved, wantMoved))
						}
					}
				}
			}
		}
	}
	R.check(nBad == 0, "C13.step", "pkg/syntax/zh.parseString", pos,
		fmt.Sprintf("all %d step-table entries (5 opening quotes x depth 1..3 x character classes) agree with the reference", nSteps),
		fmt.Sprintf("%d of %d step-table entries differ from the reference; first: %s", nBad, nSteps, firstBad))
	R.count("parseString_steps", nSteps)
	// the backtick case hands over to the escape machine
	f := u.ssaFunc("pkg/syntax/zh", "parseString")
	if f != nil {
		R.check(len(u.callsNamed(f, "pkg/syntax/zh.unescapeBackTickSpecialStr")) == 1, "C13.step", "parseString:backtick", pos, "backtick hands over to the escape machine", "backtick is no longer handed to the escape machine")
	}
}

// ---------- backtick escape machine

func checkBacktickMachine(c *Ctx, u *Universe) {
	R := c.R
	fd, p := u.funcDecl("pkg/syntax/zh", "unescapeBackTickSpecialStr")
	if fd == nil {
		R.lost("C13.escape", "pkg/syntax/zh.unescapeBackTickSpecialStr")
		return
	}
	info := p.TypesInfo
	pos := u.pos(fd.Pos())
	body, _ := findMachineLoop(fd)
	// roles, not names: state = the local assigned only local constants; hex-digit counter = the local the loop
	// increments; buffer of consumed characters = the local rune slice the loop appends to; the text collected so
	// far = the rune-slice parameter
	var stateObj, hexObj, bufObj, srcObj types.Object
	if sv := stateLikeVars(info, fd); len(sv) == 1 {
		stateObj = sv[0]
	}
	if body != nil {
		if cv := counterVars(info, body); len(cv) == 1 {
			hexObj = cv[0]
		}
		bufObj = selfAppendedLocal(info, body)
	}
	for _, f := range fd.Type.Params.List {
		for _, nm := range f.Names {
			if _, isSlice := info.TypeOf(f.Type).Underlying().(*types.Slice); isSlice {
				srcObj = info.Defs[nm]
			}
		}
	}
	if body == nil || stateObj == nil || hexObj == nil || bufObj == nil || srcObj == nil {
		R.undecided("C13.escape", "pkg/syntax/zh.unescapeBackTickSpecialStr", pos, "machine variables not identifiable (state / hex counter / consumed-characters buffer / collected text)")
		return
	}
	var begin int64
	ok := false
	if defs := definitionsOf(info, fd, stateObj); len(defs) > 0 {
		begin, ok = constInt(info, defs[0])
	}
	if !ok {
		R.undecided("C13.escape", "pkg/syntax/zh.unescapeBackTickSpecialStr", pos, "initial state constant not found")
		return
	}
	after := stmtsAfterLabel(fd, "")
	if after == nil {
		R.undecided("C13.escape", "pkg/syntax/zh.unescapeBackTickSpecialStr", pos, "keep-literal exit not found")
		return
	}
	exitLabel := exitLabelOf(fd)
	// cap for the hex counter: one above the largest constant it is compared with
	hexCap := int64(9)

	alphabet := []rune{'C', 'L', 'T', 'S', 'B', 'U', 'R', 'F', 'A', 'P', 'K', 'D', 'E', '0', '9', '+', '`', 'a', 'f', 'G', 'x', '中', ' ', 0, 0x201C, 0x201D, 0x300B}
	isQuote := func(r rune) bool {
		for _, f := range quoteFamilies {
			if r == f.open || r == f.close {
				return true
			}
		}
		return false
	}
	isHex := func(r rune) bool { return (r >= '0' && r <= '9') || (r >= 'A' && r <= 'F') }
	names := map[string]string{"CR": "\r", "LF": "\n", "CRLF": "\r\n", "TAB": "\t", "SP": " ", "BK": "`"}

	type cfg struct {
		state int64
		hex   int64
		buf   string // consumed characters, including the opening backtick
	}
	start := cfg{begin, 0, "`"}
	seen := map[cfg]bool{start: true}
	queue := []cfg{start}
	nCfg, nSteps, nBad := 0, 0, 0
	firstBad := ""
	report := func(msg string) {
		nBad++
		if firstBad == "" {
			firstBad = msg
		}
	}
	decodedNames := map[string]bool{}
	hexGuardOK := true
	sawHex := false
	for len(queue) > 0 {
		cf := queue[0]
		queue = queue[1:]
		nCfg++
		if nCfg > 20000 {
			R.undecided("C13.escape", "pkg/syntax/zh.unescapeBackTickSpecialStr", pos, "configuration space did not close")
			return
		}
		for _, ch := range alphabet {
			for _, ch2 := range []rune{'x', '`'} {
				if ch2 == '`' && !isQuote(ch) {
					continue
				}
				nSteps++
				rs := []rune(cf.buf)
				t := &tape{cur: rs[len(rs)-1], n1: ch, n2: ch2}
				pe := newPE(u, info, fd)
				pe.oracle = t.oracle(nil)
				st := newState()
				st.env[stateObj] = intVal(cf.state)
				st.env[hexObj] = intVal(cf.hex)
				st.env[bufObj] = Val{K: vStr, S: cf.buf}
				st.env[srcObj] = Val{K: vStr, S: "<"}
				outs := pe.exec(st, body.List)
				desc := fmt.Sprintf("after %q, next %q (then %q)", cf.buf, ch, ch2)
				if pe.failed != "" {
					report(desc + ": step not extractable: " + pe.failed)
					continue
				}
				// resolve the goto to the keep-literal exit
				var finals []Outcome
				for _, o := range outs {
					if o.Kind == "goto" && o.Label == exitLabel {
						finals = append(finals, pe.exec(o.St, after)...)
					} else {
						finals = append(finals, o)
					}
				}
				// reference behaviour for this step
				inner := cf.buf[1:] // text after the opening backtick
				for _, o := range finals {
					switch o.Kind {
					case "next", "continue":
						// machine goes on: must have consumed exactly ch
						nb := o.St.env[bufObj]
						ns, nh := o.St.env[stateObj], o.St.env[hexObj]
						if nb.K != vStr || nb.S != cf.buf+string(ch) || ns.K != vInt || nh.K != vInt || t.moved != 1 {
							report(desc + ": machine continues without recording exactly the consumed character")
							continue
						}
						if isQuote(ch) {
							report(desc + ": a quote character is consumed by the escape machine (it must stop before it or decode the lone-quote form)")
						}
						n := cfg{ns.I, nh.I, nb.S}
						// canonical form of the hex run: which hex digit was read never influences the
						// machine (every hex symbol is evaluated from every configuration), so the
						// stored history keeps '1's; runs longer than the cap are cut to the cap
						if strings.HasPrefix(n.buf, "`U+") && len(n.buf) > 3 && allHex(n.buf[3:], isHex) {
							k := int64(len(n.buf) - 3)
							if n.hex > hexCap {
								n.hex = hexCap
							}
							if k > hexCap {
								k = hexCap
							}
							n.buf = "`U+" + strings.Repeat("1", int(k))
						}
						if !seen[n] {
							seen[n] = true
							queue = append(queue, n)
						}
					case "return":
						if len(o.RetV) != 1 || o.RetV[0].K != vStr || !strings.HasPrefix(o.RetV[0].S, "<") {
							report(desc + ": result is not the source literal plus appended text")
							continue
						}
						got := o.RetV[0].S[1:]
						consumed := cf.buf
						if t.moved >= 1 {
							consumed += string(ch)
						}
						if t.moved >= 2 {
							consumed += string(ch2)
						}
						// classify by reference
						want := ""
						kind := "keep"
						switch {
						case isQuote(ch) && ch2 == '`' && inner == "":
							want, kind = string(ch), "lone-quote"
						case ch == '`' && names[inner] != "":
							want, kind = names[inner], "name"
						case ch == '`' && strings.HasPrefix(inner, "U+") && len(inner) >= 3 && len(inner) <= 10 && allHex(inner[2:], isHex) && cf.hex >= 1 && cf.hex <= 8:
							kind = "hex"
						}
						switch kind {
						case "lone-quote", "name":
							if got != want {
								report(fmt.Sprintf("%s: decodes to %q, want %q", desc, got, want))
							}
							if kind == "name" {
								decodedNames[inner] = true
							}
						case "hex":
							sawHex = true
							if strings.ContainsRune(got, unknownRune) && len([]rune(got)) == 1 {
								// decoded: must be under the validity guard
								as := strings.Join(o.St.assumed, " ; ")
								if !(strings.Contains(as, "$error == nil") && strings.Contains(as, "utf8.ValidRune(") && !strings.Contains(as, "!($error == nil)") && !strings.Contains(as, "!(utf8.ValidRune(")) {
									hexGuardOK = false
								}
							} else if got != consumed {
								report(fmt.Sprintf("%s: invalid-code-point path returns %q, want the text kept verbatim %q", desc, got, consumed))
							}
						default:
							if got != consumed {
								report(fmt.Sprintf("%s: returns %q, want the consumed text kept verbatim %q", desc, got, consumed))
							}
						}
					default:
						report(desc + ": unexpected exit " + outcomeKey(o))
					}
				}
			}
		}
	}
	var dn []string
	for n := range decodedNames {
		dn = append(dn, n)
	}
	sort.Strings(dn)
	if len(dn) != len(names) {
		report(fmt.Sprintf("escape names decoded: %v, want CR LF CRLF TAB SP BK", dn))
	}
	if !sawHex {
		report("no `U+hex` path decodes")
	}
	R.check(nBad == 0, "C13.escape", "pkg/syntax/zh.unescapeBackTickSpecialStr", pos,
		fmt.Sprintf("complete configuration space explored (%d configurations, %d steps): exactly %v and U+H{1,8} decode, lone quote only right after the backtick, everything else is kept verbatim", nCfg, nSteps, dn),
		fmt.Sprintf("%d deviations from the documented escape forms; first: %s", nBad, firstBad))
	R.check(hexGuardOK && sawHex, "C13.codepoint", "pkg/syntax/zh.unescapeBackTickSpecialStr:U+hex", pos,
		"a U+hex escape is decoded only when the parse succeeded and the value is a valid code point",
		"a U+hex escape is decoded without the err == nil && utf8.ValidRune guard (invalid code points become U+FFFD)")
	R.Extra["escape_configurations"] = nCfg
	R.Extra["escape_steps"] = nSteps
}

func allHex(s string, isHex func(rune) bool) bool {
	for _, r := range s {
		if !isHex(r) {
			return false
		}
	}
	return true
}
