package main

import (
	"fmt"
	"go/ast"
	"go/constant"
	"go/token"
	"go/types"
	"strings"

	"golang.org/x/tools/go/ssa"
	"sort"
)

func init() { register("C14", checkC14) }

func checkC14(c *Ctx) {
	R := c.R
	R.Explain = "Decided: (C14.units) text methods that take character positions never measure, index or slice the Go string (bytes) - only []rune - and 长度/字符组 count runes (type-based rule on SSA); " +
		"(C14.count) the placeholder/argument count comparison dominates every indexing of the argument list; (C14.tmpl) the template scanner's step table (3 states x {'{','}',other}) is extracted and equals " +
		"the reference: [kind,start,end) triples, '{' inside a placeholder and '}' outside one are errors, an unterminated placeholder is an error; (C14.directive) the directive machine's accepted language equals " +
		"[+]?(.D*)?[E%]? on ALL strings (product automaton) and the five documented forms map to the verbs %.6g %.Nf %+.6g %.Nf(x100)% %.NE; a '#' directive on a non-number and an unknown directive are errors; " +
		"(C14.bound) the precision accumulator is rejected inside the digit loop once it exceeds its bound (no overflow). Also: 长度/字数 count the current text on every call (no remembered count). C14.units covers every text method: the Go string is never sliced, indexed or measured by bytes (advancing by the decoder's size excepted). NOT decided: the digits fmt renders, 分隔/替换 semantics (delegated to package strings). (C14.runeerror) a decoded character is compared with utf8.RuneError only together with the decoded size."
	R.Assumptions = []string{"fmt.Sprintf renders %f/%E/%g as documented", "the reference step tables in c14.go transcribe manual ch.6"}
	u := c.Core()
	checkTextUnits(c, u)
	checkTemplateScanner(c, u)
	checkDirectiveMachine(c, u)
	u.buildSSA()
	ruleFormatConst(c, u, "C14.fmtconst")
	R.Exhaustive = true
}

// ---------- units

func checkTextUnits(c *Ctx, u *Universe) {
	R := c.R
	// every function of pkg/value that works on a *String and turns a number into an int position
	nPos := 0
	for _, f := range u.srcFuncs("pkg/value") {
		if f.Signature.Params().Len() == 0 || !namedTypeIs(f.Signature.Params().At(0).Type(), "pkg/value", "String") {
			continue
		}
		usesPositions := false
		for _, in := range instrsOf(f) {
			if cv, ok := in.(*ssa.Convert); ok {
				if b, ok := cv.X.Type().Underlying().(*types.Basic); ok && b.Info()&types.IsFloat != 0 {
					if b2, ok := cv.Type().Underlying().(*types.Basic); ok && b2.Info()&types.IsInteger != 0 {
						usesPositions = true
					}
				}
			}
		}
		// functions that take positions from the program are covered in every case; the other text methods must not
		// cut or measure the Go string by bytes either (a multi-byte separator / character would be split)
		_ = usesPositions
		nPos++
		key := u.fname(f)
		bad := ""
		for _, in := range instrsOf(f) {
			switch x := in.(type) {
			case *ssa.Slice:
				if isStringType(x.X.Type()) {
					// advancing by the size the UTF-8 decoder returned cuts at a character boundary
					if ex, isEx := x.Low.(*ssa.Extract); isEx && x.High == nil {
						if _, isSize := decodeRuneSize(ex); isSize {
							continue
						}
					}
					bad = "slices the Go string (byte offsets) at " + u.pos(x.Pos())
				}
			case *ssa.Index:
				if isStringType(x.X.Type()) {
					bad = "indexes the Go string (byte offsets) at " + u.pos(x.Pos())
				}
			case *ssa.Lookup:
				if isStringType(x.X.Type()) {
					bad = "indexes the Go string (byte offsets) at " + u.pos(x.Pos())
				}
			case *ssa.Call:
				if b, ok := x.Call.Value.(*ssa.Builtin); ok && b.Name() == "len" && len(x.Call.Args) == 1 && isStringType(x.Call.Args[0].Type()) {
					// "is anything left" tests (len(s) compared with 0) do not measure
					onlyEmptyTests := len(*x.Referrers()) > 0
					for _, r := range *x.Referrers() {
						bo, isB := r.(*ssa.BinOp)
						if !isB || !(isZeroConst(bo.Y) || isZeroConst(bo.X)) {
							onlyEmptyTests = false
						}
					}
					if !onlyEmptyTests {
						bad = "measures the Go string with len() (bytes, not characters) at " + u.pos(x.Pos())
					}
				}
			}
		}
		R.check(bad == "", "C14.units", key, u.pos(f.Pos()), "character positions are applied to []rune only", "character positions mixed with byte units: "+bad)
	}
	R.min("C14.units", 1)
	ruleRuneErrorSized(c, u, "C14.runeerror", []string{"pkg/value", "pkg/exec"})
	// ---- C14.dispatch: text % list is answered by the formatter, whatever the operands look like: in evalExpression every
	// normal answer given for the remainder operator is the result of evalArithTypeModuloExpr (no literal fast path that
	// skips the placeholder / argument count check)
	if g := u.ssaFunc("pkg/exec", "evalExpression"); g != nil {
		mod := constsWithPrefix(u.Pkgs["pkg/syntax"], "ArithModulo")["ArithModulo"]
		nM, okM := 0, true
		gTests := nilTests(g)
		for _, b := range g.Blocks {
			ifi, ok := b.Instrs[len(b.Instrs)-1].(*ssa.If)
			if !ok {
				continue
			}
			bo, ok := ifi.Cond.(*ssa.BinOp)
			if !ok || bo.Op != token.EQL {
				continue
			}
			k, isK := bo.Y.(*ssa.Const)
			if _, isT := fieldLoad(bo.X, "Type"); !isK || !isT || k.Int64() != mod {
				continue
			}
			nM++
			for _, rr := range returnsReachable(b.Succs[0], 0, nil) {
				if !edgeDominates(b, b.Succs[0], rr.Ret.Block()) || !normalReturn(g, rr.Ret, gTests) {
					continue
				}
				for _, src := range allSources(retValue(rr.Ret, 0)) {
					var call *ssa.Call
					switch x := src.(type) {
					case *ssa.Call:
						call = x
					case *ssa.Extract:
						call, _ = x.Tuple.(*ssa.Call)
					}
					if call == nil || u.callName(call) != "pkg/exec.evalArithTypeModuloExpr" {
						okM = false
					}
				}
			}
		}
		R.check(okM && nM >= 1, "C14.dispatch", "pkg/exec.evalExpression:remainder", u.pos(g.Pos()), "every answer for % comes from evalArithTypeModuloExpr", "evalExpression answers a % expression itself on some path (a fast path for literal operands): the formatter - and with it the 'placeholders and arguments differ in number' error - is skipped")
	}
	// 字符组 / 长度 / 取样 answer for the text itself: no package-level cache of their (mutable) results
	borrowRule(c, "C16", "C16.singletons", "C14.state")
	// siblings: 长度 counts runes, 字符组 decodes runes
	for _, s := range []struct{ fn, callee string }{{"strGetLength", "unicode/utf8.RuneCountInString"}, {"strGetCharArray", "unicode/utf8.DecodeRuneInString"}} {
		f := u.ssaFunc("pkg/value", s.fn)
		if f == nil {
			R.lost("C14.units", "pkg/value."+s.fn)
			continue
		}
		n := len(u.callsNamed(f, s.callee))
		bad := false
		for _, in := range instrsOf(f) {
			// `for _, ch := range text` decodes the same way (the language defines it through the UTF-8 decoder)
			if rg, ok := in.(*ssa.Range); ok && isStringType(rg.X.Type()) && s.fn == "strGetCharArray" {
				n++
			}
			if call, ok := in.(*ssa.Call); ok {
				if b, ok := call.Call.Value.(*ssa.Builtin); ok && b.Name() == "len" && isStringType(call.Call.Args[0].Type()) && s.fn == "strGetLength" {
					bad = true
				}
			}
		}
		R.check(n >= 1 && !bad, "C14.units", "pkg/value."+s.fn, u.pos(f.Pos()), "counts/decodes Unicode characters ("+s.callee+")", "does not count characters through "+s.callee)
		if s.fn == "strGetLength" {
			// the length is counted from the current text on every call (texts are rewritten in place by some
			// methods, so a remembered count goes stale)
			fresh, nn := true, 0
			for _, cs := range u.callsNamed(f, "pkg/value.NewNumber") {
				nn++
				var srcs []ssa.Value
				var expand func(v ssa.Value, seen map[ssa.Value]bool)
				expand = func(v ssa.Value, seen map[ssa.Value]bool) {
					if seen[v] {
						return
					}
					seen[v] = true
					switch x := v.(type) {
					case *ssa.Convert:
						expand(x.X, seen)
					case *ssa.Phi:
						for _, e := range x.Edges {
							expand(e, seen)
						}
					default:
						srcs = append(srcs, v)
					}
				}
				expand(cs.Common().Args[0], map[ssa.Value]bool{})
				for _, src := range srcs {
					call, isCall := src.(*ssa.Call)
					if isCall && u.callName(call) == s.callee {
						if _, isVal := fieldLoad(call.Call.Args[0], "value"); isVal {
							continue
						}
					}
					if isCall {
						if _, isLen := lenArg(call); isLen {
							continue
						}
					}
					fresh = false
				}
			}
			R.check(fresh && nn >= 1, "C14.units", "pkg/value.strGetLength:recounted", u.pos(f.Pos()), "the character count is computed from the text's current value on each call", "the reported length does not come (only) from counting the current text: a remembered count is stale after the text was rewritten in place")
		}
	}

	// C14.count: argument-count comparison dominates the indexing of the argument list
	f := u.ssaFunc("pkg/exec", "formatString")
	if f == nil {
		R.lost("C14.count", "pkg/exec.formatString")
		return
	}
	var idxs []*ssa.IndexAddr
	for _, in := range instrsOf(f) {
		if ia, ok := in.(*ssa.IndexAddr); ok {
			// the list returned by params.GetValue()
			if flowsFrom(ia.X, func(v ssa.Value) bool {
				call, ok := v.(*ssa.Call)
				return ok && u.callName(call) == "pkg/value.Array.GetValue"
			}) {
				idxs = append(idxs, ia)
			}
		}
	}
	if len(idxs) == 0 {
		R.viol("C14.count", "pkg/exec.formatString", u.pos(f.Pos()), "no indexing of the argument list found (rule would be vacuous)")
	}
	for i, ia := range idxs {
		guarded := false
		for _, b := range f.Blocks {
			ifi, ok := b.Instrs[len(b.Instrs)-1].(*ssa.If)
			if !ok {
				continue
			}
			bo, ok := ifi.Cond.(*ssa.BinOp)
			if !ok || (bo.Op != token.NEQ && bo.Op != token.EQL) {
				continue
			}
			isLen := func(v ssa.Value) bool {
				call, ok := v.(*ssa.Call)
				if !ok {
					return false
				}
				bi, ok := call.Call.Value.(*ssa.Builtin)
				return ok && bi.Name() == "len" && sameRoot(call.Call.Args[0], ia.X)
			}
			if !isLen(bo.X) && !isLen(bo.Y) {
				continue
			}
			eqSucc := b.Succs[1] // for NEQ the false edge means equal
			if bo.Op == token.EQL {
				eqSucc = b.Succs[0]
			}
			if edgeDominates(b, eqSucc, ia.Block()) {
				guarded = true
			}
		}
		R.check(guarded, "C14.count", fmt.Sprintf("pkg/exec.formatString:args[%d]", i), u.pos(ia.Pos()),
			"indexing the argument list is reachable only when #placeholders == #arguments", "the argument list is indexed without the placeholder/argument count check")
	}

	// directive type errors: '#' on a non-number and unknown directive return errors
	if fd, p := u.funcDecl("pkg/exec", "elementToString"); fd != nil {
		pe := newPE(u, p.TypesInfo, fd)
		var fmtObj types.Object
		for _, fl := range fd.Type.Params.List {
			for _, nm := range fl.Names {
				// the directive is the string parameter (whatever it is called)
				if b, ok := p.TypesInfo.TypeOf(fl.Type).Underlying().(*types.Basic); ok && b.Kind() == types.String {
					fmtObj = p.TypesInfo.Defs[nm]
				}
			}
		}
		okUnknown := false
		if fmtObj != nil {
			pe.oracle = func(pe *PE, st *peState, call *ast.CallExpr, id string) (Val, bool) {
				if id == "strings.HasPrefix" && len(call.Args) == 2 {
					a, b := pe.eval(st, call.Args[0]), pe.eval(st, call.Args[1])
					if a.K == vStr && b.K == vStr {
						return boolVal(strings.HasPrefix(a.S, b.S)), true
					}
				}
				return Val{}, false
			}
			st := newState()
			st.env[fmtObj] = Val{K: vStr, S: "?x"}
			outs := pe.exec(st, fd.Body.List)
			okUnknown = pe.failed == "" && len(outs) > 0
			for _, o := range outs {
				if o.Kind != "return" || len(o.RetV) != 2 || o.RetV[1].K == vNil {
					okUnknown = false
				}
			}
		}
		R.check(okUnknown, "C14.count", "pkg/exec.elementToString:unknown-directive", u.pos(fd.Pos()), "a directive that is neither empty nor #… is an error", "an unknown directive does not produce an error")
		// '#' on non-number: the *Number assertion is comma-ok with an error on failure
		if f2 := u.ssaFunc("pkg/exec", "elementToString"); f2 != nil {
			okAssert := false
			for _, in := range instrsOf(f2) {
				if ta, ok := in.(*ssa.TypeAssert); ok && ta.CommaOk && namedTypeIs(ta.AssertedType, "pkg/value", "Number") {
					okAssert = true
				}
				if ta, ok := in.(*ssa.TypeAssert); ok && !ta.CommaOk && namedTypeIs(ta.AssertedType, "pkg/value", "Number") {
					okAssert = false
					break
				}
			}
			R.check(okAssert, "C14.count", "pkg/exec.elementToString:#-on-non-number", u.pos(f2.Pos()), "numeric directive on a non-number is tested (comma-ok) and rejected", "numeric directive does not test the argument's type")
		}
	} else {
		R.lost("C14.count", "pkg/exec.elementToString")
	}
}

func isStringType(t types.Type) bool {
	b, ok := t.Underlying().(*types.Basic)
	return ok && b.Info()&types.IsString != 0
}

// sameRoot: two values load the same local / are the same SSA value
func sameRoot(a, b ssa.Value) bool {
	if a == b {
		return true
	}
	ra, rb := rootAlloc(a), rootAlloc(b)
	return ra != nil && ra == rb
}

func rootAlloc(v ssa.Value) ssa.Value {
	for i := 0; i < 8; i++ {
		switch x := v.(type) {
		case *ssa.UnOp:
			if x.Op == token.MUL {
				if a, ok := x.X.(*ssa.Alloc); ok {
					return a
				}
			}
			return nil
		case *ssa.Slice:
			v = x.X
		default:
			return v
		}
	}
	return nil
}

// ---------- template scanner

func checkTemplateScanner(c *Ctx, u *Universe) {
	R := c.R
	fd0, p := u.funcDecl("pkg/exec", "formatString")
	if fd0 == nil {
		R.lost("C14.tmpl", "pkg/exec.formatString")
		return
	}
	info := p.TypesInfo
	pos := u.pos(fd0.Pos())
	// the scanner is the character loop with a switch in formatString or in a helper it calls
	fd := fd0
	body, loop := findMachineLoop(fd)
	var idxObj, chObj types.Object
	if loop != nil {
		body, chObj, idxObj = elementLoopIdx(info, loop)
	}
	if body == nil {
		ast.Inspect(fd0.Body, func(n ast.Node) bool {
			call, ok := n.(*ast.CallExpr)
			if !ok {
				return true
			}
			if f := calleeFunc(info, call); f != nil && f.Pkg() == p.Types {
				if g, _ := u.funcDecl("pkg/exec", f.Name()); g != nil && g != fd0 {
					if _, l2 := findMachineLoop(g); l2 != nil && body == nil {
						if b2, c2, i2 := elementLoopIdx(info, l2); b2 != nil {
							fd, body, loop, chObj, idxObj = g, b2, l2, c2, i2
						}
					}
				}
			}
			return true
		})
	}
	if body == nil || chObj == nil || idxObj == nil {
		R.undecided("C14.tmpl", "pkg/exec.formatString", pos, "scanner loop not found")
		return
	}
	// roles, not names: state = the local assigned only local constants; stack = the local slice the loop appends
	// to; placeholder counter = the local the loop increments
	var stateObj, stackObj, countObj types.Object
	if sv := stateLikeVars(info, fd); len(sv) == 1 {
		stateObj = sv[0]
	}
	if cv := counterVars(info, body); len(cv) == 1 {
		countObj = cv[0]
	}
	ast.Inspect(body, func(n ast.Node) bool {
		if as, ok := n.(*ast.AssignStmt); ok && len(as.Lhs) == 1 && len(as.Rhs) == 1 {
			if call, ok := as.Rhs[0].(*ast.CallExpr); ok {
				if bi, isB := info.Uses[identOf(call.Fun)].(*types.Builtin); isB && bi.Name() == "append" && len(call.Args) >= 1 {
					if o := identObj(info, as.Lhs[0]); o != nil && o == identObj(info, call.Args[0]) {
						if stackObj == nil {
							stackObj = o
						} else if stackObj != o {
							stackObj = nil
							return false
						}
					}
				}
			}
		}
		return true
	})
	pkgConsts := constsWithPrefix(p, "fmtType")
	if idxObj == nil || chObj == nil || stateObj == nil || stackObj == nil || countObj == nil {
		R.undecided("C14.tmpl", "pkg/exec.formatString", pos, "scanner variables not identifiable (state / triple stack / placeholder counter)")
		return
	}
	tLit, tFmt := pkgConsts["fmtTypeLiteral"], pkgConsts["fmtTypeFormatter"]
	// the three states by role: B = the initial state, F = where '{' leads from B, L = where another character leads from B
	stepState := func(from int64, ch rune) int64 {
		pe := newPE(u, info, fd)
		st := newState()
		st.env[stateObj] = intVal(from)
		st.env[chObj] = intVal(int64(ch))
		st.env[idxObj] = intVal(7)
		st.env[stackObj] = Val{K: vStr, S: "S"}
		st.env[countObj] = intVal(0)
		outs := pe.exec(st, body.List)
		if pe.failed != "" || len(outs) != 1 || outs[0].St.env[stateObj].K != vInt {
			return 0
		}
		return outs[0].St.env[stateObj].I
	}
	var sB, sL, sF int64
	if defs := definitionsOf(info, fd, stateObj); len(defs) > 0 {
		sB, _ = constInt(info, defs[0])
	}
	if sB != 0 {
		sF, sL = stepState(sB, '{'), stepState(sB, 'a')
	}
	if sB == 0 || sL == 0 || sF == 0 || sB == sL || sB == sF || sL == sF || tLit == 0 || tFmt == 0 {
		R.undecided("C14.tmpl", "pkg/exec.formatString", pos, "state / kind constants not found")
		return
	}
	const idx = 7
	type exp struct {
		err   bool
		state int64
		push  []int64
		count int64
	}
	ref := map[[2]int64]exp{
		{sB, '{'}: {false, sF, []int64{tFmt, idx + 1}, 0},
		{sB, '}'}: {err: true},
		{sB, 'a'}: {false, sL, []int64{tLit, idx}, 0},
		{sL, '{'}: {false, sF, []int64{idx, tFmt, idx + 1}, 0},
		{sL, '}'}: {err: true},
		{sL, 'a'}: {false, sL, nil, 0},
		{sF, '{'}: {err: true},
		{sF, '}'}: {false, sB, []int64{idx}, 1},
		{sF, 'a'}: {false, sF, nil, 0},
	}
	nBad, first := 0, ""
	for key, want := range ref {
		for _, ch := range []rune{rune(key[1]), map[int64]rune{'a': '中', '{': '{', '}': '}'}[key[1]]} {
			pe := newPE(u, info, fd)
			st := newState()
			st.env[stateObj] = intVal(key[0])
			st.env[chObj] = intVal(int64(ch))
			st.env[idxObj] = intVal(idx)
			st.env[stackObj] = Val{K: vStr, S: "S"}
			st.env[countObj] = intVal(0)
			outs := pe.exec(st, body.List)
			desc := fmt.Sprintf("state %d char %q", key[0], ch)
			if pe.failed != "" || len(outs) != 1 {
				nBad++
				first = desc + ": not extractable " + pe.failed
				continue
			}
			o := outs[0]
			if want.err {
				if o.Kind != "return" || len(o.RetV) < 2 || o.RetV[len(o.RetV)-1].K == vNil {
					nBad++
					if first == "" {
						first = desc + ": malformed template is not rejected"
					}
				}
				continue
			}
			wantStack := "S"
			for _, x := range want.push {
				wantStack += string(rune(x))
			}
			gs, gst, gc := o.St.env[stackObj], o.St.env[stateObj], o.St.env[countObj]
			if (o.Kind != "next" && o.Kind != "continue") || gs.K != vStr || gs.S != wantStack || gst.K != vInt || gst.I != want.state || gc.K != vInt || gc.I != want.count {
				nBad++
				if first == "" {
					first = fmt.Sprintf("%s: next state %v (want %d), pushed %v (want %v), placeholders +%v (want %d)", desc, gst, want.state, []rune(strings.TrimPrefix(gs.S, "S")), want.push, gc, want.count)
				}
			}
		}
	}
	R.check(nBad == 0, "C14.tmpl", "pkg/exec.formatString:step-table", pos, "3 states x {'{','}',other}: [kind,start,end) triples, '{' inside / '}' outside a placeholder rejected", fmt.Sprintf("%d step-table entries differ; first: %s", nBad, first))

	// after the loop: literal closed with len, unterminated placeholder rejected (stack not a multiple of 3)
	var after []ast.Stmt
	for i, s := range flatStmts(fd.Body.List) {
		if s == loop {
			after = flatStmts(fd.Body.List)[i+1:]
		}
	}
	okPost := true
	why := ""
	for _, tc := range []struct {
		state int64
		stack string
		err   bool
	}{{sL, "abcde", false}, {sF, "abcde", true}, {sB, "abcdef", false}, {sB, "", false}} {
		pe := newPE(u, info, fd)
		pe.oracle = func(pe *PE, st *peState, call *ast.CallExpr, id string) (Val, bool) {
			if id == "builtin.len" && len(call.Args) == 1 {
				if v := pe.eval(st, call.Args[0]); v.K == vStr {
					return intVal(int64(len([]rune(v.S)))), true
				}
				return intVal(0), true // number of arguments = number of placeholders (0)
			}
			return Val{}, false
		}
		st := newState()
		st.env[stateObj] = intVal(tc.state)
		st.env[stackObj] = Val{K: vStr, S: tc.stack}
		st.env[countObj] = intVal(0)
		// run only up to the triple check: the first return decides
		outs := pe.exec(st, after)
		rejected := false
		for _, o := range outs {
			if o.Kind == "return" && len(o.RetV) >= 2 && o.RetV[len(o.RetV)-1].K != vNil && len(o.St.assumed) == 0 {
				rejected = true
			}
		}
		if rejected != tc.err {
			okPost = false
			why = fmt.Sprintf("end state %d with %d stack entries: rejected=%v, want %v", tc.state, len(tc.stack), rejected, tc.err)
		}
	}
	R.check(okPost, "C14.tmpl", "pkg/exec.formatString:end", pos, "a trailing literal is closed and an unterminated placeholder is an error", "end-of-template handling differs: "+why)
}

// ---------- directive machine

func checkDirectiveMachine(c *Ctx, u *Universe) {
	R := c.R
	fd0, p := u.funcDecl("pkg/exec", "parseNumberFormatter")
	if fd0 == nil {
		R.lost("C14.directive", "pkg/exec.parseNumberFormatter")
		return
	}
	info := p.TypesInfo
	pos := u.pos(fd0.Pos())
	// the machine is the character loop with a switch, in the function itself or in a helper it calls
	fd := fd0
	var body *ast.BlockStmt
	var chObj types.Object
	_, loop := findMachineLoop(fd)
	if loop != nil {
		body, chObj = elementLoop(info, loop)
	}
	if body == nil {
		ast.Inspect(fd0.Body, func(n ast.Node) bool {
			call, ok := n.(*ast.CallExpr)
			if !ok || body != nil {
				return true
			}
			if f := calleeFunc(info, call); f != nil && f.Pkg() == p.Types {
				if g, _ := u.funcDecl("pkg/exec", f.Name()); g != nil && g != fd0 {
					if _, l2 := findMachineLoop(g); l2 != nil {
						if b2, c2 := elementLoop(info, l2); b2 != nil {
							fd, body, chObj, loop = g, b2, c2, l2
						}
					}
				}
			}
			return true
		})
	}
	if body == nil {
		R.undecided("C14.directive", "pkg/exec.parseNumberFormatter", pos, "directive loop not found")
		return
	}
	// the machine's variables are whatever the statements before the loop initialise to constants (no names
	// assumed; fields of a local struct count one by one); variables the loop body assigns from non-constant
	// expressions are accumulators
	var before []ast.Stmt
	for i, st := range flatStmts(fd.Body.List) {
		if st == loop {
			before = flatStmts(fd.Body.List)[:i]
		}
	}
	pe0 := newPE(u, info, fd)
	outs0 := pe0.exec(newState(), before)
	if chObj == nil || pe0.failed != "" || len(outs0) != 1 || outs0[0].Kind != "next" {
		R.undecided("C14.directive", "pkg/exec.parseNumberFormatter", pos, "statements before the directive loop are not a plain initialisation: "+pe0.failed)
		return
	}
	type mvar struct {
		o types.Object
		f string
	}
	var vars []mvar
	for o, v := range outs0[0].St.env {
		switch v.K {
		case vInt, vBool:
			vars = append(vars, mvar{o, ""})
		case vStruct:
			for f, fv := range v.F {
				if fv.K == vInt || fv.K == vBool {
					vars = append(vars, mvar{o, f})
				}
			}
		}
	}
	sort.Slice(vars, func(i, j int) bool {
		if vars[i].o.Pos() != vars[j].o.Pos() {
			return vars[i].o.Pos() < vars[j].o.Pos()
		}
		return vars[i].f < vars[j].f
	})
	lvalVar := func(l ast.Expr) (mvar, bool) {
		if o := identObj(info, l); o != nil {
			return mvar{o, ""}, true
		}
		if se, ok := ast.Unparen(l).(*ast.SelectorExpr); ok {
			if o := identObj(info, se.X); o != nil {
				return mvar{o, se.Sel.Name}, true
			}
		}
		return mvar{}, false
	}
	accum := map[mvar]bool{}
	ast.Inspect(body, func(n ast.Node) bool {
		if as, ok := n.(*ast.AssignStmt); ok && len(as.Lhs) == len(as.Rhs) {
			for i, l := range as.Lhs {
				if mv, ok := lvalVar(l); ok {
					if _, isConst := pe0.constOf(as.Rhs[i]); !isConst || as.Tok != token.ASSIGN {
						accum[mv] = true
					}
				}
			}
		}
		if id, ok := n.(*ast.IncDecStmt); ok {
			if mv, ok := lvalVar(id.X); ok {
				accum[mv] = true
			}
		}
		return true
	})
	var accVars []mvar
	for _, o := range vars {
		if accum[o] {
			accVars = append(accVars, o)
		}
	}
	if len(vars) < 2 {
		R.undecided("C14.directive", "pkg/exec.parseNumberFormatter", pos, "machine variables not found")
		return
	}
	type cfg string // canonical rendering of the machine variables
	envOf := func(cf map[mvar]Val) cfg {
		var sb strings.Builder
		for _, o := range vars {
			fmt.Fprintf(&sb, "%s;", cf[o].String())
		}
		return cfg(sb.String())
	}
	read := func(st *peState, mv mvar) Val {
		v := st.env[mv.o]
		if mv.f != "" {
			return v.F[mv.f]
		}
		return v
	}
	snapshot := func(st *peState) (map[mvar]Val, bool) {
		m := map[mvar]Val{}
		for _, o := range vars {
			v := read(st, o)
			if v.K != vInt && v.K != vBool {
				return nil, false
			}
			m[o] = v
		}
		return m, true
	}
	load := func(cf map[mvar]Val) *peState {
		st := outs0[0].St.clone()
		for mv, v := range cf {
			if mv.f == "" {
				st.env[mv.o] = v
				continue
			}
			f := map[string]Val{}
			for k, fv := range st.env[mv.o].F {
				f[k] = fv
			}
			f[mv.f] = v
			st.env[mv.o] = Val{K: vStruct, F: f}
		}
		return st
	}
	step := func(cf map[mvar]Val, ch rune) (map[mvar]Val, string) {
		pe := newPE(u, info, fd)
		st := load(cf)
		st.env[chObj] = intVal(int64(ch))
		outs := pe.exec(st, body.List)
		if pe.failed != "" || len(outs) != 1 {
			return cf, "?" + pe.failed
		}
		o := outs[0]
		if o.Kind == "return" {
			if len(o.RetV) == 2 && o.RetV[1].K != vNil {
				return cf, "error"
			}
			return cf, "?returns a value inside the loop"
		}
		n, ok := snapshot(o.St)
		if !ok {
			return cf, "?state not constant"
		}
		return n, "ok"
	}
	initial, _ := snapshot(outs0[0].St)
	// language equivalence with [+]?(\.D*)?[E%]? on all strings
	alphabet := []rune{'p', '.', 'E', '%', 'D', 'x'}
	ref := compileRegex(`p?(\.D*)?(E|%)?`, nil, alphabet)
	concrete := map[rune][]rune{'p': {'+'}, '.': {'.'}, 'E': {'E'}, '%': {'%'}, 'D': {'0', '5', '9'}, 'x': {'e', 'f', '-', 'G', ' ', '中', '#'}}
	type prod struct {
		c    cfg
		dead bool
		r    int
	}
	envs := map[cfg]map[mvar]Val{envOf(initial): initial}
	start := prod{envOf(initial), false, 0}
	seen := map[prod]bool{start: true}
	type item struct {
		p prod
		w string
	}
	queue := []item{{start, ""}}
	mismatch := ""
	nStates := 0
	for len(queue) > 0 && mismatch == "" {
		it := queue[0]
		queue = queue[1:]
		nStates++
		if nStates > 20000 {
			R.undecided("C14.directive", "pkg/exec.parseNumberFormatter", pos, "state space of the directive machine does not close")
			return
		}
		implAcc := !it.p.dead
		if implAcc != ref.accepts(it.p.r) {
			mismatch = fmt.Sprintf("directive %q: machine accepts=%v, documented form accepts=%v", "#"+it.w, implAcc, ref.accepts(it.p.r))
			break
		}
		for _, sym := range alphabet {
			for _, ch := range concrete[sym] {
				n := prod{it.p.c, it.p.dead, ref.step(it.p.r, sym)}
				if !it.p.dead {
					nc, res := step(envs[it.p.c], ch)
					switch {
					case res == "ok":
						// accumulator values do not influence acceptance below the bound (C14.bound)
						for _, o := range accVars {
							nc[o] = intVal(0)
						}
						n.c = envOf(nc)
						envs[n.c] = nc
					case res == "error":
						n.dead = true
					default:
						R.undecided("C14.directive", "pkg/exec.parseNumberFormatter", pos, "step not extractable: "+res)
						return
					}
				}
				if !seen[n] {
					seen[n] = true
					queue = append(queue, item{n, it.w + string(ch)})
				}
			}
		}
	}
	R.check(mismatch == "", "C14.directive", "pkg/exec.parseNumberFormatter:language", pos,
		fmt.Sprintf("accepted directives = [+]?(.D*)?[E%%]? on all strings (%d product states explored)", nStates), mismatch)

	// verbs of the documented forms: run the machine on the directive, then the statements after the loop;
	// the rendering call fmt.Sprintf(verb, number) is observed wherever the verb was assembled
	const marker = "\x00RENDER\x00"
	// the whole function is executed on the directive text (the loop unrolls over the known characters; helpers
	// the function is split into are entered)
	var fmtParam types.Object
	for _, fld := range fd0.Type.Params.List {
		for _, nm := range fld.Names {
			if b, ok := info.TypeOf(nm).Underlying().(*types.Basic); ok && b.Info()&types.IsString != 0 && fmtParam == nil {
				fmtParam = info.Defs[nm]
			}
		}
	}
	run := func(directive string) (verb string, times100 bool, pctSuffix bool, ok bool) {
		if fmtParam == nil {
			return "", false, false, false
		}
		pe := newPE(u, info, fd0)
		pe.oracle = func(pe *PE, st *peState, call *ast.CallExpr, id string) (Val, bool) {
			if id == "fmt.Sprintf" && len(call.Args) == 2 {
				f, a := pe.eval(st, call.Args[0]), pe.eval(st, call.Args[1])
				if f.K == vStr && a.K == vInt && f.S == ".%d" {
					return Val{K: vStr, S: fmt.Sprintf(".%d", a.I)}, true
				}
				if f.K == vStr && strings.HasPrefix(f.S, "%") && a.K != vInt {
					verb = f.S
					times100 = false
					if be, ok := ast.Unparen(call.Args[1]).(*ast.BinaryExpr); ok && be.Op == token.MUL {
						if k, ok := pe.constOf(be.Y); ok && k.K == vInt && k.I == 100 {
							times100 = true
						}
						if k, ok := pe.constOf(be.X); ok && k.K == vInt && k.I == 100 {
							times100 = true
						}
					}
					return Val{K: vStr, S: marker}, true
				}
			}
			return Val{}, false
		}
		st := newState()
		st.env[fmtParam] = Val{K: vStr, S: directive}
		outs := pe.exec(st, fd0.Body.List)
		if pe.failed != "" || len(outs) != 1 || outs[0].Kind != "return" || len(outs[0].RetV) == 0 {
			return "", false, false, false
		}
		switch rv := outs[0].RetV[0]; {
		case rv.K == vStr && rv.S == marker:
		case rv.K == vStr && rv.S == marker+"%":
			pctSuffix = true
		default:
			return "", false, false, false
		}
		return verb, times100, pctSuffix, verb != ""
	}
	forms := []struct {
		d, verb string
		pct     bool
	}{{"", "%.6g", false}, {".3", "%.3f", false}, {"+", "%+.6g", false}, {".2%", "%.2f", true}, {".4E", "%.4E", false}, {"E", "%E", false}, {".0", "%.0f", false}}
	for _, fm := range forms {
		verb, t100, suf, ok := run(fm.d)
		good := ok && verb == fm.verb && t100 == fm.pct && suf == fm.pct
		R.check(good, "C14.directive", "form {#"+fm.d+"}", pos, "renders with verb "+fm.verb+map[bool]string{true: " of value x100 followed by %", false: ""}[fm.pct],
			fmt.Sprintf("documented form {#%s}: verb %q x100=%v %%suffix=%v, want %q percent=%v", fm.d, verb, t100, suf, fm.verb, fm.pct))
	}
	R.min("C14.directive", 8)

	// C14.bound: inside the digit loop an accumulator above the bound is rejected
	okSmall, okBig := false, true
	fixedState := int64(-1)
	if afterDot, res := step(initial, '.'); res == "ok" && len(accVars) == 1 {
		fixedState = 1
		acc := accVars[0]
		with := func(v int64) map[mvar]Val {
			m := map[mvar]Val{}
			for o, x := range afterDot {
				m[o] = x
			}
			m[acc] = intVal(v)
			return m
		}
		if n, res := step(with(3), '7'); res == "ok" && n[acc].I == 37 {
			okSmall = true
		}
		for _, big := range []int64{10_000_000, 1_000_000_000_000, 100_000_000_000_000_000} {
			if _, res := step(with(big), '9'); res != "error" {
				okBig = false
			}
		}
	}
	R.check(okSmall && okBig && fixedState >= 0, "C14.bound", "pkg/exec.parseNumberFormatter:precision", pos,
		"precision digits accumulate as x*10+d and an accumulator beyond the bound is rejected inside the loop (cannot overflow)",
		"the precision accumulator is not bounded inside the digit loop (a long digit run overflows int before any check)")
}

// ruleRuneErrorSized: a decoded character is compared with utf8.RuneError only together with the decoded size (size 1 =
// undecodable byte; the legitimate character U+FFFD decodes with size 3): otherwise text operations drop or reject a
// character the text really contains
func ruleRuneErrorSized(c *Ctx, u *Universe, rule string, rels []string) {
	R := c.R
	n, nBad := 0, 0
	for _, rel := range rels {
		for _, f := range u.srcFuncs(rel) {
			for _, b := range f.Blocks {
				ifi, ok := b.Instrs[len(b.Instrs)-1].(*ssa.If)
				if !ok {
					continue
				}
				bo, ok := ifi.Cond.(*ssa.BinOp)
				if !ok || (bo.Op != token.EQL && bo.Op != token.NEQ) {
					continue
				}
				var dec *ssa.Call
				for _, pr := range [][2]ssa.Value{{bo.X, bo.Y}, {bo.Y, bo.X}} {
					k, isK := pr[1].(*ssa.Const)
					ex, isEx := pr[0].(*ssa.Extract)
					if !isK || !isEx || k.Value == nil || k.Value.Kind() != constant.Int || k.Int64() != 0xFFFD || ex.Index != 0 {
						continue
					}
					if call, isCall := ex.Tuple.(*ssa.Call); isCall && strings.HasPrefix(u.callName(call), "unicode/utf8.DecodeRune") {
						dec = call
					}
				}
				if dec == nil {
					continue
				}
				n++
				// the size of the same decoding step is tested in this block's condition chain: in the successor taken when
				// the character equals RuneError, or in a dominating block
				isSizeTest := func(blk *ssa.BasicBlock) bool {
					i2, ok := blk.Instrs[len(blk.Instrs)-1].(*ssa.If)
					if !ok {
						return false
					}
					b2, ok := i2.Cond.(*ssa.BinOp)
					if !ok {
						return false
					}
					for _, v := range []ssa.Value{b2.X, b2.Y} {
						if ex, ok := v.(*ssa.Extract); ok && ex.Tuple == ssa.Value(dec) && ex.Index == 1 {
							return true
						}
					}
					return false
				}
				eqSucc := b.Succs[0]
				if bo.Op == token.NEQ {
					eqSucc = b.Succs[1]
				}
				ok2 := isSizeTest(eqSucc)
				for _, d := range f.Blocks {
					if d != b && d.Dominates(b) && isSizeTest(d) {
						ok2 = true
					}
				}
				if !ok2 {
					nBad++
				}
				R.check(ok2, rule, u.fname(f)+":rune-error-with-size", u.pos(ifi.Cond.Pos()), "RuneError is told from the character U+FFFD by the decoded size", "a decoded character is compared with utf8.RuneError without looking at the decoded size: the legitimate character U+FFFD (size 3) is treated like an undecodable byte - it is dropped from / rejected in the text, so character counts and slices disagree")
			}
		}
	}
	if n == 0 {
		R.hold(rule, "rune-error-comparisons", "", "no comparison of a decoded character with utf8.RuneError in "+strings.Join(rels, ", "))
	}
	_ = nBad
}
