package main

import (
	"fmt"
	"go/token"
	"go/types"
	"strings"

	"golang.org/x/tools/go/ssa"
)

func init() { register("C07", checkC07) }

func isDupCall(u *Universe, in ssa.Instruction) bool {
	return isCallTo(u, in, "pkg/value.DuplicateValue")
}

// isContainerData: the value is (or carries) data owned by a list/dictionary: an Element
// interface value, a slice of them, a map of them or a key-order slice
func isContainerData(t types.Type) bool {
	switch x := t.Underlying().(type) {
	case *types.Slice:
		return true
	case *types.Map:
		return true
	case *types.Interface:
		_ = x
		return isElementIface(t)
	case *types.Pointer:
		return namedTypeIs(t, "pkg/value", "Array") || namedTypeIs(t, "pkg/value", "HashMap")
	}
	return false
}

func checkC07(c *Ctx) {
	R := c.R
	R.Explain = "Decided on SSA: (C07.bind) the value bound by 令 and stored by = (variable, element and key assignment) is the result of value.DuplicateValue applied to the evaluated right-hand side, and in a multi-name " +
		"declaration a DuplicateValue call lies on every cycle through the Declare call (one copy per name); (C07.dup) inside DuplicateValue no Element, slice or map loaded from the source list/dictionary " +
		"(its value / keyOrder fields) reaches the result except through a recursive DuplicateValue call (taint flow with DuplicateValue as the only cleanser), for lists and dictionaries alike; objects, methods, types and 空 are returned by identity; " +
		"(C07.obj) NewObject passes every class default through DuplicateValue; (C07.fresh) literal evaluation returns fresh allocations; (C07.store) no caller of Array.GetValue()/HashMap.GetValue()/GetKeyOrder() writes through the returned backing store. " +
		"(C07.ctor) NewNumber / NewString / NewArray / NewHashMap / NewEmptyHashMap / NewObject return a value allocated by that very call; (C07.adopt) no store of Array.value / HashMap.value / HashMap.keyOrder stores another object's backing store. NOT decided: aliasing through method results used inside one expression chain, parameter and loop-variable passing (by reference in this implementation; the statement speaks of declaring and assigning). (C07.objshare) Object.GetProperty returns the stored element itself, never a copy."
	R.Assumptions = []string{"value.NewArray/NewHashMap/NewString/NewNumber/NewBool allocate new objects", "String, Number, Bool are immutable apart from the mutators inventoried in C16"}
	u := c.Core()
	u.buildSSA()

	// ---- C07.bind : 令
	if f := u.ssaFunc("pkg/exec", "evalVarDeclareStmt"); f != nil {
		decls := u.callsNamed(f, "pkg/runtime.VM.DeclareElement", "pkg/runtime.VM.DeclareConstElement")
		if len(decls) < 2 {
			R.viol("C07.bind", "pkg/exec.evalVarDeclareStmt", u.pos(f.Pos()), "expected the two Declare sites of 令")
		}
		isDecl := func(x ssa.Instruction) bool {
			return isCallTo(u, x, "pkg/runtime.VM.DeclareElement", "pkg/runtime.VM.DeclareConstElement")
		}
		for _, d := range decls {
			key := "pkg/exec.evalVarDeclareStmt:" + siteName(u, f, d)
			val := d.Common().Args[2]
			fromDup := true
			for _, s := range allSources(val) {
				if cv, ok := s.(*ssa.Call); !ok || !isDupCall(u, cv) {
					fromDup = false
				}
			}
			R.check(fromDup, "C07.bind", key+":value", u.pos(d.Pos()), "declared value is a DuplicateValue result", "令 binds the evaluated value itself (no copy): the new name aliases the source list/dictionary")
			w := reachableAvoiding(d.Block(), instrIndex(d)+1, isDecl, func(x ssa.Instruction) bool { return isDupCall(u, x) })
			R.check(w == nil, "C07.bind", key+":per-name", u.pos(d.Pos()), "every further name of the same statement gets its own DuplicateValue", "a second name of the same 令 statement can be bound without a fresh copy (names share one list/dictionary)")
		}
	} else {
		R.lost("C07.bind", "pkg/exec.evalVarDeclareStmt")
	}
	// =
	if f := u.ssaFunc("pkg/exec", "evalVarAssignExpr"); f != nil {
		sinks := u.callsNamed(f, "pkg/runtime.VM.SetElement", "pkg/value.IV.ReduceLHS")
		if len(sinks) < 2 {
			R.viol("C07.bind", "pkg/exec.evalVarAssignExpr", u.pos(f.Pos()), "expected the variable and the element/key assignment sites")
		}
		for _, s := range sinks {
			args := s.Common().Args
			val := args[len(args)-1]
			fromDup := true
			for _, src := range allSources(val) {
				if cv, ok := src.(*ssa.Call); !ok || !isDupCall(u, cv) {
					fromDup = false
				}
			}
			R.check(fromDup, "C07.bind", "pkg/exec.evalVarAssignExpr:"+siteName(u, f, s), u.pos(s.Pos()), "assigned value is a DuplicateValue result", "= stores the evaluated value itself (no copy)")
		}
	} else {
		R.lost("C07.bind", "pkg/exec.evalVarAssignExpr")
	}
	R.min("C07.bind", 6)

	ruleDupDeep(c, u, "C07.dup")
	ruleNewObjectCopies(c, u, "C07.obj")
	ruleFreshLiteralsAndStores(c, u)
	// independent copies need independent storage: no package-level value (a shared empty backing array, a pool) is
	// handed out by the constructors (rules of C16.singletons)
	borrowRule(c, "C16", "C16.singletons", "C07.state")

	// ---- C07.objshare: objects are shared by reference, so reading a property hands out the stored value itself:
	// Object.GetProperty returns the element found in the property table (or the object), never something built
	// from it (a copy would make every in-place change through the object act on a throw-away value)
	if f := u.ssaFunc("pkg/value", "Object.GetProperty"); f != nil {
		bad := ""
		n := 0
		tests := nilTests(f)
		for _, b := range f.Blocks {
			ret, ok := b.Instrs[len(b.Instrs)-1].(*ssa.Return)
			if !ok || len(ret.Results) != 2 || !normalReturn(f, ret, tests) {
				continue
			}
			for _, src := range allSources(retValue(ret, 0)) {
				n++
				switch x := src.(type) {
				case *ssa.Parameter:
					continue
				case *ssa.Extract:
					if lk, isLk := x.Tuple.(*ssa.Lookup); isLk && containerFieldOf(lk.X) == "Object.propList" {
						continue
					}
				case *ssa.Lookup:
					if containerFieldOf(x.X) == "Object.propList" {
						continue
					}
				}
				bad = u.pos(ret.Pos())
			}
		}
		R.check(bad == "" && n >= 2, "C07.objshare", "pkg/value.Object.GetProperty", u.pos(f.Pos()), "a property read yields the stored element itself", "reading an object's property yields something other than the stored element (return at "+bad+"): in-place changes made through a variable holding the object (后增, 自增, 之X#1 = …) are not visible through the other variables holding it")
	} else {
		R.lost("C07.objshare", "pkg/value.Object.GetProperty")
	}
}

// ruleDupDeep - DuplicateValue is a deep copy for lists and dictionaries, identity for objects
func ruleDupDeep(c *Ctx, u *Universe, rule string) {
	R := c.R
	if f := u.ssaFunc("pkg/value", "DuplicateValue"); f != nil {
		pos := u.pos(f.Pos())
		// sources: loads of the fields value / keyOrder of the (type-asserted) input
		isSrc := func(v ssa.Value) bool {
			un, ok := v.(*ssa.UnOp)
			if !ok || un.Op != token.MUL {
				return false
			}
			fa, ok := un.X.(*ssa.FieldAddr)
			if !ok {
				return false
			}
			n := fieldAddrName(fa)
			return n == "Array.value" || n == "HashMap.value" || n == "HashMap.keyOrder"
		}
		tainted := taintedValues(f, taintSpec{
			source:  isSrc,
			cleanse: func(call *ssa.Call) bool { return isDupCall(u, call) },
		})
		nSrc := 0
		for v := range tainted {
			if isSrc(v) {
				nSrc++
			}
		}
		if nSrc < 3 {
			R.viol(rule, "pkg/value.DuplicateValue:sources", pos, fmt.Sprintf("expected loads of Array.value, HashMap.value and HashMap.keyOrder in the copy routine, found %d (a container kind is no longer walked)", nSrc))
		}
		// sinks: tainted container data stored anywhere, passed to a call other than DuplicateValue, or returned
		nSink := 0
		bad := ""
		for _, in := range instrsOf(f) {
			switch x := in.(type) {
			case *ssa.Store:
				if tainted[x.Val] && isContainerData(x.Val.Type()) {
					if _, isAlloc := x.Addr.(*ssa.Alloc); isAlloc {
						continue // local variable, followed by the taint engine
					}
					nSink++
					bad = fmt.Sprintf("a %s taken from the source container is stored into the copy at %s", x.Val.Type(), u.pos(x.Pos()))
				}
			case *ssa.Call:
				if isDupCall(u, x) {
					continue
				}
				if b, ok := x.Call.Value.(*ssa.Builtin); ok && (b.Name() == "len" || b.Name() == "cap") {
					continue
				}
				for _, a := range x.Call.Args {
					if tainted[a] && isContainerData(a.Type()) {
						nSink++
						bad = fmt.Sprintf("a %s taken from the source container is passed to %s at %s", a.Type(), u.callName(x), u.pos(x.Pos()))
					}
				}
			case *ssa.MapUpdate:
				if tainted[x.Value] && isContainerData(x.Value.Type()) {
					nSink++
					bad = "a value of the source container is stored into a map of the copy at " + u.pos(x.Pos())
				}
			case *ssa.Return:
				for i := range x.Results {
					if rv := retValue(x, i); tainted[rv] {
						nSink++
						bad = "data of the source container is returned directly at " + u.pos(x.Pos())
					}
				}
			}
		}
		R.check(nSink == 0, rule, "pkg/value.DuplicateValue:deep", pos,
			"nothing owned by the source list/dictionary (elements, nested containers, key order) reaches the copy except through a recursive DuplicateValue", "the copy shares data with its source: "+bad)
		// both container kinds produce a fresh container
		for _, k := range []struct{ typ, ctor string }{{"Array", "pkg/value.NewArray"}, {"HashMap", "pkg/value.NewHashMap"}} {
			okK := false
			for _, in := range instrsOf(f) {
				if ta, ok := in.(*ssa.TypeAssert); ok && namedTypeIs(ta.AssertedType, "pkg/value", k.typ) {
					okK = true
				}
			}
			okK = okK && len(u.callsNamed(f, k.ctor)) >= 1
			R.check(okK, rule, "pkg/value.DuplicateValue:"+k.typ, pos, "has a copying case building a new "+k.typ, "no copying case for *"+k.typ)
		}
		// objects are shared: no case constructs a new Object
		R.check(len(u.callsNamed(f, "pkg/value.NewObject")) == 0, rule, "pkg/value.DuplicateValue:Object", pos, "objects are returned by identity (shared by reference)", "objects are copied on assignment")
	} else {
		R.lost(rule, "pkg/value.DuplicateValue")
	}

}

// ruleNewObjectCopies - every class default goes through DuplicateValue
func ruleNewObjectCopies(c *Ctx, u *Universe, rule string) {
	R := c.R
	if f := u.ssaFunc("pkg/value", "NewObject"); f != nil {
		isSrc := func(v ssa.Value) bool {
			call, ok := v.(*ssa.Call)
			return ok && u.callName(call) == "pkg/value.ClassModel.GetPropList"
		}
		tainted := taintedValues(f, taintSpec{source: isSrc, cleanse: func(call *ssa.Call) bool { return isDupCall(u, call) }})
		n, bad := 0, 0
		for _, in := range instrsOf(f) {
			if mu, ok := in.(*ssa.MapUpdate); ok {
				n++
				if tainted[mu.Value] {
					bad++
				}
			}
		}
		R.check(n >= 2 && bad == 0 && len(u.callsNamed(f, "pkg/value.DuplicateValue")) >= 1, rule, "pkg/value.NewObject", u.pos(f.Pos()),
			"every class default put into a new object went through DuplicateValue", "a class default value is shared between the type and its instances")
		// NewObject takes the entries of initProps as they are: no caller may hand it the class defaults themselves
		nCall := 0
		for _, cs := range u.staticCallers(f) {
			nCall++
			g := cs.Parent()
			arg := cs.Common().Args[1]
			shared := flowsFrom(arg, func(v ssa.Value) bool {
				if call, ok := v.(*ssa.Call); ok && u.callName(call) == "pkg/value.ClassModel.GetPropList" {
					return true
				}
				if _, ok := fieldLoad(v, "propList"); ok {
					return true
				}
				return false
			})
			R.check(!shared, rule, u.fname(g)+":"+siteName(u, g, cs)+":initProps", u.pos(cs.Pos()), "the initial properties handed to NewObject are not the type's own default table", "the type's default property table is passed as initial properties: NewObject stores those values uncopied, so all objects of the type share them")
		}
		if nCall == 0 {
			R.viol(rule, "pkg/value.NewObject:callers", u.pos(f.Pos()), "no caller of NewObject found")
		}
	} else {
		R.lost(rule, "pkg/value.NewObject")
	}

}

func ruleFreshLiteralsAndStores(c *Ctx, u *Universe) {
	R := c.R
	// ---- C07.fresh
	if f := u.ssaFunc("pkg/exec", "evalPrimeExpr"); f != nil {
		okAll, n := true, 0
		fresh := map[string]bool{"pkg/value.NewString": true, "pkg/value.NewNumber": true, "pkg/value.NewArray": true, "pkg/value.NewHashMap": true, "pkg/runtime.VM.FindElement": true}
		// the literal cases may be evaluated by helpers of their own (evalArrayExpr, …): look through them
		for _, s := range returnSourcesIP(u, f, 0, 2, func(name string) bool { return fresh[name] }) {
			if isNilConst(s) {
				continue
			}
			n++
			name := ""
			switch x := s.(type) {
			case *ssa.Call:
				name = u.callName(x)
			case *ssa.Extract:
				if cv, ok := x.Tuple.(*ssa.Call); ok {
					name = u.callName(cv)
				}
			}
			if !fresh[name] {
				okAll = false
			}
		}
		R.check(okAll && n >= 4, "C07.fresh", "pkg/exec.evalPrimeExpr", u.pos(f.Pos()), "literals evaluate to freshly allocated values (or a variable lookup)", "a literal can evaluate to a cached / shared value")
	} else {
		R.lost("C07.fresh", "pkg/exec.evalPrimeExpr")
	}

	// ---- C07.ctor: the constructors of mutable values allocate: every value they return is allocated in that very call
	// (numbers are mutable in place through 自增 / 自减, so handing out a shared pre-built number couples variables)
	for _, name := range []string{"NewNumber", "NewString", "NewArray", "NewHashMap", "NewEmptyHashMap", "NewObject"} {
		f := u.ssaFunc("pkg/value", name)
		if f == nil {
			R.lost("C07.ctor", "pkg/value."+name)
			continue
		}
		okNew, nRet := true, 0
		for _, b := range f.Blocks {
			ret, isRet := b.Instrs[len(b.Instrs)-1].(*ssa.Return)
			if !isRet {
				continue
			}
			for _, src := range allSources(retValue(ret, 0)) {
				nRet++
				switch x := src.(type) {
				case *ssa.Alloc:
					if !x.Heap {
						okNew = false
					}
				case *ssa.Call:
					// another constructor of the same package
					if callee := x.Call.StaticCallee(); callee == nil || callee.Pkg != f.Pkg || !strings.HasPrefix(callee.Name(), "New") {
						okNew = false
					}
				default:
					okNew = false
				}
			}
		}
		R.check(okNew && nRet >= 1, "C07.ctor", "pkg/value."+name, u.pos(f.Pos()), "returns a value allocated by this call", "the constructor can return a value that was not allocated by this call (a shared, pre-built or cached object): mutable values become aliases of each other")
	}
	R.min("C07.ctor", 6)

	// ---- C07.adopt: a list / dictionary never takes over the backing store of another one (both would change together)
	nStoreBS := 0
	for _, rel := range []string{"pkg/value", "pkg/exec", "pkg/common"} {
		for _, f := range u.srcFuncs(rel) {
			for _, in := range instrsOf(f) {
				st, ok := in.(*ssa.Store)
				if !ok {
					continue
				}
				fa, ok := st.Addr.(*ssa.FieldAddr)
				if !ok {
					continue
				}
				fld := fieldAddrName(fa)
				if fld != "Array.value" && fld != "HashMap.value" && fld != "HashMap.keyOrder" {
					continue
				}
				nStoreBS++
				bad := ""
				for _, src := range allSources(st.Val) {
					v := src
					if sl, isSl := v.(*ssa.Slice); isSl {
						v = sl.X
					}
					if un, isUn := v.(*ssa.UnOp); isUn && un.Op == token.MUL {
						if fa2, isFA := un.X.(*ssa.FieldAddr); isFA && fieldAddrName(fa2) == fld && fa2.X != fa.X {
							bad = u.pos(st.Pos())
						}
					}
				}
				if bad != "" {
					R.viol("C07.adopt", u.fname(f)+":"+fld, bad, "the backing store of another list / dictionary is stored into this one without copying: the two values alias each other")
				}
			}
		}
	}
	if nStoreBS > 0 {
		R.hold("C07.adopt", "backing-store-assignments", "", fmt.Sprintf("%d assignments of Array.value / HashMap.value / HashMap.keyOrder examined: none adopts another object's store", nStoreBS))
	}

	// ---- C07.store
	nGet := 0
	getters := []string{"pkg/value.Array.GetValue", "pkg/value.HashMap.GetValue", "pkg/value.HashMap.GetKeyOrder", "pkg/value.ClassModel.GetPropList"}
	for _, rel := range corePkgs {
		for _, f := range u.srcFuncs(rel) {
			for _, call := range u.callsNamed(f, getters...) {
				nGet++
				v := call.Value()
				if v == nil {
					continue
				}
				bad := writesThrough(v)
				R.check(bad == "", "C07.store", u.fname(f)+":"+siteName(u, f, call), u.pos(call.Pos()), "the exposed backing store is only read", "the backing store returned by a getter is written: "+bad)
			}
		}
	}
	R.min("C07.store", 10)
	R.count("backing_store_getter_calls", nGet)
}

// writesThrough: the slice/map value (or a phi/alias of it) is written in this function
func writesThrough(v ssa.Value) string {
	seen := map[ssa.Value]bool{}
	var res string
	var walk func(v ssa.Value)
	walk = func(v ssa.Value) {
		if v == nil || seen[v] || res != "" {
			return
		}
		seen[v] = true
		refs := v.Referrers()
		if refs == nil {
			return
		}
		for _, r := range *refs {
			switch x := r.(type) {
			case *ssa.IndexAddr:
				if x.X == v {
					for _, rr := range *x.Referrers() {
						if st, ok := rr.(*ssa.Store); ok && st.Addr == ssa.Value(x) {
							res = "element store"
						}
					}
				}
			case *ssa.MapUpdate:
				if x.Map == v {
					res = "map update"
				}
			case *ssa.Call:
				if b, ok := x.Call.Value.(*ssa.Builtin); ok {
					if b.Name() == "delete" && x.Call.Args[0] == v {
						res = "delete"
					}
					if b.Name() == "append" && x.Call.Args[0] == v {
						res = "append to the shared slice"
					}
				}
			case *ssa.Phi:
				walk(x)
			case *ssa.Slice:
				walk(x)
			case *ssa.Store:
				if x.Val == v {
					if a, ok := x.Addr.(*ssa.Alloc); ok {
						for _, rr := range *a.Referrers() {
							if ld, ok := rr.(*ssa.UnOp); ok && ld.Op == token.MUL {
								walk(ld)
							}
						}
					}
				}
			}
		}
	}
	walk(v)
	return res
}
