package main

import (
	"fmt"
	"go/constant"
	"go/token"
	"go/types"
	"sort"
	"strings"

	"golang.org/x/tools/go/ssa"
)

func init() {
	register("C12", checkC12)
	register("C19", checkC19)
}

// containerFieldOf: the address/value expression ultimately designates field "T.f" (through loads,
// index/slice operations)
func containerField(v ssa.Value) string {
	for i := 0; i < 10 && v != nil; i++ {
		switch x := v.(type) {
		case *ssa.FieldAddr:
			return fieldAddrName(x)
		case *ssa.UnOp:
			v = x.X
		case *ssa.IndexAddr:
			v = x.X
		case *ssa.Slice:
			v = x.X
		case *ssa.Phi:
			if len(x.Edges) > 0 {
				v = x.Edges[0]
			} else {
				return ""
			}
		default:
			return ""
		}
	}
	return ""
}

// writersOf enumerates (function, field, kind) for every write to the given container fields
func writersOf(u *Universe, rels []string, fields map[string]bool) map[string]map[string][]ssa.Instruction {
	out := map[string]map[string][]ssa.Instruction{}
	add := func(field string, f *ssa.Function, in ssa.Instruction) {
		if out[field] == nil {
			out[field] = map[string][]ssa.Instruction{}
		}
		name := u.fname(f)
		for f.Parent() != nil { // closures count for their parent
			f = f.Parent()
			name = u.fname(f)
		}
		out[field][name] = append(out[field][name], in)
	}
	for _, rel := range rels {
		for _, f := range u.srcFuncs(rel) {
			for _, in := range instrsOf(f) {
				switch x := in.(type) {
				case *ssa.Store:
					// field replaced, or element stored through it
					if fa, ok := x.Addr.(*ssa.FieldAddr); ok && fields[fieldAddrName(fa)] {
						add(fieldAddrName(fa), f, in)
					}
					if ia, ok := x.Addr.(*ssa.IndexAddr); ok {
						if n := containerField(ia.X); fields[n] {
							add(n, f, in)
						}
					}
				case *ssa.MapUpdate:
					if n := containerField(x.Map); fields[n] {
						add(n, f, in)
					}
				case *ssa.Call:
					if b, ok := x.Call.Value.(*ssa.Builtin); ok && b.Name() == "delete" {
						if n := containerField(x.Call.Args[0]); fields[n] {
							add(n, f, in)
						}
					}
				}
			}
		}
	}
	return out
}

func checkC12(c *Ctx) {
	R := c.R
	R.Explain = "Decided: (C12.owner) the backing stores HashMap.value, HashMap.keyOrder and Array.value are written only by the owner functions of the reviewed table (all packages scanned for field stores, element stores, map updates and deletes); " +
		"(C12.sync) in the owners a key that is new is inserted together with exactly one append to keyOrder, an existing key is overwritten without touching keyOrder, and 移除 deletes from the map and splices the key out of keyOrder preserving the order of the others; " +
		"(C12.index) indexed access translates position−1 and both bounds tests (0 <= i < length) dominate the element access, out-of-range returns IndexOutOfRange with no store, a missing key on read returns IndexKeyNotFound, a keyed write goes through AppendKVPair; " +
		"(C12.empty) the 'empty list' exits of 首项/末项/左移/右移 are taken exactly when the length is 0; (C12.len) 长度/数目 are len() of the backing store; (C12.order) every producer of a visible ordering of a dictionary derives it from keyOrder, including JSON generation (rule: a dictionary is never routed through a Go map); " +
		"(C12.copy) DuplicateValue deep-copy rules (shared with C07). (C12.getter) a property getter of a list / dictionary never returns its receiver; NewHashMap writes the value on every iteration (a repeated key takes the last value). (C12.iter = C02.iter) 遍历 binds the element's own 1-based position. NOT decided: the sequence laws of 前增 后增 交换 逆序 合并 包含 寻找 (value-level), the bijection keyOrder<->value after arbitrary histories beyond the per-operation sync rule. (C12.contains) when 包含 is computed from the position 寻找 reports, the test accepts every position >= 0 and rejects -1; 交换 answers only after addressing both positions (must-call with the pseudo-callee index:Array.value)."
	R.Assumptions = []string{"Go append/slicing semantics", "tables/owners.json lists the intended writers (reviewed)"}
	u := c.Core()
	u.buildSSA()

	// ---- C12.owner
	var owners map[string]map[string]string
	if !loadTable(c, "owners.json", &owners) {
		return
	}
	fields := map[string]bool{"HashMap.value": true, "HashMap.keyOrder": true, "Array.value": true}
	w := writersOf(u, corePkgs, fields)
	su := c.Server()
	su.buildSSA()
	ws := writersOf(su, []string{"pkg/server"}, fields)
	for field, m := range ws {
		for fn, ins := range m {
			if w[field] == nil {
				w[field] = map[string][]ssa.Instruction{}
			}
			w[field]["(server)"+fn] = ins
		}
	}
	nW := 0
	for _, field := range []string{"Array.value", "HashMap.keyOrder", "HashMap.value"} {
		allowed := owners[field]
		var fns []string
		for fn := range w[field] {
			fns = append(fns, fn)
		}
		sort.Strings(fns)
		helpers := helpersOfAllowed(u, corePkgs, func(name string) bool { _, ok := allowed[name]; return ok })
		for _, fn := range fns {
			nW++
			_, ok := allowed[fn]
			if !ok && helpers[fn] {
				// a helper split off an owner (all its call sites lie in owners)
				ok = true
			}
			pos := ""
			if len(w[field][fn]) > 0 {
				if fnU := w[field][fn][0]; fnU != nil {
					pos = u.pos(fnU.Pos())
				}
			}
			R.check(ok, "C12.owner", field+" written by "+fn, pos, "listed owner: "+allowed[fn], "a function outside the owner table writes "+field+" (the order list and the map can get out of sync / a copy can be corrupted)")
		}
	}
	// writes through the exposed backing stores (getter results) count as foreign writers too
	for _, rel := range corePkgs {
		for _, fn := range u.srcFuncs(rel) {
			for _, call := range u.callsNamed(fn, "pkg/value.Array.GetValue", "pkg/value.HashMap.GetValue", "pkg/value.HashMap.GetKeyOrder") {
				if v := call.Value(); v != nil {
					if bad := writesThrough(v); bad != "" {
						R.viol("C12.owner", u.fname(fn)+" writes through "+shortName(u.callName(call)), u.pos(call.Pos()), "a function outside the owner table writes a list/dictionary's backing store obtained from a getter ("+bad+"): the order list and the map can get out of sync")
					}
				}
			}
		}
	}
	// ---- C12.selfalias: an argument of a list / dictionary method may be the receiver itself (甲.合并(乙, 甲)); an owner
	// that writes the receiver's store on a loop while the same loop still reads the store of another list / dictionary
	// value that is not freshly built in the function reads its own half-done result
	nSA := 0
	for _, field := range []string{"Array.value", "HashMap.keyOrder", "HashMap.value"} {
		var fns []string
		for fn := range w[field] {
			fns = append(fns, fn)
		}
		sort.Strings(fns)
		for _, fn := range fns {
			if strings.HasPrefix(fn, "(server)") {
				continue
			}
			for _, in := range w[field][fn] {
				nSA++
				wfa := storeFieldAddr(in)
				if wfa == nil || !loopBlock(in.Block()) {
					continue
				}
				if _, fresh := wfa.X.(*ssa.Alloc); fresh {
					continue
				}
				for _, other := range instrsOf(in.Parent()) {
					ofa, ok := other.(*ssa.FieldAddr)
					if !ok || ofa == wfa || ofa.X == wfa.X || fieldAddrName(ofa) != field {
						continue
					}
					if !freshObject(ofa.X) && !onlyStoredTo(ofa) && reachesFrom(in.Block(), ofa.Block()) && reachesFrom(ofa.Block(), in.Block()) {
						R.viol("C12.selfalias", fn+" writes "+field+" of its receiver on a loop that reads "+field+" of another value", u.pos(in.Pos()),
							"the other list / dictionary can be the receiver itself (a value passed as its own argument): the loop then reads the store it is extending, so the result is not receiver ++ arguments")
					}
				}
			}
		}
	}
	R.count("selfalias_store_sites", nSA)
	R.Explain += " (C12.selfalias) an owner never writes its receiver's store on a loop that still reads the same store of another, not freshly built value (the other value can be the receiver itself)."
	R.min("C12.owner", 15)
	R.count("backing_store_writers", nW)

	ruleKeyOrderSync(c, u, "C12.sync")

	// ---- C12.index
	for _, name := range []string{"IV.ReduceLHS", "IV.ReduceRHS"} {
		f := u.ssaFunc("pkg/value", name)
		if f == nil {
			R.lost("C12.index", "pkg/value."+name)
			continue
		}
		pos := u.pos(f.Pos())
		var acc *ssa.IndexAddr
		for _, in := range instrsOf(f) {
			if ia, ok := in.(*ssa.IndexAddr); ok && containerField(ia.X) == "Array.value" {
				acc = ia
			}
		}
		ok := acc != nil
		if ok {
			// index = iv.index - 1 (possibly computed by a helper that returns it together with the list)
			forms := linForms(acc.Index, 2)
			ok = len(forms) > 0
			for _, lf := range forms {
				_, isIdx := fieldLoad(lf.base, "index")
				if lf.base == nil || !isIdx || lf.off != -1 {
					ok = false
				}
			}
			// both bounds hold at the access (dominating tests, here or in the helper)
			p := newBProver(f)
			ok = ok && p.proveIndex(acc.Index, refOfSlice(acc.X), bpoint{b: acc.Block()}) != ""
		}
		R.check(ok, "C12.index", "pkg/value."+name+":list", pos, "position p accesses element p−1 only when 0 <= p−1 < length; otherwise IndexOutOfRange and nothing is touched", "list indexing is not 1-based with both bounds tested before the element access")
		// dictionary side
		if name == "IV.ReduceRHS" {
			okKey := false
			for _, b := range f.Blocks {
				if ifi, isIf := b.Instrs[len(b.Instrs)-1].(*ssa.If); isIf {
					if ex, isEx := ifi.Cond.(*ssa.Extract); isEx && ex.Index == 1 {
						if lk, isLk := ex.Tuple.(*ssa.Lookup); isLk && containerField(lk.X) == "HashMap.value" {
							for _, rr := range returnsReachable(b.Succs[1], 0, nil) {
								if b.Succs[1].Dominates(rr.Ret.Block()) {
									for _, s := range allSources(errorOperand(rr.Ret)) {
										if cv, isC := s.(*ssa.Call); isC && u.callName(cv) == "pkg/error.IndexKeyNotFound" {
											okKey = true
										}
									}
								}
							}
						}
					}
				}
			}
			R.check(okKey, "C12.index", "pkg/value.IV.ReduceRHS:dictionary", pos, "reading a missing key is IndexKeyNotFound", "reading a missing key does not give IndexKeyNotFound")
		} else {
			okW := len(u.callsNamed(f, "pkg/value.HashMap.AppendKVPair")) == 1
			for _, in := range instrsOf(f) {
				if mu, isMU := in.(*ssa.MapUpdate); isMU && containerField(mu.Map) == "HashMap.value" {
					okW = false
				}
			}
			R.check(okW, "C12.index", "pkg/value.IV.ReduceLHS:dictionary", pos, "keyed assignment goes through AppendKVPair (new key appended, existing key keeps its place)", "keyed assignment writes the map directly")
		}
	}

	// ---- C12.getter: reading a property of a list / dictionary / text yields an element or a freshly built value,
	// never the collection itself (a getter result that aliases its receiver lets `A之逆序` mutate A)
	nG := 0
	for _, g := range u.srcFuncs("pkg/value") {
		sig := g.Signature
		if sig.Recv() != nil || sig.Params().Len() != 1 || sig.Results().Len() != 2 || !isErrorType(sig.Results().At(1).Type()) || !isElementIface(sig.Results().At(0).Type()) {
			continue
		}
		if !namedTypeIs(sig.Params().At(0).Type(), "pkg/value", "Array") && !namedTypeIs(sig.Params().At(0).Type(), "pkg/value", "HashMap") {
			continue
		}
		nG++
		alias := ""
		for _, b := range g.Blocks {
			ret, ok := b.Instrs[len(b.Instrs)-1].(*ssa.Return)
			if !ok {
				continue
			}
			for _, src := range allSources(retValue(ret, 0)) {
				if src == ssa.Value(g.Params[0]) {
					alias = u.pos(ret.Pos())
				}
			}
		}
		R.check(alias == "", "C12.getter", u.fname(g), u.pos(g.Pos()), "the getter never returns its receiver", "the property getter returns the collection itself at "+alias+": a method applied to the result (后增, 左移, …之末项 = x) changes the original collection although no operation was applied to it")
	}
	R.min("C12.getter", 6)

	// 遍历 binds the element's own 1-based position
	borrowRule(c, "C02", "C02.iter", "C12.iter")

	// ---- C12.jsonlist (= C19.kinds list-length) and the empty-list constructor: a list built element by element starts
	// empty (length 0; spare capacity is fine)
	if f := u.ssaFunc("pkg/common", "buildPlainValueFromElement"); f != nil {
		sized := appendOntoSized(u, f)
		R.check(len(sized) == 0, "C12.jsonlist", "pkg/common.buildPlainValueFromElement", u.pos(f.Pos()), "generated JSON lists have the list's length and order", "the slice for a list is made with a non-zero length and then appended to ("+strings.Join(sized, ", ")+"): the generated JSON has neither the list's length nor its positions")
	}
	for _, name := range []string{"NewEmptyArray"} {
		if f := u.ssaFunc("pkg/value", name); f != nil {
			bad := ""
			for _, in := range instrsOf(f) {
				if mk, ok := in.(*ssa.MakeSlice); ok {
					if k, isK := mk.Len.(*ssa.Const); !isK || k.Int64() != 0 {
						bad = u.pos(mk.Pos())
					}
				}
				if sl, ok := in.(*ssa.Slice); ok {
					if al, isAl := sl.X.(*ssa.Alloc); isAl {
						if arr, isArr := al.Type().(*types.Pointer).Elem().Underlying().(*types.Array); isArr && arr.Len() != 0 {
							bad = u.pos(sl.Pos())
						}
					}
				}
			}
			R.check(bad == "", "C12.emptylist", "pkg/value."+name, u.pos(f.Pos()), "an empty list has length 0", "the constructor of an empty list creates a slice of non-zero length ("+bad+"): every list built through it (解析JSON arrays) starts with nil elements - wrong length, and reading one crashes")
		}
	}

	// ---- C12.contains: 包含 answers 真 exactly when 寻找 would find the element. When the answer is computed from the
	// position 寻找 reports (0-based, -1 = not found), the test must accept every position >= 0 and reject -1
	if f := u.ssaFunc("pkg/value", "arrayExecContains"); f != nil {
		for _, nb := range u.callsNamed(f, "pkg/value.NewBool") {
			bo, isB := nb.Common().Args[0].(*ssa.BinOp)
			if !isB {
				continue
			}
			var k *ssa.Const
			var other ssa.Value
			flip := false
			if kc, ok := bo.Y.(*ssa.Const); ok {
				k, other = kc, bo.X
			} else if kc, ok := bo.X.(*ssa.Const); ok {
				k, other, flip = kc, bo.Y, true
			}
			fromFind := other != nil && flowsFromDeep(other, func(v ssa.Value) bool {
				call, ok := v.(*ssa.Call)
				return ok && u.callName(call) == "pkg/value.arrayExecFind"
			})
			if k == nil || !fromFind || k.Value == nil {
				continue
			}
			c, _ := constant.Float64Val(constant.ToFloat(k.Value))
			okAll := true
			for _, pos := range []float64{-1, 0, 1, 7} {
				l, r := pos, c
				if flip {
					l, r = c, pos
				}
				var got bool
				switch bo.Op {
				case token.GTR:
					got = l > r
				case token.GEQ:
					got = l >= r
				case token.LSS:
					got = l < r
				case token.LEQ:
					got = l <= r
				case token.NEQ:
					got = l != r
				case token.EQL:
					got = l == r
				}
				if got != (pos >= 0) {
					okAll = false
				}
			}
			R.check(okAll, "C12.contains", "pkg/value.arrayExecContains:position-test", u.pos(bo.Pos()), "every position 寻找 can report (0, 1, …) counts as contained, -1 does not", "包含 tests the position reported by 寻找 (0-based, -1 = not found) with a comparison that gives the wrong answer for position 0 or for -1: an element that is the first item of the list is reported as not contained")
		}
	}

	// ---- C12.empty
	for _, name := range []string{"arrayGetFirstItem", "arrayGetLastItem", "arrayExecShift", "arrayExecPop"} {
		root := u.ssaFunc("pkg/value", name)
		if root == nil {
			R.lost("C12.empty", "pkg/value."+name)
			continue
		}
		ok, n := true, 0
		// the answer for the empty list is given by the method itself or by the helper it delegates to
		for _, f := range family(root, 1) {
			for _, nn := range u.callsNamed(f, "pkg/value.NewNull") {
				n++
				guarded := false
				for _, b := range f.Blocks {
					ifi, isIf := b.Instrs[len(b.Instrs)-1].(*ssa.If)
					if !isIf {
						continue
					}
					cmp, isC := ifi.Cond.(*ssa.BinOp)
					if !isC {
						continue
					}
					isLen := func(v ssa.Value) bool {
						call, ok := v.(*ssa.Call)
						if !ok {
							return false
						}
						bi, ok := call.Call.Value.(*ssa.Builtin)
						return ok && bi.Name() == "len"
					}
					emptyTest := false
					if isLen(cmp.X) {
						if k, isK := cmp.Y.(*ssa.Const); isK {
							emptyTest = (cmp.Op == token.EQL && k.Int64() == 0) || (cmp.Op == token.LEQ && k.Int64() == 0) || (cmp.Op == token.LSS && k.Int64() == 1)
						}
					}
					if emptyTest && edgeDominates(b, b.Succs[0], nn.Block()) {
						guarded = true
					}
				}
				if !guarded {
					ok = false
				}
			}
		}
		R.check(ok && n >= 1, "C12.empty", "pkg/value."+name, u.pos(root.Pos()), "空 is answered exactly when the list has no element", "the empty-list answer is not guarded by 'length is 0' (a non-empty list could lose/hide an element)")
	}

	// ---- C12.len
	for _, m := range []struct{ fn, field string }{{"arrayGetLength", "Array.value"}, {"hmGetLength", "HashMap.value"}} {
		f := u.ssaFunc("pkg/value", m.fn)
		if f == nil {
			R.lost("C12.len", "pkg/value."+m.fn)
			continue
		}
		ok := false
		for _, nn := range u.callsNamed(f, "pkg/value.NewNumber") {
			ok = flowsFrom(nn.Common().Args[0], func(v ssa.Value) bool {
				call, isC := v.(*ssa.Call)
				if !isC {
					return false
				}
				bi, isB := call.Call.Value.(*ssa.Builtin)
				return isB && bi.Name() == "len" && containerField(call.Call.Args[0]) == m.field
			})
		}
		R.check(ok, "C12.len", "pkg/value."+m.fn, u.pos(f.Pos()), "length = number of stored elements", "length is not len() of the backing store")
	}

	// ---- C12.order
	ruleDictNeverThroughGoMap(c, u, "C12.order", true)
	for _, name := range []string{"HashMap.String", "hmGetAllIndexes", "hmGetAllValues"} {
		f := u.ssaFunc("pkg/value", name)
		if f == nil {
			R.lost("C12.order", "pkg/value."+name)
			continue
		}
		okR := false
		for _, in := range instrsOf(f) {
			if rg, isR := in.(*ssa.Range); isR {
				_ = rg
				okR = false
				break
			}
			if ia, isIA := in.(*ssa.IndexAddr); isIA && containerField(ia.X) == "HashMap.keyOrder" && loopBlock(in.Block()) {
				okR = true
			}
		}
		R.check(okR, "C12.order", "pkg/value."+name, u.pos(f.Pos()), "walks keyOrder", "does not walk keyOrder (or ranges over the Go map)")
	}

	// ---- C12.copy
	ruleDupDeep(c, u, "C12.copy")
}

// ruleKeyOrderSync - the owners keep HashMap.value and HashMap.keyOrder in step (insert, overwrite, delete)
func ruleKeyOrderSync(c *Ctx, u *Universe, rule string) {
	R := c.R
	// ---- C12.sync: AppendKVPair
	if f := u.ssaFunc("pkg/value", "HashMap.AppendKVPair"); f != nil {
		pos := u.pos(f.Pos())
		var okIf *ssa.BasicBlock
		for _, b := range f.Blocks {
			if ifi, ok := b.Instrs[len(b.Instrs)-1].(*ssa.If); ok {
				if ex, ok := ifi.Cond.(*ssa.Extract); ok && ex.Index == 1 {
					if lk, ok := ex.Tuple.(*ssa.Lookup); ok && containerField(lk.X) == "HashMap.value" {
						okIf = b
					}
				}
			}
		}
		isOrderStore := func(x ssa.Instruction) bool {
			st, ok := x.(*ssa.Store)
			if !ok {
				return false
			}
			fa, ok := st.Addr.(*ssa.FieldAddr)
			return ok && fieldAddrName(fa) == "HashMap.keyOrder"
		}
		isMapUpd := func(x ssa.Instruction) bool {
			mu, ok := x.(*ssa.MapUpdate)
			return ok && containerField(mu.Map) == "HashMap.value"
		}
		isRet := func(x ssa.Instruction) bool { _, ok := x.(*ssa.Return); return ok }
		ok := okIf != nil
		if ok {
			present, absent := okIf.Succs[0], okIf.Succs[1]
			// present: map update, no keyOrder store before returning
			ok = reachableAvoiding(present, 0, isOrderStore, nil) == nil && reachableAvoiding(present, 0, isRet, isMapUpd) == nil
			// absent: every path to return passes a map update and a keyOrder store
			ok = ok && reachableAvoiding(absent, 0, isRet, isMapUpd) == nil && reachableAvoiding(absent, 0, isRet, isOrderStore) == nil
			// the appended key is the pair's key
			nApp := 0
			for _, in := range instrsOf(f) {
				if isOrderStore(in) {
					nApp++
				}
			}
			ok = ok && nApp == 1
		}
		R.check(ok, rule, "pkg/value.HashMap.AppendKVPair", pos, "new key: map insert + one keyOrder append; existing key: overwrite, order untouched", "insert/overwrite does not keep keyOrder in step with the map")
	} else {
		R.lost(rule, "pkg/value.HashMap.AppendKVPair")
	}
	// NewHashMap: keyOrder append only on the not-present edge, map write on every iteration
	if f := u.ssaFunc("pkg/value", "NewHashMap"); f != nil {
		ok := false
		for _, b := range f.Blocks {
			if ifi, isIf := b.Instrs[len(b.Instrs)-1].(*ssa.If); isIf {
				if ex, isEx := ifi.Cond.(*ssa.Extract); isEx && ex.Index == 1 {
					if _, isLk := ex.Tuple.(*ssa.Lookup); isLk {
						// append to keyOrder only reachable through the absent edge (Succs[1])
						for _, in := range instrsOf(f) {
							if st, isSt := in.(*ssa.Store); isSt && loopBlock(in.Block()) {
								if fa, isFA := st.Addr.(*ssa.FieldAddr); isFA && fieldAddrName(fa) == "HashMap.keyOrder" {
									ok = edgeDominates(b, b.Succs[1], in.Block())
								}
							}
						}
						// the value is written on every iteration: from the key-present edge the next iteration
						// cannot start without passing the map write (a repeated key takes the LAST value written)
						var mu ssa.Instruction
						for _, in := range instrsOf(f) {
							if m, isMU := in.(*ssa.MapUpdate); isMU && containerField(m.Map) == "HashMap.value" && loopBlock(in.Block()) {
								mu = in
							}
						}
						if mu == nil || reachableAvoiding(b.Succs[0], 0, func(x ssa.Instruction) bool { return x == ssa.Instruction(ifi) }, func(x ssa.Instruction) bool { return x == mu }) != nil {
							ok = false
						}
					}
				}
			}
		}
		R.check(ok, rule, "pkg/value.NewHashMap", u.pos(f.Pos()), "duplicate keys in a literal keep their first position (later value wins)", "construction with duplicate keys does not keep first-insertion order")
	} else {
		R.lost(rule, "pkg/value.NewHashMap")
	}
	// hmExecDelete: delete + order-preserving splice, both on the present edge
	if f := u.ssaFunc("pkg/value", "hmExecDelete"); f != nil {
		pos := u.pos(f.Pos())
		var del ssa.Instruction
		for _, in := range instrsOf(f) {
			if call, ok := in.(*ssa.Call); ok {
				if b, ok := call.Call.Value.(*ssa.Builtin); ok && b.Name() == "delete" && containerField(call.Call.Args[0]) == "HashMap.value" {
					del = in
				}
			}
		}
		splice := false
		var spliceStore ssa.Instruction
		for _, in := range instrsOf(f) {
			st, ok := in.(*ssa.Store)
			if !ok {
				continue
			}
			fa, ok := st.Addr.(*ssa.FieldAddr)
			if !ok || fieldAddrName(fa) != "HashMap.keyOrder" {
				continue
			}
			spliceStore = in
			// value = append(keyOrder[:idx], keyOrder[idx+1:]...)
			call, ok := st.Val.(*ssa.Call)
			if !ok {
				continue
			}
			b, ok := call.Call.Value.(*ssa.Builtin)
			if !ok || b.Name() != "append" || len(call.Call.Args) != 2 {
				continue
			}
			s1, ok1 := call.Call.Args[0].(*ssa.Slice)
			s2, ok2 := call.Call.Args[1].(*ssa.Slice)
			if !ok1 || !ok2 || containerField(s1.X) != "HashMap.keyOrder" || containerField(s2.X) != "HashMap.keyOrder" {
				continue
			}
			if s1.Low != nil || s1.High == nil || s2.High != nil || s2.Low == nil {
				continue
			}
			// s2.Low == s1.High + 1
			if bo, ok := s2.Low.(*ssa.BinOp); ok && bo.Op == token.ADD && bo.X == s1.High {
				if k, ok := bo.Y.(*ssa.Const); ok && k.Int64() == 1 {
					// guarded by the key comparison
					for _, d := range f.Blocks {
						if ifi, ok := d.Instrs[len(d.Instrs)-1].(*ssa.If); ok {
							if cmp, ok := ifi.Cond.(*ssa.BinOp); ok && cmp.Op == token.EQL && isStringType(cmp.X.Type()) && d.Succs[0].Dominates(in.Block()) {
								splice = true
							}
						}
					}
				}
			}
		}
		okDel := del != nil && spliceStore != nil
		if okDel {
			// both under the key-present edge
			okDel = false
			for _, b := range f.Blocks {
				if ifi, ok := b.Instrs[len(b.Instrs)-1].(*ssa.If); ok {
					if ex, ok := ifi.Cond.(*ssa.Extract); ok && ex.Index == 1 {
						if _, ok := ex.Tuple.(*ssa.Lookup); ok && b.Succs[0].Dominates(del.Block()) && b.Succs[0].Dominates(spliceStore.Block()) {
							okDel = true
						}
					}
				}
			}
		}
		R.check(okDel && splice, rule, "pkg/value.hmExecDelete", pos, "移除 deletes the key from the map and splices it out of keyOrder (append(order[:i], order[i+1:]...)), leaving the others in order", "移除 does not remove the key from both structures with an order-preserving splice (recognised form: append(keyOrder[:i], keyOrder[i+1:]...) under the key comparison)")
	} else {
		R.lost(rule, "pkg/value.hmExecDelete")
	}

}

// ruleDictNeverThroughGoMap: a dictionary is not converted to / from a Go map on its way to an
// ordered observer (JSON text). generation=true checks Element->JSON, false checks JSON->Element.
func ruleDictNeverThroughGoMap(c *Ctx, u *Universe, rule string, generation bool) {
	R := c.R
	isPlainMap := func(t types.Type) bool {
		m, ok := t.Underlying().(*types.Map)
		if !ok {
			return false
		}
		_, isIface := m.Elem().Underlying().(*types.Interface)
		return isIface && !isElementIface(m.Elem())
	}
	n := 0
	for _, rel := range []string{"pkg/common", "stdlib/json"} {
		for _, f := range u.srcFuncs(rel) {
			if generation {
				usesDict := len(u.callsNamed(f, "pkg/value.HashMap.GetValue", "pkg/value.HashMap.GetKeyOrder")) > 0
				if !usesDict {
					continue
				}
				for _, in := range instrsOf(f) {
					if mm, ok := in.(*ssa.MakeMap); ok && isPlainMap(mm.Type()) {
						n++
						R.viol(rule, u.fname(f)+":dict->"+typeShort(mm.Type()), u.pos(mm.Pos()), "a dictionary is converted into a Go map before JSON encoding: encoding/json emits map keys sorted, not in insertion order")
					}
				}
			} else {
				for _, call := range u.callsNamed(f, "encoding/json.Unmarshal") {
					target := call.Common().Args[1]
					// pointer to a map[string]any / any
					pt := strip(target).Type()
					if p, ok := pt.Underlying().(*types.Pointer); ok && isPlainMap(p.Elem()) {
						n++
						R.viol(rule, u.fname(f)+":json->"+typeShort(p.Elem()), u.pos(call.Pos()), "JSON text is decoded into a Go map: the document order of object keys is lost before the dictionary is built")
					}
				}
			}
		}
	}
	if n == 0 {
		R.hold(rule, "no-dictionary-through-go-map", "", "no conversion of a dictionary through a Go map on the JSON path")
	}
}

func typeShort(t types.Type) string {
	return types.TypeString(t, func(p *types.Package) string { return p.Name() })
}

func checkC19(c *Ctx) {
	R := c.R
	R.Explain = "Decided: (C19.order) a dictionary is never routed through a Go map on its way to or from JSON text (type rule on pkg/common: Element->map conversion before Marshal, Unmarshal into map[string]any); " +
		"(C19.catch) every error exit of JSONStringToElement / HashMapToJSONString / ElementToJSONString returns an exception signal built by value.ThrowException (the kind a 拦截 can catch) and the encoding/json error is not dropped; " +
		"(C19.whole) the parser consumes the whole text (json.Unmarshal / json.Valid, not a streaming Decoder that stops after the first value); (C19.kinds) buildPlainValueFromElement has a case for each JSON-representable value kind mapping to the matching Go kind " +
		"(numbers stay float64: no integer conversion), and buildElementFromPlainValue has returning cases for exactly the six dynamic types encoding/json produces; (C19.params) the library functions validate their parameter before asserting it; " +
		"(C19.maprange) the map ranges on this path (C11 classifier). (C19.verbatim) the generated text is exactly string(bytes of json.Marshal); (C19.fresh) no element of a parsed document comes from a package-level variable. (C19.sync = C12.sync) a removed key is gone from the map as well as from the order list. NOT decided: RFC 8259 escaping and number formatting (encoding/json, trusted), inverse-ness for all values. (C19.keys) AppendKVPair and NewHashMap store value and order under the pair's Key exactly as given."
	R.Assumptions = []string{"encoding/json implements RFC 8259 for Go maps, slices, strings, float64, bool, nil"}
	u := c.Core()
	u.buildSSA()
	ruleDictEqByContent(c, u, "C19.eqcontent")
	ruleDictNeverThroughGoMap(c, u, "C19.order", true)
	ruleDictNeverThroughGoMap(c, u, "C19.order", false)

	// ---- C19.catch
	for _, name := range []string{"JSONStringToElement", "HashMapToJSONString", "ElementToJSONString"} {
		f := u.ssaFunc("pkg/common", name)
		if f == nil {
			R.lost("C19.catch", "pkg/common."+name)
			continue
		}
		pos := u.pos(f.Pos())
		jsonCalls := u.callsNamed(f, "encoding/json.Marshal", "encoding/json.Unmarshal")
		ok := len(jsonCalls) == 1
		if len(jsonCalls) == 0 {
			// a pure delegate: every returned error is the error result of one of the sibling converters
			// (which carries this obligation itself)
			delegate, n := true, 0
			for _, b := range f.Blocks {
				ret, isRet := b.Instrs[len(b.Instrs)-1].(*ssa.Return)
				if !isRet {
					continue
				}
				for _, src := range allSources(errorOperand(ret)) {
					n++
					ex, isEx := src.(*ssa.Extract)
					if !isEx {
						delegate = false
						continue
					}
					cv, isCall := ex.Tuple.(*ssa.Call)
					cn := ""
					if isCall {
						cn = u.callName(cv)
					}
					if cn != "pkg/common.JSONStringToElement" && cn != "pkg/common.HashMapToJSONString" && cn != "pkg/common.ElementToJSONString" || cn == "pkg/common."+name {
						delegate = false
					}
				}
			}
			if delegate && n > 0 {
				R.hold("C19.catch", "pkg/common."+name, pos, "delegates to a sibling converter and returns its error unchanged")
				continue
			}
		}
		if ok {
			errV := errResult(jsonCalls[0])
			tested := false
			for _, t := range nilTests(f) {
				if t.X != errV {
					continue
				}
				tested = true
				for _, rr := range returnsReachable(t.NotNil, 0, nil) {
					if !t.NotNil.Dominates(rr.Ret.Block()) {
						continue
					}
					isSignal := false
					for _, s := range allSources(errorOperand(rr.Ret)) {
						if cv, isC := s.(*ssa.Call); isC && u.callName(cv) == "pkg/value.ThrowException" {
							isSignal = true
						}
					}
					if !isSignal {
						ok = false
					}
				}
			}
			ok = ok && tested
		}
		R.check(ok, "C19.catch", "pkg/common."+name, pos, "an encoding/json failure becomes an exception signal (catchable by 拦截)", "an encoding/json failure is dropped or returned as a non-catchable error")
	}
	// the dictionary handed to the generator is consistent: a removed key is gone from the map as well as from the order list
	borrowRule(c, "C12", "C12.sync", "C19.sync")
	borrowRule(c, "C12", "C12.emptylist", "C19.emptylist")
	// ---- C19.glue: each library function is registered under its own name: RegisterFunction gets a constant name and a
	// function built directly from a declared function (no closure that could capture a loop variable shared by all
	// iterations - the module's go directive predates per-iteration loop variables)
	nReg, okReg := 0, true
	for _, rel := range []string{"stdlib/json", "stdlib/file"} {
		for _, g := range u.srcFuncs(rel) {
			for _, cs := range u.callsNamed(g, "pkg/runtime.Library.RegisterFunction") {
				nReg++
				args := cs.Common().Args
				if _, isK := args[1].(*ssa.Const); !isK {
					okReg = false
					continue
				}
				direct := false
				for _, src := range allSources(args[2]) {
					if nf, isCall := src.(*ssa.Call); isCall && u.callName(nf) == "pkg/value.NewFunction" {
						if _, isFn := nf.Call.Args[0].(*ssa.Function); isFn {
							direct = true
						}
					}
				}
				if !direct {
					okReg = false
				}
			}
		}
	}
	R.check(okReg && nReg >= 2, "C19.glue", "stdlib:RegisterFunction", "", fmt.Sprintf("%d library functions are registered by constant name with a declared function", nReg), "a library function is registered through a computed name or a closure: with a closure created in a loop every exported name can end up calling the same (last) function - 解析JSON would run 生成JSON")

	// ---- C19.verbatim: the generated text is exactly the bytes encoding/json produced (no textual post-processing:
	// it cannot know the escaping context and turns valid JSON into invalid JSON)
	for _, name := range []string{"HashMapToJSONString", "ElementToJSONString"} {
		f := u.ssaFunc("pkg/common", name)
		if f == nil {
			continue
		}
		marshals := u.callsNamed(f, "encoding/json.Marshal")
		if len(marshals) == 0 {
			continue // a delegate (C19.catch)
		}
		okV, nS := true, 0
		for _, cs := range u.callsNamed(f, "pkg/value.NewString") {
			nS++
			v := cs.Common().Args[0]
			for {
				if cv, isCv := v.(*ssa.Convert); isCv {
					v = cv.X
					continue
				}
				break
			}
			ex, isEx := v.(*ssa.Extract)
			if !isEx || ex.Tuple != marshals[0].Value() || ex.Index != 0 {
				okV = false
			}
		}
		R.check(okV && nS >= 1, "C19.verbatim", "pkg/common."+name, u.pos(f.Pos()), "the text value is string(bytes returned by json.Marshal)", "the output of json.Marshal is rewritten before it is returned: escaping-blind text replacement can produce invalid JSON")
	}

	// ---- C19.keys: a member name becomes the dictionary key as it is: the primitives that fill a dictionary
	// (AppendKVPair for parsed documents, NewHashMap for literals) store the value and record the order under the
	// very Key field of the pair they are given (no trimming, folding or other rewriting in between)
	for _, name := range []string{"HashMap.AppendKVPair", "NewHashMap"} {
		f := u.ssaFunc("pkg/value", name)
		if f == nil {
			R.lost("C19.keys", "pkg/value."+name)
			continue
		}
		isKeyField := func(v ssa.Value) bool {
			for _, src := range allSources(v) {
				ok := false
				switch x := src.(type) {
				case *ssa.Field:
					ok = fieldName(x.X.Type().Underlying().(*types.Struct).Field(x.Field)) == "Key"
				case *ssa.UnOp:
					if fa, isFA := x.X.(*ssa.FieldAddr); isFA && x.Op == token.MUL {
						ok = strings.HasSuffix(fieldAddrName(fa), ".Key")
					}
				}
				if !ok {
					return false
				}
			}
			return true
		}
		nK, okK := 0, true
		for _, in := range instrsOf(f) {
			switch x := in.(type) {
			case *ssa.MapUpdate:
				if containerFieldOf(x.Map) == "HashMap.value" {
					nK++
					okK = okK && isKeyField(x.Key)
				}
			case *ssa.Call:
				if bi, isB := x.Call.Value.(*ssa.Builtin); isB && bi.Name() == "append" && len(x.Call.Args) == 2 && containerFieldOf(x.Call.Args[0]) == "HashMap.keyOrder" {
					// append(keyOrder, key): the variadic argument is a one-element slice built from the key
					nK++
					okE := false
					if sl, isSl := x.Call.Args[1].(*ssa.Slice); isSl {
						if al, isAl := sl.X.(*ssa.Alloc); isAl {
							for _, r := range *al.Referrers() {
								if ia, isIA := r.(*ssa.IndexAddr); isIA {
									for _, r2 := range *ia.Referrers() {
										if st, isSt := r2.(*ssa.Store); isSt && isKeyField(st.Val) {
											okE = true
										}
									}
								}
							}
						}
					}
					okK = okK && okE
				}
			}
		}
		R.check(okK && nK >= 2, "C19.keys", "pkg/value."+name, u.pos(f.Pos()), "value and order are recorded under the pair's Key as given", "a dictionary is filled under a rewritten key (not the pair's Key itself): 解析JSON(生成JSON(d)) differs from d for member names the rewriting changes, and distinct names can collapse into one entry")
	}

	// ---- C19.fresh: parsed values are built for this call only - nothing of a parsed document is taken from a
	// package-level table (numbers, lists and dictionaries are mutable in place: a shared element couples documents)
	for _, name := range []string{"buildElementFromPlainValue", "JSONStringToElement"} {
		f := u.ssaFunc("pkg/common", name)
		if f == nil {
			R.lost("C19.fresh", "pkg/common."+name)
			continue
		}
		bad := ""
		for _, in := range instrsOf(f) {
			for _, op := range in.Operands(nil) {
				if g, ok := (*op).(*ssa.Global); ok && g.Pkg != nil && strings.HasPrefix(g.Pkg.Pkg.Path(), modPath) && sharedMutableType(g.Type().(*types.Pointer).Elem()) {
					bad = g.Name() + " at " + u.pos(in.Pos())
				}
			}
		}
		R.check(bad == "", "C19.fresh", "pkg/common."+name, u.pos(f.Pos()), "every element of a parsed document is allocated by this call", "a parsed document contains an element taken from the package-level variable "+bad+": equal values in one or several documents are the same mutable object")
	}

	// ---- C19.whole
	if f := u.ssaFunc("pkg/common", "JSONStringToElement"); f != nil {
		dec := 0
		for _, in := range instrsOf(f) {
			if n := u.callName(in); n == "encoding/json.NewDecoder" || n == "encoding/json.Decoder.Decode" {
				dec++
			}
		}
		R.check(dec == 0 && len(u.callsNamed(f, "encoding/json.Unmarshal")) == 1, "C19.whole", "pkg/common.JSONStringToElement", u.pos(f.Pos()), "the whole text must be one JSON value (json.Unmarshal)", "the text is parsed by a streaming decoder that stops after the first value: trailing garbage is accepted silently")
	}
	// ---- C19.kinds
	if f := u.ssaFunc("pkg/common", "buildPlainValueFromElement"); f != nil {
		want := map[string]bool{"Null": false, "String": false, "Bool": false, "Number": false, "Array": false, "HashMap": false}
		for _, in := range instrsOf(f) {
			if ta, ok := in.(*ssa.TypeAssert); ok {
				for k := range want {
					if namedTypeIs(ta.AssertedType, "pkg/value", k) {
						want[k] = true
					}
				}
			}
		}
		all := true
		for _, v := range want {
			if !v {
				all = false
			}
		}
		// numbers stay float64: no float->int conversion in the encoder
		conv := false
		for _, in := range instrsOf(f) {
			if cv, ok := in.(*ssa.Convert); ok && isFloat(cv.X.Type()) {
				if b, ok := cv.Type().Underlying().(*types.Basic); ok && b.Info()&types.IsInteger != 0 {
					conv = true
				}
			}
		}
		R.check(all, "C19.kinds", "pkg/common.buildPlainValueFromElement:cases", u.pos(f.Pos()), "空 text bool number list dictionary each have a case", "a JSON-representable value kind has no case (it would be written as null)")
		// the list case hands encoding/json a non-nil slice: a nil []any is written as null, so an empty list would
		// come back as 空
		nilList := ""
		for _, b := range f.Blocks {
			ret, ok := b.Instrs[len(b.Instrs)-1].(*ssa.Return)
			if !ok || len(ret.Results) != 1 {
				continue
			}
			for _, src := range allSources(retValue(ret, 0)) {
				if _, isSlice := src.Type().Underlying().(*types.Slice); !isSlice {
					continue
				}
				for _, s2 := range allSources(src) {
					if k, isK := s2.(*ssa.Const); isK && k.Value == nil {
						nilList = u.pos(ret.Pos())
					}
				}
			}
		}
		sized := appendOntoSized(u, f)
		R.check(len(sized) == 0, "C19.kinds", "pkg/common.buildPlainValueFromElement:list-length", u.pos(f.Pos()), "the slice built for a list has exactly the list's elements", "the slice for a list is made with a non-zero length and then appended to ("+strings.Join(sized, ", ")+"): the generated JSON array starts with that many nulls - neither the list's length nor its positions")
		R.check(nilList == "", "C19.kinds", "pkg/common.buildPlainValueFromElement:empty-list", u.pos(f.Pos()), "a list becomes a non-nil slice (an empty list is written as [])", "the slice built for a list can still be nil when the list is empty (return at "+nilList+"): encoding/json writes null, so 生成JSON turns an empty list into 空 and 解析JSON(生成JSON(d)) differs from d")
		R.check(!conv, "C19.kinds", "pkg/common.buildPlainValueFromElement:numbers", u.pos(f.Pos()), "numbers are handed to encoding/json as float64 (non-finite values make Marshal fail -> exception)", "a number is converted to an integer before encoding (large or non-finite doubles are silently changed)")
	} else {
		R.lost("C19.kinds", "pkg/common.buildPlainValueFromElement")
	}
	if f := u.ssaFunc("pkg/common", "buildElementFromPlainValue"); f != nil {
		// the six dynamic types of encoding/json: nil, bool, float64, string, []any, map[string]any
		got := map[string]bool{}
		for _, in := range instrsOf(f) {
			if ta, ok := in.(*ssa.TypeAssert); ok {
				got[typeShort(ta.AssertedType)] = true
			}
		}
		ok := got["bool"] && got["float64"] && got["string"] && (got["[]any"] || got["[]interface{}"]) && (got["map[string]any"] || got["map[string]interface{}"])
		ok = ok && len(u.callsNamed(f, "pkg/value.NewNull")) >= 1
		R.check(ok, "C19.kinds", "pkg/common.buildElementFromPlainValue", u.pos(f.Pos()), "null bool number string array object each build the matching value", fmt.Sprintf("a JSON kind is not converted (type cases present: %v)", sortedKeys(got)))
	} else {
		R.lost("C19.kinds", "pkg/common.buildElementFromPlainValue")
	}
	// ---- C19.params
	for _, name := range []string{"FN_parseJson", "FN_generateJson"} {
		f := u.ssaFunc("stdlib/json", name)
		if f == nil {
			R.lost("C19.params", "stdlib/json."+name)
			continue
		}
		v := u.callsNamed(f, "pkg/value.ValidateExactParams")
		ok := len(v) == 1
		if ok {
			for _, in := range instrsOf(f) {
				if ta, isTA := in.(*ssa.TypeAssert); isTA && !ta.CommaOk && !dominatesInstr(v[0], ta) {
					ok = false
				}
			}
		}
		R.check(ok, "C19.params", "stdlib/json."+name, u.pos(f.Pos()), "the parameter list is validated before it is asserted", "a parameter is asserted without validation")
	}
	// ---- C19.maprange
	for _, s := range collectMapRanges(u, []string{"pkg/common", "stdlib/json"}, nil) {
		okR, pat, why := classifyMapRange(s)
		if okR {
			R.hold("C19.maprange", s.key, s.u.pos(s.rs.Pos()), "order-insensitive: "+pat)
		} else {
			R.viol("C19.maprange", s.key, s.u.pos(s.rs.Pos()), "order-sensitive: "+why)
		}
	}
}

// storeFieldAddr: the FieldAddr of the container field a write instruction goes to (field store, element store, map update, delete)
func storeFieldAddr(in ssa.Instruction) *ssa.FieldAddr {
	var v ssa.Value
	switch x := in.(type) {
	case *ssa.Store:
		v = x.Addr
	case *ssa.MapUpdate:
		v = x.Map
	case *ssa.Call:
		if len(x.Call.Args) > 0 {
			v = x.Call.Args[0]
		}
	}
	for i := 0; i < 10 && v != nil; i++ {
		switch x := v.(type) {
		case *ssa.FieldAddr:
			return x
		case *ssa.UnOp:
			v = x.X
		case *ssa.IndexAddr:
			v = x.X
		case *ssa.Slice:
			v = x.X
		default:
			return nil
		}
	}
	return nil
}

// freshObject: the pointer is an allocation made in this function (composite literal / new)
func freshObject(v ssa.Value) bool {
	switch x := v.(type) {
	case *ssa.Alloc:
		return true
	case *ssa.Phi:
		for _, e := range x.Edges {
			if !freshObject(e) {
				return false
			}
		}
		return len(x.Edges) > 0
	}
	return false
}

// onlyStoredTo: the field address is used only as the target of stores (never loaded)
func onlyStoredTo(fa *ssa.FieldAddr) bool {
	refs := fa.Referrers()
	if refs == nil {
		return false
	}
	for _, r := range *refs {
		st, ok := r.(*ssa.Store)
		if !ok || st.Addr != fa {
			return false
		}
	}
	return true
}
