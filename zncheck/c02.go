package main

import (
	"fmt"
	"go/constant"
	"go/token"
	"go/types"
	"strings"

	"golang.org/x/tools/go/ssa"
)

func init() { register("C02", checkC02) }

// blockExecutors - calls that execute a Zn statement block / statement
var blockExecIDs = []string{"pkg/exec.evalPureStmtBlock", "pkg/exec.evalStatement"}

// execsBlock: the call executes a statement block, directly or through a local closure
func execsBlock(u *Universe, call ssa.CallInstruction) bool {
	n := u.callName(call)
	for _, id := range blockExecIDs {
		if n == id {
			return true
		}
	}
	for _, fn := range closureTargets(call) {
		if len(u.callsNamed(fn, blockExecIDs...)) > 0 {
			return true
		}
	}
	// a named helper split off the calling function (all its call sites are in this function) that runs the block
	if h := call.Common().StaticCallee(); h != nil && h.Blocks != nil && h.Pkg == call.Parent().Pkg && h.Parent() == nil {
		if len(u.callsNamed(h, blockExecIDs...)) > 0 {
			sites := u.staticCallers(h)
			only := len(sites) > 0
			top := call.Parent()
			for top.Parent() != nil {
				top = top.Parent()
			}
			for _, cs := range sites {
				t2 := cs.Parent()
				for t2.Parent() != nil {
					t2 = t2.Parent()
				}
				if t2 != top {
					only = false
				}
			}
			return only
		}
	}
	return false
}

// errResult returns the error-typed result value of a call (the call itself or its last Extract)
func errResult(call ssa.CallInstruction) ssa.Value {
	v := call.Value()
	if v == nil {
		return nil
	}
	if isErrorType(v.Type()) {
		return v
	}
	if refs := v.Referrers(); refs != nil {
		for _, r := range *refs {
			if ex, ok := r.(*ssa.Extract); ok && isErrorType(ex.Type()) {
				return ex
			}
		}
	}
	return nil
}

func isCallTo(u *Universe, in ssa.Instruction, ids ...string) bool {
	n := u.callName(in)
	if n == "" {
		return false
	}
	for _, id := range ids {
		if n == id {
			return true
		}
	}
	return false
}

func checkC02(c *Ctx) {
	R := c.R
	R.Explain = "Decided on SSA of pkg/exec: (C02.retprop) after every statement-block execution inside a Go loop (每当 driver, list and dictionary pass of 遍历, the statement loop of a block) the path of a nil error " +
		"cannot reach the next pass without testing vm.GetReturnValue(), and the non-nil edge of that test leaves the loop - so 输出 ends the body from any nesting depth; (C02.signals) the three loop drivers treat a block " +
		"error identically (*zerr.Signal Continue -> next pass, Break -> return nil, anything else returned unchanged) and no other function inspects those signal kinds, so a signal reaches exactly the innermost loop; " +
		"(C02.branch) every condition is asserted *Bool (comma-ok, error otherwise), each branch block is guarded by its own condition's true edge, is followed by a return, and later conditions are evaluated only on the false edges of earlier ones; " +
		"(C02.dictorder) the dictionary pass walks the key-order list and insert / overwrite / 移除 keep that list in insertion order (same rules as C12.sync); (C02.while) the condition is evaluated on every cycle before the body; (C02.iter) the list pass binds index+1; (C02.last) a block's fall-off value is the last statement's value. " +
		"Also: on the not-a-boolean edge of every condition assertion the statement ends with an error and evaluates nothing further (…:rejects). After a failing loop body only the continue-signal edge starts the next pass; evalProgram / evalExecBlock / evalStmtBlock return the inner evaluator's value unchanged on success; a copied dictionary walks keyOrder (C02.copyorder). NOT decided: termination, what a particular program displays. (…:tested-first) after a loop body returned without error nothing of the program is evaluated before the return slot is tested; (C02.nesting = C03.indent) which 如果 a 再如/否则 line belongs to is decided by its indentation."
	R.Assumptions = []string{"vm.GetReturnValue reads the return slot of the current call frame (pkg/runtime/vm.go)", "Go's range over a slice visits elements in index order"}
	u := c.Core()
	u.buildSSA()

	// ---- C02.retprop
	nSites := 0
	for _, f := range u.srcFuncs("pkg/exec") {
		for _, in := range instrsOf(f) {
			call, ok := in.(ssa.CallInstruction)
			if !ok || !execsBlock(u, call) || !loopBlock(in.Block()) {
				continue
			}
			if _, isDefer := in.(*ssa.Defer); isDefer {
				continue
			}
			nSites++
			key := fmt.Sprintf("%s:block-exec#%d", u.fname(f), nSites)
			key = fmt.Sprintf("%s:%s", u.fname(f), siteName(u, f, call))
			errV := errResult(call)
			start, startIdx := in.Block(), instrIndex(in)+1
			if errV != nil {
				for _, t := range nilTests(f) {
					if t.X == errV {
						start, startIdx = t.OnNil, 0
					}
				}
			}
			isRV := func(x ssa.Instruction) bool { return isCallTo(u, x, "pkg/runtime.VM.GetReturnValue") }
			w := reachableAvoiding(start, startIdx, func(x ssa.Instruction) bool { return x == in }, isRV)
			if w != nil {
				R.viol("C02.retprop", key, u.pos(in.Pos()), "after the block returned without error the next loop pass can start without testing the return slot (输出 inside the loop body would not end the enclosing body)")
				continue
			}
			// … and nothing of the program is evaluated in between (the loop condition, the next element's bindings): 输出
			// ends the body immediately, before anything else can have an effect or raise an error
			evaluates := func(x ssa.Instruction) bool {
				cx, isCall := x.(*ssa.Call)
				if !isCall || x == in {
					return false
				}
				callee := cx.Call.StaticCallee()
				if callee == nil {
					// a call through a function value (block closure)
					_, isBuiltin := cx.Call.Value.(*ssa.Builtin)
					return !cx.Call.IsInvoke() && !isBuiltin
				}
				if callee.Pkg == nil || callee.Pkg != f.Pkg || len(callee.Params) == 0 {
					return false
				}
				return namedTypeIs(callee.Params[0].Type(), "pkg/runtime", "VM") && callee.Signature.Recv() == nil
			}
			if w2 := reachableAvoiding(start, startIdx, evaluates, isRV); w2 != nil {
				R.viol("C02.retprop", key+":tested-first", u.pos(in.Pos()), "after the block returned without error another part of the program is evaluated before the return slot is tested: after 输出 the loop condition (or the next pass's preparation) still runs - its effects happen and its errors replace the result")
			} else {
				R.hold("C02.retprop", key+":tested-first", u.pos(in.Pos()), "the return slot is tested before anything else is evaluated")
			}
			// the test's non-nil edge leaves the loop
			ok2 := false
			for _, t := range nilTests(f) {
				cv, isCall := t.X.(*ssa.Call)
				if !isCall || !isRV(cv) {
					continue
				}
				if reachableAvoiding(start, startIdx, func(x ssa.Instruction) bool { return x == ssa.Instruction(cv) }, func(x ssa.Instruction) bool { return x == in }) == nil {
					continue
				}
				if reachableAvoiding(t.NotNil, 0, func(x ssa.Instruction) bool { return x == in }, nil) == nil {
					ok2 = true
				} else {
					ok2 = false
					break
				}
			}
			R.check(ok2, "C02.retprop", key, u.pos(in.Pos()), "return slot tested after the block; a set slot leaves the loop", "the return-slot test does not leave the loop when the slot is set")
		}
	}
	R.min("C02.retprop", 4)

	// ---- C02.confine: 结束循环 / 继续循环 act on the innermost enclosing loop only - so a loop signal never leaves the
	// method body it was raised in: where the body's error leaves evalExecBlock (handed to the exception handling or
	// returned), it has been tested for both loop-signal kinds, and on the edges where it is one it was replaced
	if f := u.ssaFunc("pkg/exec", "evalExecBlock"); f != nil {
		sigC := constsWithPrefix(u.Pkgs["pkg/error"], "SigType")
		kinds := map[int64]bool{}
		replaced := true
		for _, b := range f.Blocks {
			ifi, ok := b.Instrs[len(b.Instrs)-1].(*ssa.If)
			if !ok {
				continue
			}
			bo, ok := ifi.Cond.(*ssa.BinOp)
			if !ok || bo.Op != token.EQL {
				continue
			}
			base, isSig := fieldLoad(bo.X, "SigType")
			cst, isConst := bo.Y.(*ssa.Const)
			if !isSig || !isConst || !namedTypeIs(base.Type(), "pkg/error", "Signal") {
				continue
			}
			if cst.Int64() != sigC["SigTypeContinue"] && cst.Int64() != sigC["SigTypeBreak"] {
				continue
			}
			kinds[cst.Int64()] = true
			// on the matching edge every later use of an error as call argument / return value is not the body's own error
			for _, in := range instrsOf(f) {
				call, isCall := in.(*ssa.Call)
				if !isCall || u.callName(call) != "pkg/exec.handleExceptionSignal" {
					continue
				}
				if !reachesFrom(b.Succs[0], call.Block()) {
					continue
				}
				for _, a := range call.Call.Args {
					if !isErrorType(a.Type()) {
						continue
					}
					// the argument on paths through the matching edge: a phi one of whose sources is a fresh error
					fresh := false
					for _, src := range allSources(a) {
						if cv, isCV := src.(*ssa.Call); isCV && cv.Call.StaticCallee() != nil && cv.Call.StaticCallee().Pkg != nil && strings.HasSuffix(cv.Call.StaticCallee().Pkg.Pkg.Path(), "pkg/error") {
							fresh = true
						}
					}
					if !fresh {
						replaced = false
					}
				}
			}
		}
		R.check(kinds[sigC["SigTypeContinue"]] && kinds[sigC["SigTypeBreak"]] && replaced, "C02.confine", "pkg/exec.evalExecBlock:loop-signals-stay-inside", u.pos(f.Pos()), "a 继续循环 / 结束循环 signal that reaches the end of a method body is replaced by an error before it leaves", "a loop signal raised outside any loop of a method body leaves the call as it is: it continues or ends a loop of the CALLER (结束循环 in a called method stops the caller's 遍历)")
	} else {
		R.lost("C02.confine", "pkg/exec.evalExecBlock")
	}

	// which branch a 再如 / 否则 line belongs to is decided by indentation (rules of C03.indent)
	borrowRule(c, "C03", "C03.indent", "C02.nesting")

	// ---- C02.signals
	sigConsts := constsWithPrefix(u.Pkgs["pkg/error"], "SigType")
	cont, brk := sigConsts["SigTypeContinue"], sigConsts["SigTypeBreak"]
	drivers := map[string]bool{"pkg/exec.evalWhileLoopStmt": true, "pkg/exec.evalIterateStmt": true}
	// signal-kind predicates: helpers `func(err error, kind uint8) bool` that answer true only for a *Signal
	// whose SigType equals the kind parameter; a test through such a helper counts like the inline test
	sigPred := map[*ssa.Function]int{}
	for _, f := range u.srcFuncs("pkg/exec") {
		if idx, ok := signalPredicate(f); ok {
			sigPred[f] = idx
		}
	}
	// loop-signal resolvers: helpers `func(err error) (keepLooping bool, loopErr error)` that answer (true, nil) for
	// a continue signal, (false, nil) for a break signal and (false, err) for everything else
	sigResolver := map[*ssa.Function]int{}
	for _, f := range u.srcFuncs("pkg/exec") {
		if idx, ok := loopSignalResolver(f, cont, brk); ok {
			sigResolver[f] = idx
		}
	}
	resolverCall := func(v ssa.Value) (*ssa.Call, bool) {
		ex, ok := v.(*ssa.Extract)
		if !ok {
			return nil, false
		}
		call, ok := ex.Tuple.(*ssa.Call)
		if !ok {
			return nil, false
		}
		_, isRes := sigResolver[call.Call.StaticCallee()]
		return call, isRes && call.Call.StaticCallee() != nil
	}
	for _, f := range u.srcFuncs("pkg/exec") {
		fn := u.fname(f)
		if _, isPred := sigPred[f]; isPred {
			continue
		}
		if _, isRes := sigResolver[f]; isRes {
			continue
		}
		// tests of a resolver's keep-looping answer
		for _, b := range f.Blocks {
			ifi, ok := b.Instrs[len(b.Instrs)-1].(*ssa.If)
			if !ok {
				continue
			}
			ex, isEx := ifi.Cond.(*ssa.Extract)
			call, isRes := resolverCall(ifi.Cond)
			if !isEx || !isRes || ex.Index != 0 {
				continue
			}
			if !drivers[fn] {
				R.viol("C02.signals", fn+":inspects-loop-signal", u.pos(ifi.Pos()), "a function other than the loop drivers inspects the continue/break signal: the signal would not reach the innermost enclosing loop")
				continue
			}
			var B ssa.Instruction
			for _, in := range instrsOf(f) {
				if c2, ok := in.(ssa.CallInstruction); ok && execsBlock(u, c2) && loopBlock(in.Block()) && in.Block().Dominates(b) {
					B = in
				}
			}
			if B == nil || call.Call.Args[sigResolver[call.Call.StaticCallee()]] != errResult(B.(ssa.CallInstruction)) {
				R.viol("C02.signals", fn+":signal-test", u.pos(ifi.Pos()), "signal test is not associated with a block execution")
				continue
			}
			site := siteName(u, f, B.(ssa.CallInstruction))
			isB := func(x ssa.Instruction) bool { return x == B }
			isRet := func(x ssa.Instruction) bool { _, ok := x.(*ssa.Return); return ok }
			w := reachableAvoiding(b.Succs[0], 0, isB, isRet)
			R.check(w != nil, "C02.signals", fn+":"+site+":continue", u.pos(ifi.Pos()), "继续循环 starts the next pass of this loop", "继续循环 does not lead to the next pass of its loop")
			// not keep-looping: the loop is left returning the resolver's error answer (nil for a break, the error itself otherwise)
			okBrk := reachableAvoiding(b.Succs[1], 0, isB, nil) == nil
			for _, rr := range returnsReachable(b.Succs[1], 0, isB) {
				ev := errorOperand(rr.Ret)
				e2, isE2 := ev.(*ssa.Extract)
				if !isE2 || e2.Tuple != ssa.Value(call) || e2.Index != 1 {
					okBrk = false
				}
			}
			R.check(okBrk, "C02.signals", fn+":"+site+":break", u.pos(ifi.Pos()), "结束循环 leaves this loop returning no error", "结束循环 does not leave its loop cleanly (returns an error or continues looping)")
		}
		for _, b := range f.Blocks {
			ifi, ok := b.Instrs[len(b.Instrs)-1].(*ssa.If)
			if !ok {
				continue
			}
			var k int64
			switch cnd := ifi.Cond.(type) {
			case *ssa.BinOp:
				if cnd.Op != token.EQL {
					continue
				}
				base, isSig := fieldLoad(cnd.X, "SigType")
				cst, isConst := cnd.Y.(*ssa.Const)
				if !isSig || !isConst || !namedTypeIs(base.Type(), "pkg/error", "Signal") {
					continue
				}
				k = cst.Int64()
			case *ssa.Call:
				callee := cnd.Call.StaticCallee()
				idx, isPred := sigPred[callee]
				if callee == nil || !isPred || idx >= len(cnd.Call.Args) {
					continue
				}
				cst, isConst := cnd.Call.Args[idx].(*ssa.Const)
				if !isConst {
					continue
				}
				k = cst.Int64()
			default:
				continue
			}
			if k != cont && k != brk {
				continue
			}
			if fn == "pkg/exec.evalExecBlock" {
				// the boundary of a method body: a loop signal that reaches it belongs to no loop of the body and is
				// turned into an error there (checked below, C02.confine)
				continue
			}
			if !drivers[fn] {
				R.viol("C02.signals", fn+":inspects-loop-signal", u.pos(ifi.Pos()), "a function other than the loop drivers inspects the continue/break signal: the signal would not reach the innermost enclosing loop")
				continue
			}
			// the block execution this test belongs to: nearest dominating block-exec call
			var B ssa.Instruction
			for _, in := range instrsOf(f) {
				if call, ok := in.(ssa.CallInstruction); ok && execsBlock(u, call) && loopBlock(in.Block()) && in.Block().Dominates(b) {
					B = in
				}
			}
			if B == nil {
				R.viol("C02.signals", fn+":signal-test", u.pos(ifi.Pos()), "signal test is not associated with a block execution")
				continue
			}
			site := siteName(u, f, B.(ssa.CallInstruction))
			isB := func(x ssa.Instruction) bool { return x == B }
			isRet := func(x ssa.Instruction) bool { _, ok := x.(*ssa.Return); return ok }
			if k == cont {
				w := reachableAvoiding(b.Succs[0], 0, isB, isRet)
				R.check(w != nil, "C02.signals", fn+":"+site+":continue", u.pos(ifi.Pos()), "继续循环 starts the next pass of this loop", "继续循环 does not lead to the next pass of its loop")
			} else {
				okBrk := reachableAvoiding(b.Succs[0], 0, isB, nil) == nil
				for _, rr := range returnsReachable(b.Succs[0], 0, isB) {
					ev := errorOperand(rr.Ret)
					if ev == nil || !isNilConst(ev) {
						okBrk = false
					}
				}
				R.check(okBrk, "C02.signals", fn+":"+site+":break", u.pos(ifi.Pos()), "结束循环 leaves this loop returning no error", "结束循环 does not leave its loop cleanly (returns an error or continues looping)")
			}
		}
	}
	// other errors are returned unchanged by the drivers
	for _, fname := range []string{"evalWhileLoopStmt", "evalIterateStmt"} {
		f := u.ssaFunc("pkg/exec", fname)
		if f == nil {
			R.lost("C02.signals", "pkg/exec."+fname)
			continue
		}
		for _, in := range instrsOf(f) {
			call, ok := in.(ssa.CallInstruction)
			if !ok || !execsBlock(u, call) || !loopBlock(in.Block()) {
				continue
			}
			errV := errResult(call)
			okOther := errV != nil
			found := false
			if errV != nil {
				for _, t := range nilTests(f) {
					if t.X != errV {
						continue
					}
					for _, rr := range returnsReachable(t.NotNil, 0, func(x ssa.Instruction) bool { return x == in }) {
						// only the error-handling region of this block execution
						if !t.NotNil.Dominates(rr.Ret.Block()) {
							continue
						}
						ev := errorOperand(rr.Ret)
						if rc, isRes := resolverCall(ev); isRes && rc.Call.Args[sigResolver[rc.Call.StaticCallee()]] == errV {
							found = true // (false, err) for everything that is not a loop signal - checked in the resolver
						} else if ev == errV {
							found = true
						} else if ev == nil || !isNilConst(ev) {
							okOther = false
						}
					}
				}
			}
			R.check(okOther && found, "C02.signals", "pkg/exec."+fname+":"+siteName(u, f, call)+":other-error", u.pos(in.Pos()),
				"any other error of the block is returned unchanged", "an error of the loop body is swallowed or replaced by the loop driver")
			// after a failing body the next pass starts only over the "it is a continue signal" edge: every other
			// signal or error (an exception raised in the body, 输出 …) leaves the loop
			if errV != nil {
				contEdges := map[cfgEdge]bool{}
				for _, b := range f.Blocks {
					ifi, isIf := b.Instrs[len(b.Instrs)-1].(*ssa.If)
					if !isIf {
						continue
					}
					switch cnd := ifi.Cond.(type) {
					case *ssa.BinOp:
						if _, isSig := fieldLoad(cnd.X, "SigType"); isSig && cnd.Op == token.EQL {
							if k, isK := cnd.Y.(*ssa.Const); isK && k.Int64() == cont {
								contEdges[cfgEdge{b, b.Succs[0]}] = true
							}
						}
					case *ssa.Call:
						if idx, isPred := sigPred[cnd.Call.StaticCallee()]; isPred && cnd.Call.StaticCallee() != nil && idx < len(cnd.Call.Args) {
							if k, isK := cnd.Call.Args[idx].(*ssa.Const); isK && k.Int64() == cont {
								contEdges[cfgEdge{b, b.Succs[0]}] = true
							}
						}
					case *ssa.Extract:
						if _, isRes := resolverCall(cnd); isRes && cnd.Index == 0 {
							contEdges[cfgEdge{b, b.Succs[0]}] = true
						}
					}
				}
				okOnly := true
				for _, t := range nilTests(f) {
					if t.X != errV {
						continue
					}
					if reachableAvoidingE(t.NotNil, 0, func(x ssa.Instruction) bool { return x == in }, nil, nil, contEdges) != nil {
						okOnly = false
					}
				}
				R.check(okOnly, "C02.signals", "pkg/exec."+fname+":"+siteName(u, f, call)+":only-continue-repeats", u.pos(in.Pos()),
					"after a failing body only a 继续循环 signal starts the next pass", "after a failing body the loop can go on although the error is not a 继续循环 signal: an exception (or 输出) raised in the body is swallowed and the loop keeps running")
			}
		}
	}
	R.min("C02.signals", 9)

	// ---- C02.branch
	if f := u.ssaFunc("pkg/exec", "evalBranchStmt"); f != nil {
		fn := "pkg/exec.evalBranchStmt"
		blocks := u.callsNamed(f, "pkg/exec.evalPureStmtBlock")
		conds := u.callsNamed(f, "pkg/exec.evalExpression")
		isEval := func(x ssa.Instruction) bool {
			return isCallTo(u, x, "pkg/exec.evalPureStmtBlock", "pkg/exec.evalExpression")
		}
		for i, b := range blocks {
			w := reachableAvoiding(b.Block(), instrIndex(b)+1, isEval, nil)
			R.check(w == nil, "C02.branch", fmt.Sprintf("%s:block#%d:then-return", fn, i+1), u.pos(b.Pos()), "after a branch block nothing else of the statement is evaluated", "after a branch block another condition or block can be evaluated")
			// guarded by the true edge of a (*Bool).GetValue() test or of the HasElse field
			guarded := false
			for _, d := range f.Blocks {
				ifi, ok := d.Instrs[len(d.Instrs)-1].(*ssa.If)
				if !ok || !edgeDominates(d, d.Succs[0], b.Block()) {
					continue
				}
				if cv, ok := ifi.Cond.(*ssa.Call); ok && u.callName(cv) == "pkg/value.Bool.GetValue" {
					guarded = true
				}
				if _, ok := fieldLoad(ifi.Cond, "HasElse"); ok {
					guarded = true
				}
			}
			R.check(guarded, "C02.branch", fmt.Sprintf("%s:block#%d:guard", fn, i+1), u.pos(b.Pos()), "block runs only on the true edge of its own condition (or 否则)", "a branch block is not guarded by the true edge of a boolean condition")
		}
		// every *Bool assertion is comma-ok
		nb := 0
		for _, in := range instrsOf(f) {
			if ta, ok := in.(*ssa.TypeAssert); ok && namedTypeIs(ta.AssertedType, "pkg/value", "Bool") {
				nb++
				R.check(assertIsTested(ta), "C02.branch", fmt.Sprintf("%s:bool-assert#%d", fn, nb), u.pos(ta.Pos()), "non-boolean condition is tested and rejected", "condition is asserted *Bool without a test (non-boolean condition would panic)")
				// the not-a-boolean edge ends the statement with an error: nothing else is evaluated from there
				rejected, found := true, false
				for _, r := range *ta.Referrers() {
					ex, isEx := r.(*ssa.Extract)
					if !isEx || ex.Index != 1 {
						continue
					}
					for _, d := range f.Blocks {
						ifi, isIf := d.Instrs[len(d.Instrs)-1].(*ssa.If)
						if !isIf {
							continue
						}
						cond, neg := ifi.Cond, false
						if un, isUn := cond.(*ssa.UnOp); isUn && un.Op == token.NOT {
							cond, neg = un.X, true
						}
						if cond != ssa.Value(ex) {
							continue
						}
						found = true
						notOk := d.Succs[1]
						if neg {
							notOk = d.Succs[0]
						}
						if reachableAvoiding(notOk, 0, isEval, nil) != nil {
							rejected = false
						}
						for _, rr := range returnsReachable(notOk, 0, nil) {
							if ev := errorOperand(rr.Ret); ev == nil || isNilConst(ev) {
								rejected = false
							}
						}
					}
				}
				R.check(found && rejected, "C02.branch", fmt.Sprintf("%s:bool-assert#%d:rejects", fn, nb), u.pos(ta.Pos()), "a non-boolean condition ends the statement with an error", "a non-boolean condition is skipped or treated as false: the next condition / branch is still evaluated instead of raising an error")
			}
		}
		// later conditions only on the false edges of the first one
		if len(conds) >= 2 {
			first := conds[0]
			var firstIf *ssa.BasicBlock
			for _, d := range f.Blocks {
				if ifi, ok := d.Instrs[len(d.Instrs)-1].(*ssa.If); ok {
					if cv, ok := ifi.Cond.(*ssa.Call); ok && u.callName(cv) == "pkg/value.Bool.GetValue" && dominatesInstr(first, ifi) {
						if firstIf == nil || d.Dominates(firstIf) {
							firstIf = d
						}
					}
				}
			}
			okOrder := firstIf != nil
			if firstIf != nil {
				for _, cnd := range conds[1:] {
					if !edgeDominates(firstIf, firstIf.Succs[1], cnd.Block()) && !firstIf.Succs[1].Dominates(cnd.Block()) {
						okOrder = false
					}
				}
			}
			R.check(okOrder, "C02.branch", fn+":first-true-branch", u.pos(f.Pos()), "再如 conditions are evaluated only after 如果 was false", "a later condition can be evaluated although an earlier one was true")
		}
		R.min("C02.branch", 8)
	} else {
		R.lost("C02.branch", "pkg/exec.evalBranchStmt")
	}

	// a copied dictionary keeps its insertion order (every 令 / assignment copies): the copy walks keyOrder
	borrowRule(c, "C11", "C11.order", "C02.copyorder")
	// ---- C02.while
	if f := u.ssaFunc("pkg/exec", "evalWhileLoopStmt"); f != nil {
		conds := u.callsNamed(f, "pkg/exec.evalExpression")
		bodies := u.callsNamed(f, "pkg/exec.evalPureStmtBlock")
		ok := len(conds) == 1 && len(bodies) == 1
		if ok {
			ok = dominatesInstr(conds[0], bodies[0]) &&
				reachableAvoiding(bodies[0].Block(), instrIndex(bodies[0])+1, func(x ssa.Instruction) bool { return x == ssa.Instruction(bodies[0]) }, func(x ssa.Instruction) bool { return x == ssa.Instruction(conds[0]) }) == nil
		}
		// body only on the true edge of GetValue()
		guard := false
		if ok {
			for _, d := range f.Blocks {
				if ifi, isIf := d.Instrs[len(d.Instrs)-1].(*ssa.If); isIf {
					if cv, isC := ifi.Cond.(*ssa.Call); isC && u.callName(cv) == "pkg/value.Bool.GetValue" && d.Succs[0].Dominates(bodies[0].Block()) {
						guard = true
					}
				}
			}
		}
		R.check(ok && guard, "C02.while", "pkg/exec.evalWhileLoopStmt", u.pos(f.Pos()), "the condition is re-tested before every pass and the body runs only while it is 真", "每当 can run a pass without re-testing its condition")
	} else {
		R.lost("C02.while", "pkg/exec.evalWhileLoopStmt")
	}

	// ---- C02.iter : list pass binds index+1
	if f := u.ssaFunc("pkg/exec", "evalIterateStmt"); f != nil {
		okIdx := false
		for _, nn := range u.callsNamed(f, "pkg/value.NewNumber") {
			arg := nn.Common().Args[0]
			if cv, ok := arg.(*ssa.Convert); ok {
				if bo, ok := cv.X.(*ssa.BinOp); ok && bo.Op == token.ADD {
					if k, ok := bo.Y.(*ssa.Const); ok && k.Value != nil && k.Value.Kind() == constant.Int && k.Int64() == 1 {
						// X must be the range index itself: the value that indexes the list in this loop
						for _, in2 := range instrsOf(f) {
							if ia, ok := in2.(*ssa.IndexAddr); ok && ia.Index == bo.X && loopBlock(ia.Block()) {
								okIdx = true
							}
						}
					}
				}
			}
		}
		R.check(okIdx, "C02.iter", "pkg/exec.evalIterateStmt:index", u.pos(f.Pos()), "list elements are visited with 1-based index (range index + 1)", "the index bound for list iteration is not range index + 1")
	} else {
		R.lost("C02.iter", "pkg/exec.evalIterateStmt")
	}

	// ---- C02.dictorder: 遍历 over a dictionary follows keyOrder (C11.order) and the owners keep keyOrder = insertion order
	ruleKeyOrderSync(c, u, "C02.dictorder")
	if f := u.ssaFunc("pkg/exec", "evalIterateStmt"); f != nil {
		R.check(len(u.callsNamed(f, "pkg/value.HashMap.GetKeyOrder")) == 1, "C02.dictorder", "pkg/exec.evalIterateStmt:GetKeyOrder", u.pos(f.Pos()), "the dictionary pass walks GetKeyOrder()", "the dictionary pass does not walk the key-order list")
	}

	// ---- C02.last
	if f := u.ssaFunc("pkg/exec", "evalPureStmtBlock"); f != nil {
		stmts := u.callsNamed(f, "pkg/exec.evalStatement")
		ok := false
		if len(stmts) == 1 {
			for _, b := range f.Blocks {
				ret, isRet := b.Instrs[len(b.Instrs)-1].(*ssa.Return)
				if !isRet || len(ret.Results) != 2 {
					continue
				}
				for _, s := range allSources(retValue(ret, 0)) {
					if ex, isEx := s.(*ssa.Extract); isEx && ex.Tuple == stmts[0].Value() && ex.Index == 0 {
						ok = true
					}
				}
			}
		}
		R.check(ok, "C02.last", "pkg/exec.evalPureStmtBlock", u.pos(f.Pos()), "without 输出 the block yields the value of its last statement", "the fall-off value of a block is not the last statement's value")
	} else {
		R.lost("C02.last", "pkg/exec.evalPureStmtBlock")
	}
	// the value is handed upwards unchanged: when the inner evaluator succeeded, the outer one returns exactly its value
	for _, pr := range [][2]string{{"evalExecBlock", "pkg/exec.evalStmtBlock"}, {"evalStmtBlock", "pkg/exec.evalPureStmtBlock"}, {"evalProgram", "pkg/exec.evalExecBlock"}} {
		f := u.ssaFunc("pkg/exec", pr[0])
		if f == nil {
			R.lost("C02.last", "pkg/exec."+pr[0])
			continue
		}
		calls := u.callsNamed(f, pr[1])
		ok := len(calls) >= 1
		for _, cs := range calls {
			errV := errResult(cs)
			start, idx := cs.Block(), instrIndex(cs)+1
			for _, t := range nilTests(f) {
				if errV != nil && t.X == errV {
					start, idx = t.OnNil, 0
				}
			}
			nRet := 0
			for _, rr := range returnsReachable(start, idx, nil) {
				if ev := errorOperand(rr.Ret); ev != nil && (rr.NonNil[ev] || provablyNonNilError(ev)) {
					continue
				}
				if start != cs.Block() && !start.Dominates(rr.Ret.Block()) {
					continue
				}
				nRet++
				for _, src := range allSources(retValue(rr.Ret, 0)) {
					ex, isEx := src.(*ssa.Extract)
					if !isEx || ex.Tuple != cs.Value() || ex.Index != 0 {
						ok = false
					}
				}
			}
			if nRet == 0 {
				ok = false
			}
		}
		R.check(ok, "C02.last", "pkg/exec."+pr[0]+":passes-value-up", u.pos(f.Pos()), "on success the value of "+shortName(pr[1])+" is returned unchanged", "the value computed by "+shortName(pr[1])+" is not what "+pr[0]+" returns on success (a body without 输出 no longer yields its final expression statement)")
	}
}

// siteName gives a stable name to a call site: callee name + ordinal among the same callee in f
func siteName(u *Universe, f *ssa.Function, call ssa.CallInstruction) string {
	name := u.callName(call)
	if name == "" {
		name = "closure"
		if fns := closureTargets(call); len(fns) > 0 {
			name = "closure(" + u.fname(fns[0]) + ")"
		}
	}
	n := 0
	for _, in := range instrsOf(f) {
		if c2, ok := in.(ssa.CallInstruction); ok {
			n2 := u.callName(c2)
			if n2 == "" {
				n2 = "closure"
				if fns := closureTargets(c2); len(fns) > 0 {
					n2 = "closure(" + u.fname(fns[0]) + ")"
				}
			}
			if n2 == name {
				n++
				if c2 == call {
					return fmt.Sprintf("%s#%d", shortName(name), n)
				}
			}
		}
	}
	return shortName(name)
}

func shortName(s string) string {
	for i := len(s) - 1; i >= 0; i-- {
		if s[i] == '/' {
			return s[i+1:]
		}
	}
	return s
}

// signalPredicate: f(…, kind, …) bool returns true only when an argument is a *zerr.Signal whose SigType
// equals the parameter `kind` (every returned value is the constant false or that comparison)
func signalPredicate(f *ssa.Function) (int, bool) {
	res := f.Signature.Results()
	if res.Len() != 1 || len(f.Blocks) == 0 {
		return 0, false
	}
	if b, ok := res.At(0).Type().Underlying().(*types.Basic); !ok || b.Kind() != types.Bool {
		return 0, false
	}
	kind := -1
	for _, b := range f.Blocks {
		ret, ok := b.Instrs[len(b.Instrs)-1].(*ssa.Return)
		if !ok {
			continue
		}
		for _, s := range allSources(retValue(ret, 0)) {
			switch x := s.(type) {
			case *ssa.Const:
				if x.Value == nil || constant.BoolVal(x.Value) {
					return 0, false
				}
			case *ssa.BinOp:
				if x.Op != token.EQL {
					return 0, false
				}
				l, r := x.X, x.Y
				if _, isP := l.(*ssa.Parameter); isP {
					l, r = r, l
				}
				base, isSig := fieldLoad(l, "SigType")
				par, isPar := r.(*ssa.Parameter)
				if !isSig || !isPar || !namedTypeIs(base.Type(), "pkg/error", "Signal") {
					return 0, false
				}
				for i, q := range f.Params {
					if q == par {
						if kind >= 0 && kind != i {
							return 0, false
						}
						kind = i
					}
				}
			default:
				return 0, false
			}
		}
	}
	return kind, kind >= 0
}

// loopSignalResolver: f(err) (bool, error) with exactly these answers: on the continue-signal edge (true, nil), on
// the break-signal edge (false, nil), everywhere else (false, err). Returns the index of the error parameter.
func loopSignalResolver(f *ssa.Function, cont, brk int64) (int, bool) {
	res := f.Signature.Results()
	if res.Len() != 2 || !isErrorType(res.At(1).Type()) || len(f.Blocks) == 0 {
		return 0, false
	}
	if b, ok := res.At(0).Type().Underlying().(*types.Basic); !ok || b.Kind() != types.Bool {
		return 0, false
	}
	errIdx := -1
	for i, p := range f.Params {
		if isErrorType(p.Type()) {
			errIdx = i
		}
	}
	if errIdx < 0 {
		return 0, false
	}
	// edges on which the signal kind is known
	kindEdge := map[*ssa.BasicBlock]int64{} // block dominated by the true edge of SigType == k
	type kedge struct {
		from, to *ssa.BasicBlock
		k        int64
	}
	var kedges []kedge
	for _, b := range f.Blocks {
		ifi, ok := b.Instrs[len(b.Instrs)-1].(*ssa.If)
		if !ok {
			continue
		}
		bo, ok := ifi.Cond.(*ssa.BinOp)
		if !ok || bo.Op != token.EQL {
			continue
		}
		base, isSig := fieldLoad(bo.X, "SigType")
		k, isK := bo.Y.(*ssa.Const)
		if !isSig || !isK || !namedTypeIs(base.Type(), "pkg/error", "Signal") {
			continue
		}
		kedges = append(kedges, kedge{b, b.Succs[0], k.Int64()})
	}
	_ = kindEdge
	seen := map[string]bool{}
	for _, b := range f.Blocks {
		ret, ok := b.Instrs[len(b.Instrs)-1].(*ssa.Return)
		if !ok {
			continue
		}
		kind := "other"
		for _, ke := range kedges {
			if edgeDominates(ke.from, ke.to, b) {
				switch ke.k {
				case cont:
					kind = "cont"
				case brk:
					kind = "brk"
				default:
					return 0, false
				}
			}
		}
		kb, isKB := retValue(ret, 0).(*ssa.Const)
		if !isKB || kb.Value == nil || kb.Value.Kind() != constant.Bool {
			return 0, false
		}
		keep := constant.BoolVal(kb.Value)
		ev := retValue(ret, 1)
		switch kind {
		case "cont":
			if !keep || !isNilConst(ev) {
				return 0, false
			}
		case "brk":
			if keep || !isNilConst(ev) {
				return 0, false
			}
		default:
			if keep || ev != ssa.Value(f.Params[errIdx]) {
				return 0, false
			}
		}
		seen[kind] = true
	}
	return errIdx, seen["cont"] && seen["brk"] && seen["other"]
}
