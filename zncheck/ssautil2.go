package main

import (
	"go/constant"
	"go/token"
	"go/types"
	"sort"
	"strings"

	"golang.org/x/tools/go/ssa"
)

// ---------- path search that remembers which error values are known non-nil / nil on the path

type pathState struct {
	b     *ssa.BasicBlock
	idx   int
	known string // sorted names of values known non-nil on this path
}

// returnsReachable enumerates the Return instructions reachable from (block, idx) without passing
// a barrier instruction, together with the set of values known non-nil on the path that reaches
// them (edges of `v != nil` / `v == nil` tests taken on the path).
type reachedReturn struct {
	Ret    *ssa.Return
	NonNil map[ssa.Value]bool
	IsNil  map[ssa.Value]bool
}

func returnsReachable(from *ssa.BasicBlock, fromIdx int, barrier func(ssa.Instruction) bool) []reachedReturn {
	type st struct {
		b      *ssa.BasicBlock
		i      int
		nonnil map[ssa.Value]bool
		isnil  map[ssa.Value]bool
	}
	keyOf := func(s st) string {
		var ks []string
		for v := range s.nonnil {
			ks = append(ks, "+"+v.Name())
		}
		for v := range s.isnil {
			ks = append(ks, "-"+v.Name())
		}
		sort.Strings(ks)
		return strings.Join(ks, ",")
	}
	seen := map[*ssa.BasicBlock]map[string]bool{}
	var out []reachedReturn
	work := []st{{from, fromIdx, map[ssa.Value]bool{}, map[ssa.Value]bool{}}}
	for len(work) > 0 {
		s := work[len(work)-1]
		work = work[:len(work)-1]
		blocked := false
		for i := s.i; i < len(s.b.Instrs); i++ {
			in := s.b.Instrs[i]
			if barrier != nil && barrier(in) {
				blocked = true
				break
			}
			if r, ok := in.(*ssa.Return); ok {
				out = append(out, reachedReturn{r, s.nonnil, s.isnil})
			}
		}
		if blocked || len(s.b.Instrs) == 0 {
			continue
		}
		last := s.b.Instrs[len(s.b.Instrs)-1]
		for si, succ := range s.b.Succs {
			nn, isn := s.nonnil, s.isnil
			if ifi, ok := last.(*ssa.If); ok {
				if bo, ok := ifi.Cond.(*ssa.BinOp); ok && (bo.Op == token.EQL || bo.Op == token.NEQ) {
					var x ssa.Value
					if isNilConst(bo.Y) {
						x = bo.X
					} else if isNilConst(bo.X) {
						x = bo.Y
					}
					if x != nil {
						// succ 0 = condition true
						condTrue := si == 0
						valueIsNil := (bo.Op == token.EQL) == condTrue
						nn, isn = copySet(s.nonnil), copySet(s.isnil)
						if valueIsNil {
							isn[x] = true
						} else {
							nn[x] = true
						}
					}
				}
			}
			n := st{succ, 0, nn, isn}
			k := keyOf(n)
			if seen[succ] == nil {
				seen[succ] = map[string]bool{}
			}
			if seen[succ][k] {
				continue
			}
			seen[succ][k] = true
			work = append(work, n)
		}
	}
	return out
}

func copySet(m map[ssa.Value]bool) map[ssa.Value]bool {
	n := map[ssa.Value]bool{}
	for k, v := range m {
		n[k] = v
	}
	return n
}

// errorOperand returns the last result of a Return if it has the `error` interface type
func errorOperand(r *ssa.Return) ssa.Value {
	if len(r.Results) == 0 {
		return nil
	}
	v := retValue(r, len(r.Results)-1)
	if isErrorType(v.Type()) {
		return v
	}
	return nil
}

// retValue resolves result i of a Return. In functions with defer statements go/ssa spills results:
//
//	*res = v; rundefers; t = *res; return t
//
// the value is then the last store to the result cell in the same block.
func retValue(r *ssa.Return, i int) ssa.Value {
	v := r.Results[i]
	un, ok := v.(*ssa.UnOp)
	if !ok || un.Op != token.MUL {
		return v
	}
	a, ok := un.X.(*ssa.Alloc)
	if !ok {
		return v
	}
	var last ssa.Value
	for _, in := range r.Block().Instrs {
		if in == ssa.Instruction(un) {
			break
		}
		if st, ok := in.(*ssa.Store); ok && st.Addr == a {
			last = st.Val
		}
	}
	if last != nil {
		return last
	}
	return v
}

func isErrorType(t types.Type) bool {
	n, ok := t.(*types.Named)
	return ok && n.Obj().Pkg() == nil && n.Obj().Name() == "error"
}

// provablyNonNilError: v is a freshly built error (interface made from a non-nil pointer / call of a
// constructor returning a concrete pointer type)
func provablyNonNilError(v ssa.Value) bool {
	seen := map[ssa.Value]bool{}
	var walk func(v ssa.Value) bool
	walk = func(v ssa.Value) bool {
		if seen[v] {
			return true
		}
		seen[v] = true
		switch x := v.(type) {
		case *ssa.MakeInterface:
			return true // an interface made of a concrete value is never the nil interface
		case *ssa.Phi:
			for _, e := range x.Edges {
				if !walk(e) {
					return false
				}
			}
			return true
		case *ssa.ChangeInterface:
			return walk(x.X)
		}
		return false
	}
	return walk(v)
}

// ---------- intraprocedural taint flow

type taintSpec struct {
	source  func(v ssa.Value) bool    // values that start tainted
	cleanse func(call *ssa.Call) bool // calls whose result is clean even with tainted args
	passes  func(call *ssa.Call) bool // calls that propagate taint from args to result (default: none)
}

// taintedValues computes the set of tainted SSA values of f (forward closure over referrers)
func taintedValues(f *ssa.Function, spec taintSpec) map[ssa.Value]bool {
	tainted := map[ssa.Value]bool{}
	var work []ssa.Value
	add := func(v ssa.Value) {
		if v != nil && !tainted[v] {
			tainted[v] = true
			work = append(work, v)
		}
	}
	for _, p := range f.Params {
		if spec.source(p) {
			add(p)
		}
	}
	for _, in := range instrsOf(f) {
		if v, ok := in.(ssa.Value); ok && spec.source(v) {
			add(v)
		}
	}
	for len(work) > 0 {
		v := work[len(work)-1]
		work = work[:len(work)-1]
		refs := v.Referrers()
		if refs == nil {
			continue
		}
		for _, r := range *refs {
			switch x := r.(type) {
			case *ssa.Phi, *ssa.ChangeInterface, *ssa.MakeInterface, *ssa.ChangeType, *ssa.Convert,
				*ssa.TypeAssert, *ssa.Extract, *ssa.Field, *ssa.Next, *ssa.Range:
				add(x.(ssa.Value))
			case *ssa.Index:
				if x.X == v { // the container operand, not the index
					add(x)
				}
			case *ssa.Lookup:
				if x.X == v {
					add(x)
				}
			case *ssa.Slice:
				if x.X == v {
					add(x)
				}
			case *ssa.UnOp:
				add(x)
			case *ssa.FieldAddr:
				// address of a field of a tainted struct pointer: loads from it are tainted only if
				// the field holds container data; conservative: propagate
				add(x)
			case *ssa.IndexAddr:
				if x.X == v {
					add(x)
				}
			case *ssa.Store:
				// storing a tainted value into a local alloc taints the alloc's loads
				if x.Val == v {
					if a, ok := x.Addr.(*ssa.Alloc); ok {
						add(a)
					}
				}
			case *ssa.Call:
				if spec.cleanse != nil && spec.cleanse(x) {
					continue
				}
				if spec.passes != nil && spec.passes(x) {
					add(x)
				}
			}
		}
	}
	return tainted
}

// isElementType: static type is the runtime.Element interface (or an interface embedding it)
func isElementIface(t types.Type) bool {
	n, ok := t.(*types.Named)
	if !ok || n.Obj().Pkg() == nil {
		return false
	}
	return n.Obj().Name() == "Element" && strings.HasSuffix(n.Obj().Pkg().Path(), "pkg/runtime")
}

// fieldOf: v is (a load of) field `name` of a struct pointer; returns the base
func fieldLoad(v ssa.Value, name string) (ssa.Value, bool) {
	un, ok := v.(*ssa.UnOp)
	if !ok || un.Op != token.MUL {
		return nil, false
	}
	fa, ok := un.X.(*ssa.FieldAddr)
	if !ok {
		return nil, false
	}
	st, ok := fa.X.Type().Underlying().(*types.Pointer).Elem().Underlying().(*types.Struct)
	if !ok || fieldName(st.Field(fa.Field)) != name {
		return nil, false
	}
	return fa.X, true
}

// fieldAddrName returns "Type.field" for a FieldAddr
func fieldAddrName(fa *ssa.FieldAddr) string {
	pt, ok := fa.X.Type().Underlying().(*types.Pointer)
	if !ok {
		return ""
	}
	st, ok := pt.Elem().Underlying().(*types.Struct)
	if !ok {
		return ""
	}
	return recvNamed(pt.Elem()) + "." + fieldName(st.Field(fa.Field))
}

// callsTo lists call instructions (incl. defer/go) of f to the function with the given id
func (u *Universe) callSites(f *ssa.Function, ids ...string) []ssa.CallInstruction {
	return u.callsNamed(f, ids...)
}

// funcsCalling lists the source functions of the given packages that contain a call to id
func (u *Universe) funcsCalling(rels []string, id string) map[*ssa.Function][]ssa.CallInstruction {
	out := map[*ssa.Function][]ssa.CallInstruction{}
	for _, rel := range rels {
		for _, f := range u.srcFuncs(rel) {
			if cs := u.callsNamed(f, id); len(cs) > 0 {
				out[f] = cs
			}
		}
	}
	return out
}

// closureCallees: functions bound by MakeClosure values called (dynamically) in f
func closureTargets(call ssa.CallInstruction) []*ssa.Function {
	var out []*ssa.Function
	v := call.Common().Value
	for _, s := range allSources(v) {
		if mc, ok := s.(*ssa.MakeClosure); ok {
			if fn, ok := mc.Fn.(*ssa.Function); ok {
				out = append(out, fn)
			}
		}
	}
	return out
}

// sortedFuncs gives a deterministic order
func sortedFuncs(u *Universe, m map[*ssa.Function][]ssa.CallInstruction) []*ssa.Function {
	var fs []*ssa.Function
	for f := range m {
		fs = append(fs, f)
	}
	sort.Slice(fs, func(i, j int) bool { return u.fname(fs[i]) < u.fname(fs[j]) })
	return fs
}

// ---------- conditions established directly or through a guard helper

// condPred recognises a branch whose successor #idx establishes the wanted condition about subj (subj may
// be nil for conditions that have no subject value)
type condPred func(fn *ssa.Function, ifi *ssa.If, subj ssa.Value) (idx int, ok bool)

// establishedAt: on every path to block `at` of fn the condition holds - because an establishing edge of a
// recognised test dominates `at`, or because `at` is dominated by the "passed" edge of a call to a static
// helper (nil error / boolean result) all of whose corresponding returns lie behind such an edge themselves
func establishedAt(u *Universe, fn *ssa.Function, at *ssa.BasicBlock, subj ssa.Value, pred condPred, depth int) bool {
	for _, d := range fn.Blocks {
		if len(d.Instrs) == 0 {
			continue
		}
		ifi, ok := d.Instrs[len(d.Instrs)-1].(*ssa.If)
		if !ok {
			continue
		}
		if idx, ok := pred(fn, ifi, subj); ok && edgeDominates(d, d.Succs[idx], at) {
			return true
		}
		if depth <= 0 {
			continue
		}
		cond := ifi.Cond
		neg := false
		for {
			un, ok := cond.(*ssa.UnOp)
			if !ok || un.Op != token.NOT {
				break
			}
			cond, neg = un.X, !neg
		}
		switch c := cond.(type) {
		case *ssa.BinOp:
			// err != nil / err == nil where err is the error result of a helper call
			if (c.Op != token.NEQ && c.Op != token.EQL) || !isNilConst(c.Y) || !isErrorType(c.X.Type()) {
				continue
			}
			var call *ssa.Call
			switch x := c.X.(type) {
			case *ssa.Call:
				call = x
			case *ssa.Extract:
				call, _ = x.Tuple.(*ssa.Call)
			}
			if call == nil {
				continue
			}
			nilIdx := 1
			if (c.Op == token.EQL) != neg {
				nilIdx = 0
			}
			if !edgeDominates(d, d.Succs[nilIdx], at) {
				continue
			}
			if helperEstablishes(u, call, subj, pred, depth, func(ret *ssa.Return) bool {
				ev := errorOperand(ret)
				return ev != nil && !provablyNonNilError(ev)
			}) {
				return true
			}
		case *ssa.Call:
			for idx := 0; idx < 2; idx++ {
				if !edgeDominates(d, d.Succs[idx], at) {
					continue
				}
				want := (idx == 0) != neg // the boolean the helper returned on this edge
				if helperEstablishes(u, c, subj, pred, depth, func(ret *ssa.Return) bool {
					if len(ret.Results) != 1 {
						return true
					}
					for _, s := range allSources(retValue(ret, 0)) {
						k, isK := s.(*ssa.Const)
						if !isK || k.Value == nil || k.Value.Kind() != constant.Bool || constant.BoolVal(k.Value) == want {
							return true
						}
					}
					return false
				}) {
					return true
				}
			}
		}
	}
	return false
}

func helperEstablishes(u *Universe, call *ssa.Call, subj ssa.Value, pred condPred, depth int, relevant func(*ssa.Return) bool) bool {
	h := call.Call.StaticCallee()
	if h == nil || h.Blocks == nil {
		return false
	}
	var subj2 ssa.Value
	if subj != nil {
		for i, a := range call.Call.Args {
			if (a == subj || sameSlice(a, subj)) && i < len(h.Params) {
				subj2 = h.Params[i]
			}
		}
		if subj2 == nil {
			return false
		}
	}
	n := 0
	for _, b := range h.Blocks {
		ret, ok := b.Instrs[len(b.Instrs)-1].(*ssa.Return)
		if !ok || !relevant(ret) {
			continue
		}
		n++
		if !establishedAt(u, h, b, subj2, pred, depth-1) {
			return false
		}
	}
	return n > 0
}

// notNilPred: the successor on which subj != nil
func notNilPred(fn *ssa.Function, ifi *ssa.If, subj ssa.Value) (int, bool) {
	bo, ok := ifi.Cond.(*ssa.BinOp)
	if !ok || (bo.Op != token.EQL && bo.Op != token.NEQ) {
		return 0, false
	}
	x, y := bo.X, bo.Y
	if isNilConst(x) {
		x, y = y, x
	}
	if !isNilConst(y) || x != subj {
		return 0, false
	}
	if bo.Op == token.NEQ {
		return 0, true
	}
	return 1, true
}

// fieldLoadAnyName: v is a load of a struct field; returns the field's name
func fieldLoadAnyName(v ssa.Value) (string, bool) {
	un, ok := v.(*ssa.UnOp)
	if !ok || un.Op != token.MUL {
		return "", false
	}
	fa, ok := un.X.(*ssa.FieldAddr)
	if !ok {
		return "", false
	}
	n := fieldAddrName(fa)
	if i := strings.LastIndex(n, "."); i >= 0 {
		n = n[i+1:]
	}
	return n, n != ""
}

// helperOf: fn is a package-level function that is only ever called directly (no go/defer, never used as a value)
// and every one of its call sites lies in a function accepted by allowed (closures count for their parent):
// it acts on behalf of its callers. Results are names as given by u.fname.
func helpersOfAllowed(u *Universe, rels []string, allowed func(name string) bool) map[string]bool {
	out := map[string]bool{}
	ok := func(name string) bool { return allowed(name) || out[name] }
	usedAsValue := map[*ssa.Function]bool{}
	valueIn := map[*ssa.Function][]*ssa.Function{}
	for _, rel := range rels {
		for _, g := range u.srcFuncs(rel) {
			for _, in := range instrsOf(g) {
				for _, op := range in.Operands(nil) {
					if f, isF := (*op).(*ssa.Function); isF {
						if call, isCall := in.(ssa.CallInstruction); !isCall || call.Common().Value != ssa.Value(f) {
							// kept in a local table of a permitted function and called from there: still on its behalf
							root := g
							for root.Parent() != nil {
								root = root.Parent()
							}
							if allowed(u.fname(root)) {
								valueIn[f] = append(valueIn[f], root)
								continue
							}
							usedAsValue[f] = true
						}
					}
				}
			}
		}
	}
	for changed := true; changed; {
		changed = false
		for _, rel := range rels {
			for _, h := range u.srcFuncs(rel) {
				name := u.fname(h)
				if h.Parent() != nil || ok(name) || usedAsValue[h] {
					continue
				}
				sites := u.staticCallers(h)
				all := len(sites) > 0 || len(valueIn[h]) > 0
				for _, cs := range sites {
					if _, plain := cs.(*ssa.Call); !plain {
						all = false
						break
					}
					root := cs.Parent()
					for root.Parent() != nil {
						root = root.Parent()
					}
					if !ok(u.fname(root)) {
						all = false
						break
					}
				}
				if all {
					out[name] = true
					changed = true
				}
			}
		}
	}
	return out
}

// paramRoots: the parameters (of this function or, following static call sites upwards, of its callers) that v
// can come from; a nil entry stands for "something else"
func paramRoots(u *Universe, v ssa.Value, depth int) []*ssa.Parameter {
	seen := map[*ssa.Parameter]bool{}
	var out []*ssa.Parameter
	other := false
	var walk func(v ssa.Value, depth int)
	walk = func(v ssa.Value, depth int) {
		for _, src := range allSources(v) {
			par, ok := src.(*ssa.Parameter)
			if !ok {
				other = true
				continue
			}
			fn := par.Parent()
			sites := u.staticCallers(fn)
			idx := -1
			for i, q := range fn.Params {
				if q == par {
					idx = i
				}
			}
			if depth == 0 || len(sites) == 0 || idx < 0 || fn.Parent() != nil {
				if !seen[par] {
					seen[par] = true
					out = append(out, par)
				}
				continue
			}
			// stop at this parameter as well when the function is an anchor with many callers: prefer following only helpers
			followed := false
			for _, cs := range sites {
				if idx < len(cs.Common().Args) {
					walk(cs.Common().Args[idx], depth-1)
					followed = true
				}
			}
			if !followed && !seen[par] {
				seen[par] = true
				out = append(out, par)
			}
		}
	}
	walk(v, depth)
	if other {
		out = append(out, nil)
	}
	return out
}

// family: g, its closures, and the functions of the module they call directly (to the given depth), each once.
// For rules of the form "somewhere in the implementation of g, X is done": the implementation may be a closure
// today and a named helper tomorrow.
func family(g *ssa.Function, depth int) []*ssa.Function {
	seen := map[*ssa.Function]bool{}
	var out []*ssa.Function
	var add func(f *ssa.Function, d int)
	add = func(f *ssa.Function, d int) {
		if f == nil || seen[f] || f.Blocks == nil {
			return
		}
		seen[f] = true
		out = append(out, f)
		for _, a := range f.AnonFuncs {
			add(a, d)
		}
		// functions of the module used as values (a closure turned into a named function or a bound method): they stand
		// where a closure of f stood
		for _, in := range instrsOf(f) {
			for _, op := range in.Operands(nil) {
				h, isF := (*op).(*ssa.Function)
				if !isF || h == f {
					continue
				}
				if call, isCall := in.(ssa.CallInstruction); isCall && call.Common().Value == ssa.Value(h) {
					continue
				}
				if h.Synthetic != "" {
					// a bound-method / thunk wrapper: the method it forwards to
					for _, in2 := range instrsOf(h) {
						if c2, ok := in2.(ssa.CallInstruction); ok {
							if m := c2.Common().StaticCallee(); m != nil && m.Pkg != nil && strings.HasPrefix(m.Pkg.Pkg.Path(), modPath) {
								add(m, d)
							}
						}
					}
					continue
				}
				if h.Pkg != nil && strings.HasPrefix(h.Pkg.Pkg.Path(), modPath) {
					add(h, d)
				}
			}
		}
		if d == 0 {
			return
		}
		for _, in := range instrsOf(f) {
			call, ok := in.(ssa.CallInstruction)
			if !ok {
				continue
			}
			callee := call.Common().StaticCallee()
			if callee == nil || callee.Pkg == nil || !strings.HasPrefix(callee.Pkg.Pkg.Path(), modPath) {
				continue
			}
			add(callee, d-1)
		}
	}
	add(g, depth)
	return out
}

// flowsFromIP: like flowsFrom, and across function boundaries of the module: a parameter comes from the arguments
// of the function's static call sites, the result of a call of a module function from the values it returns
func flowsFromIP(u *Universe, v ssa.Value, depth int, pred func(ssa.Value) bool) bool {
	seen := map[ssa.Value]bool{}
	var walk func(v ssa.Value, d int) bool
	walk = func(v ssa.Value, d int) bool {
		hit := false
		flowsFrom(v, func(x ssa.Value) bool {
			if hit {
				return true
			}
			if pred(x) {
				hit = true
				return true
			}
			if seen[x] || d == 0 {
				return false
			}
			switch y := x.(type) {
			case *ssa.Parameter:
				seen[x] = true
				fn := y.Parent()
				idx := -1
				for i, p := range fn.Params {
					if p == y {
						idx = i
					}
				}
				for _, cs := range u.staticCallers(fn) {
					if idx >= 0 && idx < len(cs.Common().Args) && walk(cs.Common().Args[idx], d-1) {
						hit = true
						return true
					}
				}
			case *ssa.Call:
				callee := y.Call.StaticCallee()
				var callees []*ssa.Function
				if callee != nil {
					callees = []*ssa.Function{callee}
				} else if !y.Call.IsInvoke() {
					// a call through a function value: the functions of the module with that signature that the calling
					// function refers to as values (a local dispatch table)
					for _, h := range family(y.Parent(), 0)[1:] {
						if h.Parent() == nil && types.Identical(h.Signature, y.Call.Signature()) {
							callees = append(callees, h)
						}
					}
				}
				seen[x] = true
				for _, callee := range callees {
					if callee.Blocks == nil || callee.Pkg == nil || !strings.HasPrefix(callee.Pkg.Pkg.Path(), modPath) {
						continue
					}
					for _, b := range callee.Blocks {
						ret, ok := b.Instrs[len(b.Instrs)-1].(*ssa.Return)
						if !ok {
							continue
						}
						for j := range ret.Results {
							if types.Identical(ret.Results[j].Type(), v.Type()) && walk(retValue(ret, j), d-1) {
								hit = true
								return true
							}
						}
					}
				}
			}
			return false
		})
		return hit
	}
	return walk(v, depth)
}

// siteIn: the function of fam that calls the named function, with those calls (nil when none does); total is the
// number of such calls in the whole family
func siteIn(u *Universe, fam []*ssa.Function, name string) (fn *ssa.Function, calls []ssa.CallInstruction, total int) {
	for _, g := range fam {
		cs := u.callsNamed(g, name)
		total += len(cs)
		if fn == nil && len(cs) > 0 {
			fn, calls = g, cs
		}
	}
	return
}

// returnSourcesIP: the values result idx of f can be, looking through calls of other functions of f's package
// (helpers the function was split into) unless stop names them; depth bounds the expansion
func returnSourcesIP(u *Universe, f *ssa.Function, idx int, depth int, stop func(name string) bool) []ssa.Value {
	var out []ssa.Value
	seen := map[*ssa.Function]bool{}
	var visit func(g *ssa.Function, idx int, d int)
	visit = func(g *ssa.Function, idx int, d int) {
		seen[g] = true
		for _, b := range g.Blocks {
			ret, ok := b.Instrs[len(b.Instrs)-1].(*ssa.Return)
			if !ok || idx >= len(ret.Results) {
				continue
			}
			for _, s := range allSources(retValue(ret, idx)) {
				var call *ssa.Call
				ri := 0
				switch x := s.(type) {
				case *ssa.Call:
					call = x
				case *ssa.Extract:
					if cv, ok := x.Tuple.(*ssa.Call); ok {
						call, ri = cv, x.Index
					}
				}
				if call != nil && d > 0 {
					h := call.Call.StaticCallee()
					if h != nil && h.Blocks != nil && h.Pkg == f.Pkg && !seen[h] && !stop(u.callName(call)) {
						visit(h, ri, d-1)
						continue
					}
				}
				out = append(out, s)
			}
		}
	}
	visit(f, idx, depth)
	return out
}

// flowsFromDeep: like flowsFrom, also through loads of fields of the value (x.f, (*x).f)
func flowsFromDeep(v ssa.Value, pred func(ssa.Value) bool) bool {
	seen := map[ssa.Value]bool{}
	var walk func(v ssa.Value) bool
	walk = func(v ssa.Value) bool {
		if v == nil || seen[v] {
			return false
		}
		seen[v] = true
		if flowsFrom(v, pred) {
			return true
		}
		switch x := v.(type) {
		case *ssa.UnOp:
			return walk(x.X)
		case *ssa.FieldAddr:
			return walk(x.X)
		case *ssa.Field:
			return walk(x.X)
		case *ssa.TypeAssert:
			return walk(x.X)
		case *ssa.Extract:
			return walk(x.Tuple)
		case *ssa.Convert:
			return walk(x.X)
		case *ssa.Lookup:
			return walk(x.X)
		case *ssa.Index:
			return walk(x.X)
		case *ssa.IndexAddr:
			return walk(x.X)
		case *ssa.Phi:
			for _, e := range x.Edges {
				if walk(e) {
					return true
				}
			}
		}
		return false
	}
	return walk(v)
}

// reachesFrom: block to is reachable from block from along control-flow edges (from itself included)
func reachesFrom(from, to *ssa.BasicBlock) bool {
	seen := map[*ssa.BasicBlock]bool{}
	var walk func(b *ssa.BasicBlock) bool
	walk = func(b *ssa.BasicBlock) bool {
		if b == to {
			return true
		}
		if seen[b] {
			return false
		}
		seen[b] = true
		for _, s := range b.Succs {
			if walk(s) {
				return true
			}
		}
		return false
	}
	return walk(from)
}

// appendOntoSized: positions where append() extends a slice that was made with a non-zero length in the same function
// and is never written by index (the classic "make([]T, n) then append": n zero values come first)
func appendOntoSized(u *Universe, f *ssa.Function) []string {
	var out []string
	for _, in := range instrsOf(f) {
		mk, ok := in.(*ssa.MakeSlice)
		if !ok {
			continue
		}
		if k, isK := mk.Len.(*ssa.Const); isK && k.Int64() == 0 {
			continue
		}
		indexed, appended := false, ""
		seen := map[ssa.Value]bool{}
		var follow func(v ssa.Value)
		follow = func(v ssa.Value) {
			if seen[v] {
				return
			}
			seen[v] = true
			refs := v.Referrers()
			if refs == nil {
				return
			}
			for _, r := range *refs {
				switch x := r.(type) {
				case *ssa.IndexAddr:
					indexed = true
				case *ssa.Phi:
					follow(x)
				case *ssa.Store:
					// stored into a local variable: follow its loads
					if al, isAl := x.Addr.(*ssa.Alloc); isAl && x.Val == v {
						for _, r2 := range *al.Referrers() {
							if ld, isLd := r2.(*ssa.UnOp); isLd {
								follow(ld)
							}
						}
					}
				case *ssa.Call:
					if bi, isB := x.Call.Value.(*ssa.Builtin); isB {
						switch bi.Name() {
						case "append":
							if len(x.Call.Args) > 0 && x.Call.Args[0] == v {
								appended = u.pos(x.Pos())
								follow(x)
							}
						case "copy":
							indexed = true
						}
					}
				}
			}
		}
		follow(mk)
		if appended != "" && !indexed {
			out = append(out, appended)
		}
	}
	return out
}
