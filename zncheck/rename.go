package main

import (
	"encoding/json"
	"fmt"
	"go/ast"
	"go/token"
	"go/types"
	"os"
	"path/filepath"
	"sort"
	"strings"

	"golang.org/x/tools/go/packages"
)

// Renamed functions. The rules name the functions the properties are anchored in. So that giving one of them
// (or a helper) a better name is not an alarm, tables/functions.json keeps, for every function of the reference
// tree, a rename-invariant fingerprint: its signature without parameter names and the multiset of what its body
// does (signatures of module functions it calls, names of library functions, fields it touches, literals,
// statement kinds). When a listed function is missing from the analysed tree and exactly one function with a new
// name in the same package has the same receiver and signature and a sufficiently similar body, that function is
// analysed under the listed name (all name-based lookups and renderings go through the alias).

type funcRecord struct {
	Rel  string   `json:"pkg"`
	Name string   `json:"name"` // "Func" or "Type.Method"
	Sig  string   `json:"sig"`
	FP   []string `json:"fp"`
	Ord  int      `json:"ord"` // position among the declarations of its package (files in name order)
	// Callers: the functions of the module that call it directly ("pkgrel.Name"): when a listed function no longer
	// exists (inlined into its callers and deleted), the rules anchored in it look at the one caller that is left
	Callers []string `json:"callers,omitempty"`
}

type structRecord struct {
	Rel    string   `json:"pkg"`
	Name   string   `json:"name"`
	Fields []string `json:"fields"` // "name type", in declaration order
}

type inventoryFile struct {
	Functions []funcRecord   `json:"functions"`
	Structs   []structRecord `json:"structs"`
}

var fieldAlias = map[*types.Var]string{} // field object of the analysed tree -> listed field name

// astFieldName: the listed name of the field an identifier (selector or composite-literal key) denotes
func astFieldName(info *types.Info, id *ast.Ident) string {
	if v, ok := info.Uses[id].(*types.Var); ok && v.IsField() {
		return fieldName(v)
	}
	return id.Name
}

// fieldName: the listed name of a struct field (its current name unless it was renamed)
func fieldName(v *types.Var) string {
	if a, ok := fieldAlias[v]; ok {
		return a
	}
	return v.Name()
}

func structInventory(pkgs map[string]*packages.Package) []structRecord {
	var out []structRecord
	var rels []string
	for rel := range pkgs {
		rels = append(rels, rel)
	}
	sort.Strings(rels)
	q := func(p *types.Package) string { return p.Name() }
	for _, rel := range rels {
		sc := pkgs[rel].Types.Scope()
		for _, n := range sc.Names() {
			tn, ok := sc.Lookup(n).(*types.TypeName)
			if !ok {
				continue
			}
			st, ok := tn.Type().Underlying().(*types.Struct)
			if !ok {
				continue
			}
			r := structRecord{Rel: rel, Name: n}
			for i := 0; i < st.NumFields(); i++ {
				r.Fields = append(r.Fields, st.Field(i).Name()+" "+types.TypeString(st.Field(i).Type(), q))
			}
			out = append(out, r)
		}
	}
	return out
}

// resolveFieldRenames: a listed field that is missing from its struct is matched with the one new field of the
// same type (preferring the same position)
func resolveFieldRenames(pkgs map[string]*packages.Package, ref []structRecord) {
	q := func(p *types.Package) string { return p.Name() }
	for _, r := range ref {
		p := pkgs[r.Rel]
		if p == nil || p.Types == nil {
			continue
		}
		tn, ok := p.Types.Scope().Lookup(r.Name).(*types.TypeName)
		if !ok {
			continue
		}
		st, ok := tn.Type().Underlying().(*types.Struct)
		if !ok {
			continue
		}
		listed := map[string]bool{}
		for _, f := range r.Fields {
			listed[strings.SplitN(f, " ", 2)[0]] = true
		}
		have := map[string]bool{}
		for i := 0; i < st.NumFields(); i++ {
			have[st.Field(i).Name()] = true
		}
		for idx, f := range r.Fields {
			parts := strings.SplitN(f, " ", 2)
			if have[parts[0]] || len(parts) != 2 {
				continue
			}
			var cands []*types.Var
			for i := 0; i < st.NumFields(); i++ {
				fv := st.Field(i)
				if !listed[fv.Name()] && types.TypeString(fv.Type(), q) == parts[1] {
					if _, taken := fieldAlias[fv]; !taken {
						cands = append(cands, fv)
					}
				}
			}
			var pick *types.Var
			if len(cands) == 1 {
				pick = cands[0]
			} else if len(cands) > 1 && idx < st.NumFields() {
				for _, c := range cands {
					if c == st.Field(idx) {
						pick = c
					}
				}
			}
			if pick != nil {
				fieldAlias[pick] = parts[0]
				renameLog = append(renameLog, fmt.Sprintf("field %s.%s.%s is analysed as %s (renamed)", r.Rel, r.Name, pick.Name(), parts[0]))
			}
		}
	}
}

var (
	tablesDir string                     // set by main
	funcAlias = map[*types.Func]string{} // function object of the analysed tree -> listed simple name (without receiver)
	declAlias = map[*ast.Ident]string{}  // name identifier of its declaration -> listed simple name
	renameLog []string
)

func aliasName(f *types.Func) string {
	if f == nil {
		return ""
	}
	if a, ok := funcAlias[f]; ok {
		return a
	}
	return f.Name()
}

func sigKey(info *types.Info, fd *ast.FuncDecl) string {
	obj, _ := info.Defs[fd.Name].(*types.Func)
	if obj == nil {
		return ""
	}
	sig := obj.Type().(*types.Signature)
	q := func(p *types.Package) string { return p.Name() }
	var sb strings.Builder
	sb.WriteString("(")
	for i := 0; i < sig.Params().Len(); i++ {
		if i > 0 {
			sb.WriteString(",")
		}
		sb.WriteString(types.TypeString(sig.Params().At(i).Type(), q))
	}
	if sig.Variadic() {
		sb.WriteString("...")
	}
	sb.WriteString(")(")
	for i := 0; i < sig.Results().Len(); i++ {
		if i > 0 {
			sb.WriteString(",")
		}
		sb.WriteString(types.TypeString(sig.Results().At(i).Type(), q))
	}
	sb.WriteString(")")
	return sb.String()
}

func fingerprint(info *types.Info, fd *ast.FuncDecl) []string {
	var fp []string
	if fd.Body == nil {
		return fp
	}
	q := func(p *types.Package) string { return p.Name() }
	ast.Inspect(fd.Body, func(n ast.Node) bool {
		switch x := n.(type) {
		case *ast.CallExpr:
			if f := calleeFunc(info, x); f != nil && f.Pkg() != nil {
				if strings.HasPrefix(f.Pkg().Path(), modPath) {
					s := f.Type().(*types.Signature)
					fp = append(fp, "call:"+f.Pkg().Name()+":"+typesOnly(s, q))
				} else {
					fp = append(fp, "lib:"+f.Pkg().Path()+"."+f.Name())
				}
			}
		case *ast.SelectorExpr:
			if v, ok := info.Uses[x.Sel].(*types.Var); ok && v.IsField() {
				fp = append(fp, "field:"+fieldName(v))
			}
		case *ast.BasicLit:
			if x.Kind == token.STRING || x.Kind == token.CHAR {
				fp = append(fp, "lit:"+x.Value)
			}
		case *ast.Ident:
			if c, ok := info.Uses[x].(*types.Const); ok && c.Pkg() != nil && c.Parent() == c.Pkg().Scope() {
				fp = append(fp, "const:"+c.Name())
			} else if ok && c.Pkg() == nil && (c.Name() == "true" || c.Name() == "false") {
				fp = append(fp, "bool:"+c.Name())
			}
		case *ast.BinaryExpr:
			fp = append(fp, "op:"+x.Op.String())
		case *ast.IfStmt:
			fp = append(fp, "if")
		case *ast.ForStmt, *ast.RangeStmt:
			fp = append(fp, "loop")
		case *ast.SwitchStmt, *ast.TypeSwitchStmt:
			fp = append(fp, "switch")
		case *ast.ReturnStmt:
			fp = append(fp, "return")
		case *ast.FuncLit:
			fp = append(fp, "closure")
		}
		return true
	})
	sort.Strings(fp)
	return fp
}

func typesOnly(s *types.Signature, q types.Qualifier) string {
	var parts []string
	for i := 0; i < s.Params().Len(); i++ {
		parts = append(parts, types.TypeString(s.Params().At(i).Type(), q))
	}
	parts = append(parts, "->")
	for i := 0; i < s.Results().Len(); i++ {
		parts = append(parts, types.TypeString(s.Results().At(i).Type(), q))
	}
	return strings.Join(parts, ",")
}

func similarity(a, b []string) float64 {
	if len(a) == 0 && len(b) == 0 {
		return 1
	}
	ca, cb := map[string]int{}, map[string]int{}
	for _, x := range a {
		ca[x]++
	}
	for _, x := range b {
		cb[x]++
	}
	inter, union := 0, 0
	keys := map[string]bool{}
	for k := range ca {
		keys[k] = true
	}
	for k := range cb {
		keys[k] = true
	}
	for k := range keys {
		x, y := ca[k], cb[k]
		if x < y {
			inter += x
			union += y
		} else {
			inter += y
			union += x
		}
	}
	return float64(inter) / float64(union)
}

// inventory of the functions of a loaded universe
func functionInventory(pkgs map[string]*packages.Package) []funcRecord {
	var out []funcRecord
	var rels []string
	for rel := range pkgs {
		rels = append(rels, rel)
	}
	sort.Strings(rels)
	// direct callers, by callee object
	callers := map[types.Object]map[string]bool{}
	for _, rel := range rels {
		p := pkgs[rel]
		for _, fd := range declsInOrder(p) {
			if fd.Body == nil {
				continue
			}
			from := rel + "." + declNameRaw(fd)
			ast.Inspect(fd.Body, func(n ast.Node) bool {
				if call, ok := n.(*ast.CallExpr); ok {
					if f := calleeFunc(p.TypesInfo, call); f != nil && f.Pkg() != nil && strings.HasPrefix(f.Pkg().Path(), modPath) {
						if callers[f] == nil {
							callers[f] = map[string]bool{}
						}
						callers[f][from] = true
					}
				}
				return true
			})
		}
	}
	for _, rel := range rels {
		p := pkgs[rel]
		for ord, fd := range declsInOrder(p) {
			if fd.Name.Name == "init" || fd.Name.Name == "_" {
				continue
			}
			rec := funcRecord{Rel: rel, Name: declNameRaw(fd), Sig: sigKey(p.TypesInfo, fd), FP: fingerprint(p.TypesInfo, fd), Ord: ord}
			if o := p.TypesInfo.Defs[fd.Name]; o != nil {
				for c := range callers[o] {
					if c != rel+"."+rec.Name {
						rec.Callers = append(rec.Callers, c)
					}
				}
				sort.Strings(rec.Callers)
			}
			out = append(out, rec)
		}
	}
	return out
}

// formerCallers: listed function ("pkgrel.Name") -> its direct callers in the reference tree
var formerCallers map[string][]string

func loadFormerCallers() {
	if formerCallers != nil {
		return
	}
	formerCallers = map[string][]string{}
	if tablesDir == "" {
		return
	}
	if b, err := os.ReadFile(filepath.Join(tablesDir, "functions.json")); err == nil {
		var inv inventoryFile
		if json.Unmarshal(b, &inv) == nil {
			for _, r := range inv.Functions {
				formerCallers[r.Rel+"."+r.Name] = r.Callers
			}
		}
	}
}

// declsInOrder: the function declarations of a package, files in name order, declarations in source order
func declsInOrder(p *packages.Package) []*ast.FuncDecl {
	type fileDecls struct {
		name  string
		decls []*ast.FuncDecl
	}
	var files []fileDecls
	for i, f := range p.Syntax {
		name := ""
		if i < len(p.CompiledGoFiles) {
			name = filepath.Base(p.CompiledGoFiles[i])
		}
		fdl := fileDecls{name: name}
		for _, d := range f.Decls {
			if fd, ok := d.(*ast.FuncDecl); ok {
				fdl.decls = append(fdl.decls, fd)
			}
		}
		files = append(files, fdl)
	}
	sort.SliceStable(files, func(i, j int) bool { return files[i].name < files[j].name })
	var out []*ast.FuncDecl
	for _, f := range files {
		out = append(out, f.decls...)
	}
	return out
}

func declNameRaw(fd *ast.FuncDecl) string {
	if fd.Recv != nil && len(fd.Recv.List) == 1 {
		return recvTypeName(fd.Recv.List[0].Type) + "." + fd.Name.Name
	}
	return fd.Name.Name
}

// resolveRenames fills funcAlias / declAlias for the packages of one universe
func resolveRenames(pkgs map[string]*packages.Package) {
	if tablesDir == "" {
		return
	}
	b, err := os.ReadFile(filepath.Join(tablesDir, "functions.json"))
	if err != nil {
		return
	}
	var inv inventoryFile
	if json.Unmarshal(b, &inv) != nil {
		return
	}
	ref := inv.Functions
	resolveFieldRenames(pkgs, inv.Structs)
	type cur struct {
		fd   *ast.FuncDecl
		info *types.Info
	}
	for rel, p := range pkgs {
		have := map[string]cur{}
		for _, f := range p.Syntax {
			for _, d := range f.Decls {
				if fd, ok := d.(*ast.FuncDecl); ok {
					have[declNameRaw(fd)] = cur{fd, p.TypesInfo}
				}
			}
		}
		listed := map[string]funcRecord{}
		for _, r := range ref {
			if r.Rel == rel {
				listed[r.Name] = r
			}
		}
		if len(listed) == 0 {
			continue
		}
		var missing []string
		for n := range listed {
			if _, ok := have[n]; !ok {
				missing = append(missing, n)
			}
		}
		sort.Strings(missing)
		newcomers := map[string]cur{}
		for n, c := range have {
			if _, ok := listed[n]; !ok {
				newcomers[n] = c
			}
		}
		ordOf := map[*ast.FuncDecl]int{}
		for i, fd := range declsInOrder(p) {
			ordOf[fd] = i
		}
		accept := func(m, best string, bs float64, how string) {
			c := newcomers[best]
			delete(newcomers, best)
			old := m
			if i := strings.Index(old, "."); i >= 0 {
				old = old[i+1:]
			}
			if obj, ok := c.info.Defs[c.fd.Name].(*types.Func); ok {
				funcAlias[obj] = old
			}
			declAlias[c.fd.Name] = old
			renameLog = append(renameLog, fmt.Sprintf("%s.%s is analysed as %s.%s (renamed; body similarity %.2f%s)", rel, best, rel, m, bs, how))
		}
		classOf := func(name, sig string) string {
			recv := ""
			if i := strings.Index(name, "."); i >= 0 {
				recv = name[:i]
			}
			return recv + "|" + sig
		}
		var pending []string
		for _, m := range missing {
			r := listed[m]
			best := ""
			bs, ss := -1.0, -1.0
			var names []string
			for n := range newcomers {
				names = append(names, n)
			}
			sort.Strings(names)
			for _, n := range names {
				c := newcomers[n]
				if classOf(n, sigKey(c.info, c.fd)) != classOf(m, r.Sig) {
					continue
				}
				sc := similarity(r.FP, fingerprint(c.info, c.fd))
				if sc > bs {
					ss = bs
					best, bs = n, sc
				} else if sc > ss {
					ss = sc
				}
			}
			if best == "" && strings.Contains(m, ".") {
				// a method that never used its receiver turned into a plain function (same parameters and results,
				// near-identical body): the plain function is the listed method
				for _, n := range names {
					c := newcomers[n]
					if strings.Contains(n, ".") || sigKey(c.info, c.fd) != r.Sig {
						continue
					}
					if sc := similarity(r.FP, fingerprint(c.info, c.fd)); sc >= 0.85 && sc > bs {
						best, bs = n, sc
					}
				}
			}
			if best == "" || bs < 0.6 {
				continue
			}
			if ss >= 0 && bs-ss < 0.1 {
				pending = append(pending, m) // ambiguous among siblings: decided by source order below
				continue
			}
			accept(m, best, bs, "")
		}
		// siblings with the same receiver, signature and near-identical bodies (compareLogicGT/LT…, parseExpressionLv1…4):
		// when as many listed functions are missing as new functions of that class exist, they are paired in source order
		byClass := map[string][]string{}
		for _, m := range pending {
			k := classOf(m, listed[m].Sig)
			byClass[k] = append(byClass[k], m)
		}
		for k, ms := range byClass {
			var ns []string
			for n, c := range newcomers {
				if classOf(n, sigKey(c.info, c.fd)) == k {
					ns = append(ns, n)
				}
			}
			if len(ns) != len(ms) {
				continue
			}
			sort.Slice(ms, func(i, j int) bool { return listed[ms[i]].Ord < listed[ms[j]].Ord })
			sort.Slice(ns, func(i, j int) bool { return ordOf[newcomers[ns[i]].fd] < ordOf[newcomers[ns[j]].fd] })
			okAll := true
			for i := range ms {
				c := newcomers[ns[i]]
				if similarity(listed[ms[i]].FP, fingerprint(c.info, c.fd)) < 0.6 {
					okAll = false
				}
			}
			if !okAll {
				continue
			}
			for i := range ms {
				c := newcomers[ns[i]]
				accept(ms[i], ns[i], similarity(listed[ms[i]].FP, fingerprint(c.info, c.fd)), "; sibling matched by source order")
			}
		}
	}
}

var listedFuncs map[string]bool

// listedFunction: the reference inventory lists a function of that name (pkgrel.Name) - i.e. it is not new
func listedFunction(rel, fname string) bool {
	if listedFuncs == nil {
		listedFuncs = map[string]bool{}
		if b, err := os.ReadFile(filepath.Join(tablesDir, "functions.json")); err == nil {
			var inv inventoryFile
			if json.Unmarshal(b, &inv) == nil {
				for _, r := range inv.Functions {
					listedFuncs[r.Rel+"."+r.Name] = true
				}
			}
		}
	}
	return listedFuncs[fname]
}
