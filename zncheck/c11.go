package main

import (
	"fmt"
	"go/ast"
	"go/constant"
	"go/token"
	"go/types"
	"strings"

	"golang.org/x/tools/go/ssa"

	"golang.org/x/tools/go/packages"
)

func init() { register("C11", checkC11) }

// keyedInsert - calls that insert into a map-like container under the range key: order-insensitive
var keyedInsert = map[string]string{
	"pkg/runtime.Module.AddExportValue": "inserts exportValues[key]; duplicates are an error that does not depend on order (keys of one map are distinct)",
	"net/http.Header.Add":               "appends to the per-key list header[key]",
	"net/http.Header.Set":               "sets header[key]",
}

// mapRangeSite - one `range` over a Go map
type mapRangeSite struct {
	u   *Universe
	pkg *packages.Package
	rel string
	fn  *ast.FuncDecl
	rs  *ast.RangeStmt
	key string // construct key
	typ string
}

func collectMapRanges(u *Universe, rels []string, fileFilter func(string) bool) []mapRangeSite {
	var out []mapRangeSite
	for _, rel := range rels {
		p := u.Pkgs[rel]
		if p == nil {
			continue
		}
		for _, fd := range u.allFuncDecls(rel) {
			if fileFilter != nil && !fileFilter(u.Fset.Position(fd.Pos()).Filename) {
				continue
			}
			perType := map[string]int{}
			ast.Inspect(fd.Body, func(n ast.Node) bool {
				rs, ok := n.(*ast.RangeStmt)
				if !ok {
					return true
				}
				t := p.TypesInfo.TypeOf(rs.X)
				if !isMapType(t) {
					return true
				}
				ts := types.TypeString(t, func(pk *types.Package) string { return pk.Name() })
				perType[ts]++
				out = append(out, mapRangeSite{u: u, pkg: p, rel: rel, fn: fd, rs: rs, typ: ts,
					key: fmt.Sprintf("%s.%s:range#%d(%s)", rel, declName(fd), perType[ts], ts)})
				return true
			})
		}
	}
	return out
}

// classifyMapRange decides whether the loop body is order-insensitive by a recognised pattern.
func classifyMapRange(s mapRangeSite) (ok bool, pattern string, why string) {
	info := s.pkg.TypesInfo
	var keyObj types.Object
	if s.rs.Key != nil {
		keyObj = identObj(info, s.rs.Key)
	}
	isKey := func(e ast.Expr) bool {
		o := identObj(info, e)
		return o != nil && keyObj != nil && o == keyObj
	}
	isConstExpr := func(e ast.Expr) bool {
		e = ast.Unparen(e)
		if constVal(info, e) != nil {
			return true
		}
		if id, ok := e.(*ast.Ident); ok {
			if id.Name == "nil" || id.Name == "true" || id.Name == "false" {
				return true
			}
		}
		return false
	}
	var returns []string
	patterns := map[string]bool{}
	var sortedSlices []types.Object // slices that collect items and must be sorted after the loop
	var bad string
	fail := func(n ast.Node, msg string) {
		if bad == "" {
			bad = fmt.Sprintf("%s at %s", msg, s.u.pos(n.Pos()))
		}
	}
	var stmts func(list []ast.Stmt)
	var stmt func(st ast.Stmt)
	stmt = func(st ast.Stmt) {
		switch x := st.(type) {
		case *ast.AssignStmt:
			if x.Tok == token.DEFINE {
				// local temporaries; their right-hand sides are looked at through the
				// statements that use them (a failing call is caught by the return rule)
				return
			}
			if len(x.Lhs) == 1 {
				lhs := ast.Unparen(x.Lhs[0])
				// m2[key] = E
				if ix, ok := lhs.(*ast.IndexExpr); ok && isMapType(info.TypeOf(ix.X)) && isKey(ix.Index) && x.Tok == token.ASSIGN {
					patterns["P1:write keyed by range key"] = true
					return
				}
				// flag = <const>
				if o := identObj(info, lhs); o != nil && x.Tok == token.ASSIGN && len(x.Rhs) == 1 && isConstExpr(x.Rhs[0]) {
					patterns["P2:constant flag"] = true
					return
				}
				// integer counter += / -=
				if o := identObj(info, lhs); o != nil && (x.Tok == token.ADD_ASSIGN || x.Tok == token.SUB_ASSIGN) {
					if b, ok := info.TypeOf(lhs).Underlying().(*types.Basic); ok && b.Info()&types.IsInteger != 0 {
						patterns["P4:integer accumulation (commutative)"] = true
						return
					}
				}
				// s = append(s, ...) collected for sorting afterwards
				if o := identObj(info, lhs); o != nil && x.Tok == token.ASSIGN && len(x.Rhs) == 1 {
					if call, ok := ast.Unparen(x.Rhs[0]).(*ast.CallExpr); ok {
						if id, ok := call.Fun.(*ast.Ident); ok && id.Name == "append" && len(call.Args) >= 1 && identObj(info, call.Args[0]) == o {
							if _, isBuiltin := info.Uses[id].(*types.Builtin); isBuiltin {
								sortedSlices = append(sortedSlices, o)
								patterns["P5:collect then sort"] = true
								return
							}
						}
					}
				}
			}
			fail(x, "assignment that is not a write keyed by the range key")
		case *ast.IncDecStmt:
			if b, ok := info.TypeOf(x.X).Underlying().(*types.Basic); ok && b.Info()&types.IsInteger != 0 {
				patterns["P4:integer accumulation (commutative)"] = true
				return
			}
			fail(x, "inc/dec of non-integer")
		case *ast.ExprStmt:
			call, ok := ast.Unparen(x.X).(*ast.CallExpr)
			if !ok {
				fail(x, "expression statement")
				return
			}
			f := calleeFunc(info, call)
			id := funcID(f)
			if _, ok := keyedInsert[id]; ok && len(call.Args) >= 1 && isKey(call.Args[0]) {
				patterns["P1:keyed insert "+id] = true
				return
			}
			fail(x, "call with an effect that is not a keyed insert ("+id+")")
		case *ast.IfStmt:
			if x.Init != nil {
				if as, ok := x.Init.(*ast.AssignStmt); !ok || as.Tok != token.DEFINE {
					fail(x.Init, "if-init that is not a definition")
				}
			}
			stmts(x.Body.List)
			if x.Else != nil {
				stmt(x.Else)
			}
		case *ast.BlockStmt:
			stmts(x.List)
		case *ast.ReturnStmt:
			var parts []string
			for _, r := range x.Results {
				if !isConstExpr(r) {
					fail(x, "early return of a non-constant value (result depends on which entry is visited first)")
					return
				}
				parts = append(parts, types.ExprString(r))
			}
			returns = append(returns, strings.Join(parts, ","))
			patterns["P2:existential search"] = true
		case *ast.BranchStmt:
			if x.Tok == token.BREAK || x.Tok == token.CONTINUE {
				return
			}
			fail(x, "goto/fallthrough")
		case *ast.DeclStmt, *ast.EmptyStmt:
		default:
			fail(st, fmt.Sprintf("unrecognised statement %T", st))
		}
	}
	stmts = func(list []ast.Stmt) {
		for _, st := range list {
			stmt(st)
		}
	}
	stmts(s.rs.Body.List)
	// calls made from conditions / definitions inside the loop (if dfs(node) { return true }): a closure of the enclosing
	// function that is started once per entry may keep what it found only in local
	// bookkeeping; a non-constant value stored into a field or a package-level variable depends on the entry visited first
	if bad == "" {
		seenFn := map[ast.Node]bool{}
		var scanBody func(body *ast.BlockStmt, depth int)
		scanCalls := func(root ast.Node, depth int) {
			ast.Inspect(root, func(n ast.Node) bool {
				call, ok := n.(*ast.CallExpr)
				if !ok {
					return true
				}
				var body *ast.BlockStmt
				switch o := identObj(info, call.Fun).(type) {
				case *types.Var:
					if _, isSig := o.Type().Underlying().(*types.Signature); isSig && s.fn != nil {
						ast.Inspect(s.fn.Body, func(m ast.Node) bool {
							as, ok := m.(*ast.AssignStmt)
							if !ok {
								return true
							}
							for i, l := range as.Lhs {
								if identObj(info, l) == types.Object(o) && i < len(as.Rhs) {
									if fl, ok := ast.Unparen(as.Rhs[i]).(*ast.FuncLit); ok {
										body = fl.Body
									}
								}
							}
							return true
						})
					}
				}
				if body != nil && !seenFn[body] && depth < 4 {
					seenFn[body] = true
					scanBody(body, depth+1)
				}
				return true
			})
		}
		scanBody = func(body *ast.BlockStmt, depth int) {
			ast.Inspect(body, func(n ast.Node) bool {
				as, ok := n.(*ast.AssignStmt)
				if !ok || as.Tok == token.DEFINE {
					return true
				}
				for i, l := range as.Lhs {
					longLived := false
					switch x := ast.Unparen(l).(type) {
					case *ast.SelectorExpr:
						if sel := info.Selections[x]; sel != nil && sel.Kind() == types.FieldVal {
							// the object is one the closure captured (declared outside its body)
							root := ast.Unparen(x.X)
							for {
								if sx, ok := root.(*ast.SelectorExpr); ok {
									root = ast.Unparen(sx.X)
								} else if st, ok := root.(*ast.StarExpr); ok {
									root = ast.Unparen(st.X)
								} else {
									break
								}
							}
							if o := identObj(info, root); o != nil && (o.Pos() < body.Pos() || o.Pos() > body.End()) {
								longLived = true
							}
						}
					case *ast.Ident:
						if v, ok := info.Uses[x].(*types.Var); ok && v.Parent() == v.Pkg().Scope() {
							longLived = true
						}
					}
					if longLived && (len(as.Rhs) != len(as.Lhs) || !isConstExpr(as.Rhs[i])) {
						fail(as, "a closure started once per entry stores a non-constant value into a field / package-level variable (what it records depends on which entry is visited first)")
					}
				}
				return true
			})
			scanCalls(body, depth)
		}
		scanCalls(s.rs.Body, 0)
	}
	if bad != "" {
		return false, "", bad
	}
	for i := 1; i < len(returns); i++ {
		if returns[i] != returns[0] {
			return false, "", "early returns with different constants"
		}
	}
	// P5: every collected slice must be sorted right after the loop
	for _, o := range sortedSlices {
		if !sortedAfter(s, o) {
			return false, "", "items are appended to slice '" + o.Name() + "' in map order and it is not sorted before use"
		}
	}
	var ps []string
	for p := range patterns {
		ps = append(ps, p)
	}
	if len(ps) == 0 {
		ps = []string{"empty body"}
	}
	return true, strings.Join(sortedStrs(ps), "; "), ""
}

func sortedStrs(s []string) []string {
	m := map[string]bool{}
	for _, x := range s {
		m[x] = true
	}
	return sortedKeys(m)
}

// sortedAfter: the first statement after the range loop (in the same block) that mentions the
// slice object is a call of a sort function taking it as first argument.
func sortedAfter(s mapRangeSite, o types.Object) bool {
	info := s.pkg.TypesInfo
	var block *ast.BlockStmt
	ast.Inspect(s.fn.Body, func(n ast.Node) bool {
		if b, ok := n.(*ast.BlockStmt); ok {
			for _, st := range b.List {
				if st == ast.Stmt(s.rs) {
					block = b
				}
			}
		}
		return true
	})
	if block == nil {
		return false
	}
	after := false
	// the first statement after the loop that mentions the slice; a plain nested block is looked into (its statements
	// simply follow)
	var flat []ast.Stmt
	var flatten func(list []ast.Stmt)
	flatten = func(list []ast.Stmt) {
		for _, st := range list {
			if b, ok := st.(*ast.BlockStmt); ok {
				flatten(b.List)
			} else {
				flat = append(flat, st)
			}
		}
	}
	flatten(block.List)
	for _, st := range flat {
		if st == ast.Stmt(s.rs) {
			after = true
			continue
		}
		if !after {
			continue
		}
		mentions := false
		ast.Inspect(st, func(n ast.Node) bool {
			if id, ok := n.(*ast.Ident); ok && info.Uses[id] == o {
				mentions = true
			}
			return true
		})
		if !mentions {
			continue
		}
		es, ok := st.(*ast.ExprStmt)
		if !ok {
			return false
		}
		call, ok := es.X.(*ast.CallExpr)
		if !ok || len(call.Args) == 0 || identObj(info, call.Args[0]) != o {
			return false
		}
		f := calleeFunc(info, call)
		if f == nil || f.Pkg() == nil {
			return false
		}
		if (f.Pkg().Path() == "sort" && (f.Name() == "Strings" || f.Name() == "Ints" || f.Name() == "Slice" || f.Name() == "SliceStable" || f.Name() == "Float64s")) ||
			(f.Pkg().Path() == "slices" && strings.HasPrefix(f.Name(), "Sort")) {
			return true
		}
		return false
	}
	return false
}

func checkC11(c *Ctx) {
	R := c.R
	R.Explain = "Decided: (C11.maprange) every `range` over a Go map in the core packages and in pkg/server's request path " +
		"(http_handler.go, pg_handler.go, util.go; darwin build) is enumerated through go/types and its body must match an order-insensitive pattern " +
		"(P1 writes keyed by the range key, P2 existential search returning one constant, P4 integer accumulation, P5 collect-then-sort); " +
		"(C11.sources) calls of time.Now/Since, math/rand, os.Getpid/Getppid, `go` and `select` statements in the core packages occur only in the listed functions; " +
		"(C11.fmtptr) no fmt verb %p, and %v/%+v/%#v only on arguments whose static type cannot print an address; " +
		"(C11.mapiter) library helpers that walk a map in unspecified order (maps.Keys/Values/All, reflect MapKeys/MapRange) are accepted only directly under slices.Sorted*; (C11.order) HashMap's Go map is ranged nowhere except in order-insensitive loops and every other observer uses keyOrder. " +
		"NOT decided: that two whole runs print identical text (needs the Go runtime's own determinism), pkg/server/pm_server.go (process management, see C20). (C11.state = C16.singletons) no package-level mutable state: the same program gives the same result whatever ran before it in the process."
	R.Assumptions = []string{
		"Go's map iteration order is the only source of order nondeterminism inside a single-goroutine evaluation",
		"functions in the keyed-insert table only write under the key they are given (reviewed, one line of reason each)",
	}
	u := c.Core()
	sites := collectMapRanges(u, corePkgs, nil)
	su := c.Server()
	srvFilter := func(fn string) bool {
		return strings.HasSuffix(fn, "http_handler.go") || strings.HasSuffix(fn, "pg_handler.go") || strings.HasSuffix(fn, "/util.go")
	}
	sites = append(sites, collectMapRanges(su, []string{"pkg/server"}, srvFilter)...)
	R.min("C11.maprange", 9)
	c.Core().buildSSA()
	ruleDictEqByContent(c, c.Core(), "C11.eqcontent")
	for _, s := range sites {
		ok, pat, why := classifyMapRange(s)
		if ok {
			R.hold("C11.maprange", s.key, s.u.pos(s.rs.Pos()), "order-insensitive: "+pat)
		} else {
			R.viol("C11.maprange", s.key, s.u.pos(s.rs.Pos()), "order-sensitive or unrecognised: "+why)
		}
	}
	R.count("map_range_sites", len(sites))

	// ---- C11.mapiter: library calls that walk a Go map in unspecified order (hidden range)
	hidden := map[string]bool{"maps.Keys": true, "maps.Values": true, "maps.All": true,
		"golang.org/x/exp/maps.Keys": true, "golang.org/x/exp/maps.Values": true,
		"reflect.Value.MapKeys": true, "reflect.Value.MapRange": true}
	nHidden := 0
	scanHidden := func(un *Universe, rels []string, filter func(string) bool) {
		for _, rel := range rels {
			p := un.Pkgs[rel]
			if p == nil {
				continue
			}
			for _, fd := range un.allFuncDecls(rel) {
				if filter != nil && !filter(un.Fset.Position(fd.Pos()).Filename) {
					continue
				}
				idx := 0
				var parents []ast.Node
				ast.Inspect(fd.Body, func(n ast.Node) bool {
					if n == nil {
						parents = parents[:len(parents)-1]
						return true
					}
					parents = append(parents, n)
					call, ok := n.(*ast.CallExpr)
					if !ok {
						return true
					}
					f := calleeFunc(p.TypesInfo, call)
					if f == nil || f.Pkg() == nil {
						return true
					}
					id := f.Pkg().Path() + "." + f.Name()
					if sig, ok := f.Type().(*types.Signature); ok && sig.Recv() != nil {
						id = f.Pkg().Path() + "." + recvNamed(sig.Recv().Type()) + "." + f.Name()
					}
					if !hidden[id] {
						return true
					}
					idx++
					nHidden++
					key := fmt.Sprintf("%s.%s:%s#%d", rel, declName(fd), id, idx)
					// accepted only as the direct argument of slices.Sorted / slices.SortedFunc
					sorted := false
					if len(parents) >= 2 {
						if pc, ok := parents[len(parents)-2].(*ast.CallExpr); ok {
							if pf := calleeFunc(p.TypesInfo, pc); pf != nil && pf.Pkg() != nil && pf.Pkg().Path() == "slices" && strings.HasPrefix(pf.Name(), "Sorted") {
								sorted = true
							}
						}
					}
					if sorted {
						R.hold("C11.mapiter", key, un.pos(call.Pos()), "map iteration result is sorted immediately")
					} else {
						R.viol("C11.mapiter", key, un.pos(call.Pos()), id+" walks a Go map in unspecified order and the result is used unsorted")
					}
					return true
				})
			}
		}
	}
	scanHidden(u, corePkgs, nil)
	scanHidden(su, []string{"pkg/server"}, srvFilter)
	R.count("hidden_map_iterations", nHidden)

	// ---- C11.order: every range over HashMap.value / HashMap.GetValue() is one of the sites above
	// and is order-insensitive; and the ordered observers read keyOrder.
	nObs := 0
	for _, name := range []string{"HashMap.String", "hmGetAllIndexes", "hmGetAllValues", "DuplicateValue"} {
		fd, p := u.funcDecl("pkg/value", name)
		if fd == nil {
			R.lost("C11.order", "pkg/value."+name)
			continue
		}
		usesKeyOrder, rangesMap := false, false
		_ = p
		// on SSA (any loop form): a loop reads elements of the keyOrder field; no range over a Go map
		if sf := u.ssaFunc("pkg/value", name); sf != nil {
			for _, in := range instrsOf(sf) {
				switch x := in.(type) {
				case *ssa.Range:
					if isMapType(x.X.Type()) {
						rangesMap = true
					}
				case *ssa.IndexAddr:
					if _, ok := fieldLoad(x.X, "keyOrder"); ok && loopBlock(x.Block()) {
						usesKeyOrder = true
					}
				}
			}
		}
		nObs++
		R.check(usesKeyOrder && !rangesMap, "C11.order", "pkg/value."+name, u.pos(fd.Pos()),
			"iterates the dictionary through keyOrder", "observer of a dictionary does not iterate keyOrder (or ranges over the Go map)")
	}
	// evaluator: 遍历 over a dictionary uses GetKeyOrder()
	if g := u.ssaFunc("pkg/exec", "evalIterateStmt"); g != nil {
		// inside a loop an element of the GetKeyOrder() result is read (range statement or index loop), and the Go
		// map itself is never ranged over
		ok, rangesMap := false, false
		for _, h := range family(g, 1) {
			if h.Pkg != g.Pkg {
				continue
			}
			for _, in := range instrsOf(h) {
				switch x := in.(type) {
				case *ssa.Range:
					if _, isMap := x.X.Type().Underlying().(*types.Map); isMap {
						rangesMap = true
					}
				case *ssa.IndexAddr:
					if loopBlock(x.Block()) && flowsFrom(x.X, func(v ssa.Value) bool {
						call, isC := v.(*ssa.Call)
						return isC && u.callName(call) == "pkg/value.HashMap.GetKeyOrder"
					}) {
						ok = true
					}
				}
			}
		}
		R.check(ok && !rangesMap, "C11.order", "pkg/exec.evalIterateStmt", u.pos(g.Pos()), "dictionary pass ranges over GetKeyOrder()", "dictionary pass does not range over GetKeyOrder()")
	} else {
		R.lost("C11.order", "pkg/exec.evalIterateStmt")
	}
	R.min("C11.order", 5)

	// the same program gives the same result whatever ran before it in the process: no package-level mutable state
	// (caches, pools) in the interpreter (rules of C16.singletons)
	borrowRule(c, "C16", "C16.singletons", "C11.state")

	// ---- C11.sources
	// the documented exception 取随机数: the functions that implement the predefined value registered under that
	// name (found through the table of predefined values, not by function name)
	allowedSources := map[string]string{}
	u.buildSSA()
	for _, g := range u.srcFuncs("pkg/exec") {
		for _, in := range instrsOf(g) {
			mu, ok := in.(*ssa.MapUpdate)
			if !ok {
				continue
			}
			k, isK := mu.Key.(*ssa.Const)
			if !isK || k.Value == nil || k.Value.Kind() != constant.String || constant.StringVal(k.Value) != "取随机数" {
				continue
			}
			var mark func(fn *ssa.Function, depth int)
			mark = func(fn *ssa.Function, depth int) {
				if fn == nil || fn.Pkg != g.Pkg || depth > 3 {
					return
				}
				top := fn
				for top.Parent() != nil {
					top = top.Parent()
				}
				name := u.fname(top)
				if _, done := allowedSources[name]; done && depth > 0 {
					return
				}
				allowedSources[name] = "取随机数 is the documented exception"
				for _, x := range instrsOf(fn) {
					for _, op := range x.Operands(nil) {
						switch y := (*op).(type) {
						case *ssa.Function:
							if x2, isCall := x.(ssa.CallInstruction); isCall && x2.Common().Value == ssa.Value(y) {
								continue // a plain call of another function is not part of the builtin
							}
							mark(y, depth+1)
						case *ssa.MakeClosure:
							if cf, ok := y.Fn.(*ssa.Function); ok {
								mark(cf, depth+1)
							}
						}
					}
				}
			}
			for _, src := range allSources(mu.Value) {
				if call, ok := src.(*ssa.Call); ok {
					mark(call.Call.StaticCallee(), 0)
				}
			}
		}
	}
	if len(allowedSources) == 0 {
		R.viol("C11.sources", "取随机数", "", "the predefined value 取随机数 was not found in the table of predefined values")
	}
	nSrc := 0
	for _, rel := range corePkgs {
		p := u.Pkgs[rel]
		for _, fd := range u.allFuncDecls(rel) {
			where := rel + "." + declName(fd)
			ast.Inspect(fd.Body, func(n ast.Node) bool {
				switch x := n.(type) {
				case *ast.GoStmt:
					nSrc++
					R.viol("C11.sources", where+":go", u.pos(x.Pos()), "goroutine started inside the interpreter core (scheduling-dependent behaviour)")
				case *ast.SelectStmt:
					nSrc++
					R.viol("C11.sources", where+":select", u.pos(x.Pos()), "select statement inside the interpreter core")
				case *ast.CallExpr:
					f := calleeFunc(p.TypesInfo, x)
					if f == nil || f.Pkg() == nil {
						return true
					}
					id := f.Pkg().Path() + "." + f.Name()
					nd := false
					switch {
					case f.Pkg().Path() == "math/rand" || f.Pkg().Path() == "math/rand/v2" || f.Pkg().Path() == "crypto/rand":
						nd = true
					case id == "time.Now" || id == "time.Since" || id == "time.Until":
						nd = true
					case id == "os.Getpid" || id == "os.Getppid" || id == "os.Hostname" || id == "os.Environ" || id == "os.Getenv":
						nd = true
					}
					if nd {
						nSrc++
						if why, ok := allowedSources[where]; ok {
							R.hold("C11.sources", where+":"+id, u.pos(x.Pos()), "allowed: "+why)
						} else {
							R.viol("C11.sources", where+":"+id, u.pos(x.Pos()), "nondeterministic source called outside the allowed functions")
						}
					}
				}
				return true
			})
		}
	}
	R.min("C11.sources", 1)
	R.count("nondeterminism_sources", nSrc)

	// ---- C11.fmtptr : %p never; %v-family only on non-address-printing static types
	nFmt := 0
	for _, rel := range corePkgs {
		p := u.Pkgs[rel]
		for _, fd := range u.allFuncDecls(rel) {
			where := rel + "." + declName(fd)
			idx := 0
			ast.Inspect(fd.Body, func(n ast.Node) bool {
				call, ok := n.(*ast.CallExpr)
				if !ok {
					return true
				}
				f := calleeFunc(p.TypesInfo, call)
				if f == nil || f.Pkg() == nil || f.Pkg().Path() != "fmt" {
					return true
				}
				fi := -1
				switch f.Name() {
				case "Sprintf", "Errorf", "Printf":
					fi = 0
				case "Fprintf":
					fi = 1
				}
				if fi < 0 || len(call.Args) <= fi {
					return true
				}
				cv := constVal(p.TypesInfo, call.Args[fi])
				if cv == nil {
					return true
				}
				format := constantString(cv)
				verbs := parseVerbs(format)
				args := call.Args[fi+1:]
				for i, vb := range verbs {
					if i >= len(args) {
						break
					}
					idx++
					nFmt++
					key := fmt.Sprintf("%s:fmt#%d(%%%c)", where, idx, vb)
					t := p.TypesInfo.TypeOf(args[i])
					if vb == 'p' {
						R.viol("C11.fmtptr", key, u.pos(call.Pos()), "%p prints a memory address")
						continue
					}
					if vb != 'v' {
						R.hold("C11.fmtptr", key, u.pos(call.Pos()), "verb cannot print an address")
						continue
					}
					if printsAddress(t) {
						R.viol("C11.fmtptr", key, u.pos(call.Pos()), "%v applied to "+t.String()+" may print a memory address or map in unspecified form")
					} else {
						R.hold("C11.fmtptr", key, u.pos(call.Pos()), "%v applied to "+t.String())
					}
				}
				return true
			})
		}
	}
	R.min("C11.fmtptr", 10)
	R.count("fmt_verbs", nFmt)
}

// printsAddress: static types for which %v can show an address
func printsAddress(t types.Type) bool {
	if t == nil {
		return false
	}
	// types with String()/Error() print through that method
	if hasStringer(t) {
		return false
	}
	switch x := t.Underlying().(type) {
	case *types.Pointer:
		// pointer-to-struct prints &{...} for top level, nested pointers print addresses
		return true
	case *types.Chan, *types.Signature:
		return true
	case *types.Basic:
		return x.Kind() == types.UnsafePointer
	case *types.Interface:
		// dynamic type unknown: decided by the allow-list of interface-typed arguments
		return false
	}
	return false
}

func hasStringer(t types.Type) bool {
	for _, tt := range []types.Type{t, types.NewPointer(t)} {
		ms := types.NewMethodSet(tt)
		for i := 0; i < ms.Len(); i++ {
			n := ms.At(i).Obj().Name()
			if n == "String" || n == "Error" {
				return true
			}
		}
	}
	return false
}

func parseVerbs(format string) []rune {
	var out []rune
	rs := []rune(format)
	for i := 0; i < len(rs); i++ {
		if rs[i] != '%' {
			continue
		}
		i++
		for i < len(rs) && strings.ContainsRune("+-# 0123456789.*[]", rs[i]) {
			i++
		}
		if i < len(rs) {
			if rs[i] == '%' {
				continue
			}
			out = append(out, rs[i])
		}
	}
	return out
}
