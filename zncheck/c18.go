package main

import (
	"fmt"
	"go/ast"
	"go/token"
	"go/types"
	"strings"

	"golang.org/x/tools/go/ssa"
)

func init() { register("C18", checkC18) }

// embedsLineBase: struct type embeds syntax.StmtBase or syntax.ExprBase (carries a source line)
func embedsLineBase(t types.Type) bool {
	if p, ok := t.Underlying().(*types.Pointer); ok {
		t = p.Elem()
	}
	st, ok := t.Underlying().(*types.Struct)
	if !ok {
		return false
	}
	for i := 0; i < st.NumFields(); i++ {
		f := st.Field(i)
		if !f.Embedded() {
			continue
		}
		n := recvNamed(f.Type())
		if n == "StmtBase" || n == "ExprBase" {
			return true
		}
		if embedsLineBase(f.Type()) {
			return true
		}
	}
	return false
}

// ruleUnwind - the handler cuts the call stack back before it runs (shared with C09)
func ruleChainRules(c *Ctx, u *Universe) {
	R := c.R
	ruleFramePairing(c, u, "C18.chain", "")
	// unwinding: reuse the C09 decision by re-running its rule under this property's name
	f := u.ssaFunc("pkg/exec", "handleExceptionSignal")
	if f == nil {
		R.lost("C18.chain", "pkg/exec.handleExceptionSignal")
		return
	}
	pushes := u.callsNamed(f, "pkg/runtime.VM.PushCallFrame")
	pops := u.callsNamed(f, "pkg/runtime.VM.PopCallFrame")
	ok := false
	if len(pushes) == 1 {
		for _, pop := range pops {
			if loopBlock(pop.Block()) && reachableAvoiding(f.Blocks[0], 0, func(x ssa.Instruction) bool { return x == ssa.Instruction(pushes[0]) }, nil) != nil {
				// the popping loop lies before the handler's push on every path: its header dominates the push
				for _, h := range loopHeaders(f) {
					if h.Dominates(pop.Block()) && h.Dominates(pushes[0].Block()) && !pushes[0].Block().Dominates(pop.Block()) {
						// loop condition compares len(GetCallStack()) with the saved depth parameter
						if ifi, isIf := h.Instrs[len(h.Instrs)-1].(*ssa.If); isIf {
							if bo, isB := ifi.Cond.(*ssa.BinOp); isB {
								_, px := bo.X.(*ssa.Parameter)
								_, py := bo.Y.(*ssa.Parameter)
								if px || py {
									ok = true
								}
							}
						}
					}
				}
			}
		}
	}
	R.check(ok, "C18.chain", "handleExceptionSignal:unwind-before-handler", u.pos(f.Pos()), "frames of calls that failed under a handled exception are removed before the handler runs: later errors (also inside the handler) list only active calls", "frames of already-failed calls are still on the stack while the handler runs (or are never removed): an error raised later lists calls that had returned")
}

func checkC18(c *Ctx) {
	R := c.R
	R.Explain = "Decided: (C18.setline) every evaluator entry that executes a statement sets the frame's current line first (evalStatement before its dispatch, the import loop before each 导入, the 每当 driver before each re-test of its condition), and the parser gives every " +
		"statement and expression node a line: the statement dispatcher, the import loop, the basic-expression dispatcher and each operator level call setStmtCurrentLine on the node on every path to its return; (C18.lines) the three scanners that consume line breaks " +
		"(lexer line loop, multi-line string literals, multi-line comments) register exactly one line per physical break, CRLF and LFCR counting as one, with the line starting right after the break (step tables extracted by constant propagation); " +
		"(C18.chain) call frames are popped on every non-error exit and cut back before a handler runs, so a reported chain contains only active calls; (C18.module) each chain entry's native-module test and source line use that entry's own module; " +
		"(C18.syntax) a syntax error's line number and quoted line are computed from the same cursor. Also: no PopCallFrame in the evaluator is deferred or placed on a branch where an error is known (the chain is rendered after the failing functions returned). A statement's line is searched from line 0; the functions that place the column marker never slice or index the line as a Go string. NOT decided: the caret column arithmetic (East-Asian widths), that FindLineIdx maps a cursor to the right line for all inputs (run-time arithmetic over the registered lines). In Lexer.parseLine the new line is registered in Lines before any fallible check of that line; every call path pushes its frame (C18.mustcall on the call functions)."
	R.Assumptions = []string{"Lexer.FindLineIdx returns the last line whose StartIdx <= cursor (baseline tests)", "runtime.CallFrame.SetCurrentLine stores the line"}
	u := c.Core()
	u.buildSSA()

	// ---- C18.setline (evaluator side)
	if f := u.ssaFunc("pkg/exec", "evalStatement"); f != nil {
		sets := u.callsNamed(f, "pkg/runtime.VM.SetCurrentLine")
		ok := len(sets) == 1
		if ok {
			for _, in := range instrsOf(f) {
				if call, isC := in.(ssa.CallInstruction); isC {
					if n := u.callName(call); strings.HasPrefix(n, "pkg/exec.eval") && !dominatesInstr(sets[0], in) {
						ok = false
					}
				}
			}
			// the line is the statement's own
			ok = ok && flowsFrom(sets[0].Common().Args[1], func(v ssa.Value) bool {
				cv, isCV := v.(*ssa.Call)
				return isCV && cv.Call.IsInvoke() && cv.Call.Method.Name() == "GetCurrentLine" && cv.Call.Value == ssa.Value(f.Params[1])
			})
		}
		R.check(ok, "C18.setline", "pkg/exec.evalStatement", u.pos(f.Pos()), "the statement's own line is recorded before it is executed", "a statement can execute before its line is recorded on the frame")
	} else {
		R.lost("C18.setline", "pkg/exec.evalStatement")
	}
	if f := u.ssaFunc("pkg/exec", "evalProgram"); f != nil {
		imps := u.callsNamed(f, "pkg/exec.evalImportStmt")
		ok := len(imps) == 1
		if ok {
			// on every cycle of the import loop SetCurrentLine precedes evalImportStmt
			isSet := func(x ssa.Instruction) bool { return isCallTo(u, x, "pkg/runtime.VM.SetCurrentLine") }
			ok = reachableAvoiding(f.Blocks[0], 0, func(x ssa.Instruction) bool { return x == ssa.Instruction(imps[0]) }, isSet) == nil &&
				reachableAvoiding(imps[0].Block(), instrIndex(imps[0])+1, func(x ssa.Instruction) bool { return x == ssa.Instruction(imps[0]) }, isSet) == nil
		}
		R.check(ok, "C18.setline", "pkg/exec.evalProgram:imports", u.pos(f.Pos()), "each 导入 records its own line before it is evaluated", "a 导入 statement is evaluated without recording its line (a failing import is reported on another line)")
	}
	if f := u.ssaFunc("pkg/exec", "evalWhileLoopStmt"); f != nil {
		conds := u.callsNamed(f, "pkg/exec.evalExpression")
		bodies := u.callsNamed(f, "pkg/exec.evalPureStmtBlock")
		ok := len(conds) == 1 && len(bodies) == 1
		if ok {
			isSet := func(x ssa.Instruction) bool { return isCallTo(u, x, "pkg/runtime.VM.SetCurrentLine") }
			ok = reachableAvoiding(bodies[0].Block(), instrIndex(bodies[0])+1, func(x ssa.Instruction) bool { return x == ssa.Instruction(conds[0]) }, isSet) == nil
		}
		R.check(ok, "C18.setline", "pkg/exec.evalWhileLoopStmt:condition", u.pos(f.Pos()), "the 每当 line is restored before the condition is re-tested", "after a loop pass the condition is re-tested while the frame still shows the last body line")
	}
	// parser side
	setLine := "pkg/syntax/zh.ParserZH.setStmtCurrentLine"
	if f := u.ssaFunc("pkg/syntax/zh", "ParseStatement"); f != nil {
		// every statement production called here is followed by setStmtCurrentLine before the function returns it
		n, ok := 0, true
		for _, in := range instrsOf(f) {
			call, isC := in.(*ssa.Call)
			if !isC {
				continue
			}
			name := u.callName(call)
			if !strings.HasPrefix(name, "pkg/syntax/zh.Parse") || !strings.HasSuffix(name, "Stmt") {
				continue
			}
			n++
			if reachableAvoiding(call.Block(), instrIndex(call)+1, isRetInstr, func(x ssa.Instruction) bool { return isCallTo(u, x, setLine) }) != nil {
				ok = false
			}
		}
		R.check(ok && n >= 10, "C18.setline", "pkg/syntax/zh.ParseStatement", u.pos(f.Pos()), fmt.Sprintf("all %d keyword-led statements get the line of their keyword", n), "a statement production's result can be returned without a line")
	} else {
		R.lost("C18.setline", "pkg/syntax/zh.ParseStatement")
	}
	if f := u.ssaFunc("pkg/syntax/zh", "ParseProgram"); f != nil {
		ok := false
		for _, a := range f.AnonFuncs {
			for _, call := range u.callsNamed(a, "pkg/syntax/zh.ParseImportStmt") {
				ok = reachableAvoiding(call.Block(), instrIndex(call)+1, isRetInstr, func(x ssa.Instruction) bool {
					if !isCallTo(u, x, setLine) {
						return false
					}
					return strip(x.(ssa.CallInstruction).Common().Args[1]) == call.Value()
				}) == nil
			}
		}
		R.check(ok, "C18.setline", "pkg/syntax/zh.ParseProgram:import", u.pos(f.Pos()), "an import statement gets the line of its 导入 keyword", "import statements are built without a line")
	}
	// a statement's line is looked up from the first line: FindLineIdx only searches forward from its hint, and the
	// statement's first token lies behind the parser's current position once the statement has been parsed
	if f := u.ssaFunc("pkg/syntax/zh", "ParserZH.setStmtCurrentLine"); f != nil {
		okHint, nF := true, 0
		for _, cs := range u.callsNamed(f, "pkg/syntax.Lexer.FindLineIdx") {
			nF++
			if !isZeroConst(cs.Common().Args[2]) {
				okHint = false
			}
		}
		R.check(okHint && nF == 1, "C18.setline", "pkg/syntax/zh.ParserZH.setStmtCurrentLine:search-from-first-line", u.pos(f.Pos()), "the line of the statement's first token is searched from line 0", "the line lookup of a statement starts from a later line than the statement's first token can lie on: a multi-line statement is attributed to its last line")
	} else {
		R.lost("C18.setline", "pkg/syntax/zh.ParserZH.setStmtCurrentLine")
	}
	// node-building functions: the allocated node receives setStmtCurrentLine on every path to a return of it
	nNodes := 0
	callerSets := map[string]bool{ // nodes whose line is set by the dispatcher that called the production (checked above / below)
		"ParseVarDeclareStmt": true, "ParseBranchStmt": true, "ParseFunctionDeclareStmt": true, "ParseConstructorDeclareStmt": true, "ParseFunctionReturnStmt": true,
		"ParseWhileLoopStmt": true, "ParseVarOneLeadStmt": true, "ParseIteratorStmt": true, "parseIteratorStmtRest": true, "ParseClassDeclareStmt": true, "ParseThrowExceptionStmt": true,
		"ParseBreakStmt": true, "ParseContinueStmt": true, "ParseStatement": true, "ParseImportStmt": true,
		"ParseArrayExpr": true, "ParseObjNewExpr": true, "ParseFuncCallExpr": true, "ParseMemberFuncCallExpr": true, // set by ParseBasicExpr
		"ParseGetterDeclareStmt": true, "parsePropertyDeclareStmt": true, "ParseBlockStmt": true, "ParseProgram": true, "ParseExecBlock": true, // not executed as statements by evalStatement
	}
	for _, f := range u.srcFuncs("pkg/syntax/zh") {
		root := f
		for root.Parent() != nil {
			root = root.Parent()
		}
		if callerSets[strings.TrimPrefix(u.fname(root), "pkg/syntax/zh.")] {
			continue
		}
		for _, in := range instrsOf(f) {
			al, ok := in.(*ssa.Alloc)
			if !ok || !al.Heap || !embedsLineBase(al.Type()) {
				continue
			}
			var rets []*ssa.Return
			for _, b := range f.Blocks {
				if ret, ok := b.Instrs[len(b.Instrs)-1].(*ssa.Return); ok {
					for i := range ret.Results {
						for _, s := range allSources(retValue(ret, i)) {
							if s == ssa.Value(al) {
								rets = append(rets, ret)
							}
						}
					}
				}
			}
			if len(rets) == 0 {
				continue
			}
			nNodes++
			isSetOn := func(x ssa.Instruction) bool {
				call, ok := x.(ssa.CallInstruction)
				if !ok || u.callName(call) != setLine {
					return false
				}
				for _, s := range allSources(call.Common().Args[1]) {
					if s == ssa.Value(al) {
						return true
					}
				}
				return false
			}
			bad := feasibleReturnAvoiding(al.Block(), instrIndex(al)+1, rets, isSetOn)
			R.check(bad == nil, "C18.setline", u.fname(f)+":"+recvNamed(al.Type()), u.pos(al.Pos()), "the node gets its source line before it is returned", "a "+recvNamed(al.Type())+" node can be returned without a source line (errors inside it are reported on line 1)")
		}
	}
	if f := u.ssaFunc("pkg/syntax/zh", "ParseBasicExpr"); f != nil {
		// results of the sub-productions get their line here
		ok := reachableAvoiding(f.Blocks[0], 0, isRetInstr, func(x ssa.Instruction) bool { return isCallTo(u, x, setLine) }) == nil
		R.check(ok, "C18.setline", "pkg/syntax/zh.ParseBasicExpr", u.pos(f.Pos()), "every basic expression gets the line of its first token", "a basic expression can be returned without a line")
	}
	R.min("C18.setline", 10)
	R.count("line_carrying_nodes_checked", nNodes)

	// ---- C18.lines
	checkLineBookkeeping(c, u)

	// ---- C18.chain
	ruleChainRules(c, u)
	// the chain is rendered from the call stack when the error is displayed, i.e. after the failing functions have
	// returned: on an error exit the frames must still be there. A deferred pop runs on error exits too.
	nPop := 0
	for _, g := range u.srcFuncs("pkg/exec") {
		for _, in := range instrsOf(g) {
			if !isCallTo(u, in, "pkg/runtime.VM.PopCallFrame") {
				continue
			}
			nPop++
			key := u.fname(g) + ":" + siteName(u, g, in.(ssa.CallInstruction)) + ":not-on-error-exit"
			_, deferred := in.(*ssa.Defer)
			bad := ""
			if deferred {
				bad = "the pop is deferred, so it also runs when the function returns an error"
			} else {
				for _, t := range nilTests(g) {
					if isErrorType(t.X.Type()) && edgeDominates(t.If.Block(), t.NotNil, in.Block()) && u.fname(g) != "pkg/exec.handleExceptionSignal" {
						bad = "the pop is executed on the branch where an error is known (test at " + u.pos(t.If.Pos()) + ")"
					}
				}
			}
			R.check(bad == "", "C18.chain", key, u.pos(in.Pos()), "frames are popped only on successful exits (an error leaves its chain for the report)", "a call frame is removed on an error exit: "+bad+" - the reported call chain loses the calls that were active when the error arose")
		}
	}
	if nPop < 4 {
		R.viol("C18.chain", "pop-sites", "", fmt.Sprintf("expected at least 4 PopCallFrame sites in pkg/exec, found %d", nPop))
	}

	// ---- C18.module
	if f := u.ssaFunc("pkg/exec", "RuntimeErrorWrapper.Error"); f != nil {
		n, ok := 0, true
		// the renderer or the helpers it is split into
		for _, fh := range family(f, 1) {
			if fh.Pkg != f.Pkg {
				continue
			}
			for _, gp := range u.callsNamed(fh, "pkg/runtime.Module.GetProgram", "pkg/runtime.Module.GetName") {
				if !loopBlock(gp.Block()) {
					continue
				}
				n++
				// receiver = GetModule() of the loop's own frame
				okR := false
				if cv, isC := gp.Common().Args[0].(*ssa.Call); isC && u.callName(cv) == "pkg/runtime.CallFrame.GetModule" && loopBlock(cv.Block()) {
					okR = true
				}
				if !okR {
					ok = false
				}
			}
		}
		R.check(ok && n >= 1, "C18.module", "pkg/exec.RuntimeErrorWrapper.Error:chain-entries", u.pos(f.Pos()), "each chain entry is classified by its own module", "a chain entry is classified (native or not) by another frame's module")
		// line numbers come from each frame's own current line
		okL := true
		for _, cs := range u.callsNamed(f, "pkg/exec.fmtErrorLocationBodyLine") {
			arg := cs.Common().Args[2]
			if bo, isB := arg.(*ssa.BinOp); isB {
				arg = bo.X
			}
			if !flowsFrom(arg, func(v ssa.Value) bool {
				cv, isC := v.(*ssa.Call)
				return isC && u.callName(cv) == "pkg/runtime.CallFrame.GetCurrentLine"
			}) {
				okL = false
			}
		}
		R.check(okL, "C18.module", "pkg/exec.RuntimeErrorWrapper.Error:lines", u.pos(f.Pos()), "each entry shows its frame's current line + 1", "a chain entry's line does not come from its frame")
	} else {
		R.lost("C18.module", "pkg/exec.RuntimeErrorWrapper.Error")
	}

	// ---- C18.syntax
	if f := u.ssaFunc("pkg/exec", "SyntaxErrorWrapper.Error"); f != nil {
		fl := u.callsNamed(f, "pkg/syntax.Lexer.FindLineIdx")
		sl := u.callsNamed(f, "pkg/exec.fmtErrorSourceLineWithParser")
		ok := len(fl) == 1 && len(sl) == 1
		if ok {
			a, okA := fieldLoadAny(fl[0].Common().Args[1])
			b, okB := fieldLoadAny(sl[0].Common().Args[1])
			_, isCur := fieldLoad(fl[0].Common().Args[1], "Cursor")
			ok = okA && okB && a == b && isCur
		}
		R.check(ok, "C18.syntax", "pkg/exec.SyntaxErrorWrapper.Error", u.pos(f.Pos()), "line number and quoted line derive from the same error cursor", "the line number and the quoted source line of a syntax error are computed from different positions")
	} else {
		R.lost("C18.syntax", "pkg/exec.SyntaxErrorWrapper.Error")
	}
	// the column marker is computed on characters: the functions that place it never cut or index the line as a Go
	// string (byte offsets) - a column counts runes
	for _, name := range []string{"calcCursorOffset", "fmtErrorSourceLineWithParser"} {
		f := u.ssaFunc("pkg/exec", name)
		if f == nil {
			R.lost("C18.syntax", "pkg/exec."+name)
			continue
		}
		bad := ""
		for _, g := range append([]*ssa.Function{f}, allAnon(f)...) {
			for _, in := range instrsOf(g) {
				switch x := in.(type) {
				case *ssa.Slice:
					if isStringType(x.X.Type()) {
						bad = u.pos(x.Pos())
					}
				case *ssa.Lookup:
					if isStringType(x.X.Type()) {
						bad = u.pos(x.Pos())
					}
				}
			}
		}
		R.check(bad == "", "C18.syntax", "pkg/exec."+name+":columns-count-characters", u.pos(f.Pos()), "positions are applied to []rune, never to the Go string", "a character column is applied to the Go string as a byte offset at "+bad+": on a line with non-ASCII text the marker lands under the wrong character")
	}
}

// checkLineBookkeeping extracts, for the two scanners of multi-line tokens, what one step on a line break
// does: how many LineInfo entries are appended, how far the cursor moves, and the recorded start index
func checkLineBookkeeping(c *Ctx, u *Universe) {
	R := c.R
	p := u.Pkgs["pkg/syntax/zh"]
	info := p.TypesInfo
	for _, name := range []string{"parseString", "parseComment"} {
		fd, _ := u.funcDecl("pkg/syntax/zh", name)
		if fd == nil {
			R.lost("C18.lines", "pkg/syntax/zh."+name)
			continue
		}
		pos := u.pos(fd.Pos())
		// the scanning loop: the innermost for-loop whose body switches on the character, in the scanner itself or in
		// a helper of the package it hands the scanning to
		scanLoop := func(d *ast.FuncDecl) *ast.BlockStmt {
			var body *ast.BlockStmt
			ast.Inspect(d.Body, func(n ast.Node) bool {
				if fs, ok := n.(*ast.ForStmt); ok {
					has := false
					for _, st := range fs.Body.List {
						if _, ok := st.(*ast.SwitchStmt); ok {
							has = true
						}
					}
					if has {
						body = fs.Body
					}
				}
				return true
			})
			return body
		}
		body := scanLoop(fd)
		if body == nil {
			ast.Inspect(fd.Body, func(n ast.Node) bool {
				if call, ok := n.(*ast.CallExpr); ok && body == nil {
					if f := calleeFunc(info, call); f != nil && f.Pkg() == p.Types {
						if g, _ := u.funcDecl("pkg/syntax/zh", f.Name()); g != nil && g != fd {
							if b2 := scanLoop(g); b2 != nil {
								fd, body = g, b2
							}
						}
					}
				}
				return true
			})
		}
		if body == nil {
			R.undecided("C18.lines", "pkg/syntax/zh."+name, pos, "scanning loop not found")
			continue
		}
		nBad, first, nSteps := 0, "", 0
		type variant struct {
			env map[string]Val
		}
		// the variables preset for a step are found by role: nesting depth = the local the loop increments; opening
		// quote = the local read from GetCurrentChar() before the loop; comment kind = the local assigned only
		// commentType… constants; collected text = the local rune slice the loop appends to
		var depthObj, openObj, kindObj types.Object
		if cv := counterVars(info, body); len(cv) == 1 {
			depthObj = cv[0]
		}
		textObj := selfAppendedLocal(info, body)
		for _, v := range localsInOrder(info, fd) {
			for _, def := range definitionsOf(info, fd, v) {
				if call, ok := ast.Unparen(def).(*ast.CallExpr); ok && funcID(calleeFunc(info, call)) == "pkg/syntax.Lexer.GetCurrentChar" && openObj == nil && def.Pos() < body.Pos() {
					openObj = v
				}
			}
		}
		// comment kind = the one variable the loop body compares with the commentType… constants
		kinds := map[types.Object]bool{}
		ast.Inspect(body, func(n ast.Node) bool {
			if be, ok := n.(*ast.BinaryExpr); ok && (be.Op == token.EQL || be.Op == token.NEQ) {
				for _, pr := range [][2]ast.Expr{{be.X, be.Y}, {be.Y, be.X}} {
					if k, isK := identObj(info, pr[1]).(*types.Const); isK && strings.HasPrefix(k.Name(), "commentType") {
						if v, isV := identObj(info, pr[0]).(*types.Var); isV {
							kinds[v] = true
						}
					}
				}
			}
			return true
		})
		if len(kinds) == 1 {
			for k := range kinds {
				kindObj = k
			}
		}
		type preset map[types.Object]int64
		var variants []preset
		if name == "parseString" {
			if depthObj == nil || openObj == nil {
				R.undecided("C18.lines", "pkg/syntax/zh."+name, pos, "nesting counter / opening quote variables not identifiable")
				continue
			}
			variants = []preset{{openObj: 0x201C, depthObj: 1}}
		} else {
			if depthObj == nil || kindObj == nil {
				R.undecided("C18.lines", "pkg/syntax/zh."+name, pos, "nesting counter / comment kind variables not identifiable")
				continue
			}
			// multi-line comment kinds only (a single-line comment ends at the break)
			consts := constsWithPrefix(p, "commentType")
			for _, n := range sortedKeys(consts) {
				if n != "commentTypeSingle" {
					variants = append(variants, preset{kindObj: consts[n], depthObj: 1})
				}
			}
		}
		for _, vr := range variants {
			for _, brk := range [][]rune{{'\r', 'x'}, {'\n', 'x'}, {'\r', '\n'}, {'\n', '\r'}} {
				nSteps++
				t := &tape{cur: 'q', n1: brk[0], n2: brk[1]}
				pe := newPE(u, info, fd)
				var starts []Val
				pe.oracle = t.oracle(func(id string, call *ast.CallExpr, pe *PE, st *peState) (Val, bool) {
					if id == "builtin.append" && len(call.Args) >= 2 {
						if sel, ok := call.Args[0].(*ast.SelectorExpr); ok && astFieldName(info, sel.Sel) == "Lines" {
							// record the StartIdx of the appended line
							if cl, ok := call.Args[1].(*ast.CompositeLit); ok {
								for _, el := range cl.Elts {
									if kv, ok := el.(*ast.KeyValueExpr); ok {
										if id, ok := kv.Key.(*ast.Ident); ok && astFieldName(info, id) == "StartIdx" {
											starts = append(starts, pe.eval(st, kv.Value))
										}
									}
								}
							}
							return Val{K: vStr, S: "L"}, true
						}
					}
					return Val{}, false
				})
				st := newState()
				for o, v := range vr {
					st.env[o] = intVal(v)
				}
				if textObj != nil {
					st.env[textObj] = Val{K: vStr, S: ""}
				}
				outs := pe.exec(st, body.List)
				desc := fmt.Sprintf("%s variant %d break %q", name, len(vr), string(brk))
				if pe.failed != "" || len(outs) != 1 {
					nBad++
					if first == "" {
						first = desc + ": step not extractable " + pe.failed
					}
					continue
				}
				pair := (brk[0] == '\r' && brk[1] == '\n') || (brk[0] == '\n' && brk[1] == '\r')
				wantMoved := 1
				if pair {
					wantMoved = 2
				}
				// cursor index after the step = 100 + moved (on the last break character); the line starts right after it
				wantStart := int64(100 + wantMoved + 1)
				if len(starts) != 1 || t.moved != wantMoved || starts[0].K != vInt || starts[0].I != wantStart {
					nBad++
					if first == "" {
						first = fmt.Sprintf("%s: %d line(s) registered, cursor moved %d (want %d), line start %v (want %d)", desc, len(starts), t.moved, wantMoved, starts, wantStart)
					}
				}
			}
		}
		R.check(nBad == 0 && nSteps >= 4, "C18.lines", "pkg/syntax/zh."+name, pos, fmt.Sprintf("%d line-break steps: exactly one line per physical break (CRLF/LFCR as one), starting right after it", nSteps),
			fmt.Sprintf("%d of %d line-break steps register lines wrongly; first: %s", nBad, nSteps, first))
	}
	// line numbers count physical lines: the scanners of tokens that can span lines (comments, text literals) walk through
	// their token character by character - that walk is where the inner line breaks are registered - and never jump
	// the cursor ahead
	for _, name := range []string{"parseComment", "parseString"} {
		if f := u.ssaFunc("pkg/syntax/zh", name); f != nil {
			bad := ""
			for _, h := range family(f, 1) {
				if h.Pkg != f.Pkg {
					continue
				}
				for _, cs := range u.callsNamed(h, "pkg/syntax.Lexer.SetCursor") {
					bad = u.pos(cs.Pos())
				}
			}
			R.check(bad == "", "C18.lines", "pkg/syntax/zh."+name+":no-cursor-jump", u.pos(f.Pos()), "the scanner advances with Next() only", "the scanner of a multi-line token sets the cursor to a computed position ("+bad+"): the line breaks it jumps over are never registered, so every line number after such a token is too small")
		}
	}
	// a line is registered before anything on it is validated: an error raised while looking at the new line (its
	// indentation) is reported on that line, so the append to Lines dominates every fallible call of the line loop
	if f := u.ssaFunc("pkg/syntax", "Lexer.parseLine"); f != nil {
		var appendStore ssa.Instruction
		for _, in := range instrsOf(f) {
			if st, ok := in.(*ssa.Store); ok {
				if fa, ok := st.Addr.(*ssa.FieldAddr); ok && fieldAddrName(fa) == "Lexer.Lines" {
					appendStore = st
				}
			}
		}
		nF := 0
		for _, in := range instrsOf(f) {
			call, ok := in.(*ssa.Call)
			if !ok || errResult(call) == nil {
				continue
			}
			nF++
			R.check(appendStore != nil && dominatesInstr(appendStore, in), "C18.lines", "pkg/syntax.Lexer.parseLine:"+siteName(u, f, call)+":line-registered-first", u.pos(call.Pos()), "the new line is registered before this check can fail", "a check of the new line can fail before the line is registered in Lines: the syntax error is reported one line too early (header says line N-1, quoted text is line N)")
		}
		if nF == 0 {
			R.viol("C18.lines", "pkg/syntax.Lexer.parseLine:fallible-calls", u.pos(f.Pos()), "no fallible call found in the line loop")
		}
	}
	// the lexer's own line loop: one LineInfo per cycle, pair consumed together, start = cursor after the break
	if f := u.ssaFunc("pkg/syntax", "Lexer.parseLine"); f != nil {
		n := 0
		var store *ssa.Store
		for _, in := range instrsOf(f) {
			if st, ok := in.(*ssa.Store); ok {
				if fa, ok := st.Addr.(*ssa.FieldAddr); ok && fieldAddrName(fa) == "Lexer.Lines" {
					if call, ok := st.Val.(*ssa.Call); ok {
						if b, ok := call.Call.Value.(*ssa.Builtin); ok && b.Name() == "append" {
							n++
							store = st
						}
					}
				}
			}
		}
		ok := n == 1 && store != nil && loopBlock(store.Block())
		// the CR/LF pairing test guards an extra Next()
		pairNext := false
		for _, cs := range u.callsNamed(f, "pkg/syntax.Lexer.Next") {
			for _, b := range f.Blocks {
				if ifi, isIf := b.Instrs[len(b.Instrs)-1].(*ssa.If); isIf {
					if bo, isB := ifi.Cond.(*ssa.BinOp); isB && bo.Op == token.EQL {
						if k, isK := bo.Y.(*ssa.Const); isK && (k.Int64() == 10 || k.Int64() == 13) && b.Succs[0].Dominates(cs.Block()) && store != nil && dominatesInstr(cs, store) == false && cs.Block() != f.Blocks[0] {
							pairNext = true
						}
					}
				}
			}
		}
		R.check(ok && pairNext, "C18.lines", "pkg/syntax.Lexer.parseLine", u.pos(f.Pos()), "one line per physical break; the second character of CRLF/LFCR is consumed with the first", "the lexer's line loop does not register exactly one line per physical line break")
	} else {
		R.lost("C18.lines", "pkg/syntax.Lexer.parseLine")
	}
}
