package main

import (
	"fmt"
	"go/ast"
	"go/constant"
	"go/token"
	"go/types"
	"sort"
	"strings"

	"golang.org/x/tools/go/packages"
	"golang.org/x/tools/go/ssa"
	"golang.org/x/tools/go/types/typeutil"
)

// ---------- AST / types helpers

// calleeFunc resolves the called function/method through type information (never by name text)
func calleeFunc(info *types.Info, call *ast.CallExpr) *types.Func {
	if f, ok := typeutil.Callee(info, call).(*types.Func); ok {
		return f
	}
	return nil
}

// funcID renders a types.Func as "pkgpath.Name" or "pkgpath.Type.Method"
func funcID(f *types.Func) string {
	if f == nil {
		return ""
	}
	pk := ""
	if f.Pkg() != nil {
		pk = strings.TrimPrefix(strings.TrimPrefix(f.Pkg().Path(), modPath), "/")
	}
	sig, _ := f.Type().(*types.Signature)
	if sig != nil && sig.Recv() != nil {
		return pk + "." + recvNamed(sig.Recv().Type()) + "." + aliasName(f)
	}
	return pk + "." + aliasName(f)
}

func isMapType(t types.Type) bool {
	if t == nil {
		return false
	}
	_, ok := t.Underlying().(*types.Map)
	return ok
}

// identObj returns the object an expression denotes if it is a plain identifier (parens stripped)
func identObj(info *types.Info, e ast.Expr) types.Object {
	e = ast.Unparen(e)
	if id, ok := e.(*ast.Ident); ok {
		if o := info.Uses[id]; o != nil {
			return o
		}
		return info.Defs[id]
	}
	return nil
}

// constVal returns the constant value of an expression if it has one
func constVal(info *types.Info, e ast.Expr) constant.Value {
	if tv, ok := info.Types[e]; ok && tv.Value != nil {
		return tv.Value
	}
	return nil
}

func constInt(info *types.Info, e ast.Expr) (int64, bool) {
	v := constVal(info, e)
	if v == nil || v.Kind() != constant.Int {
		return 0, false
	}
	return constant.Int64Val(v)
}

// namedTypeIs tests whether t (or *t) is the named type pkgrel.Name
func namedTypeIs(t types.Type, pkgSuffix, name string) bool {
	if t == nil {
		return false
	}
	if p, ok := t.(*types.Pointer); ok {
		t = p.Elem()
	}
	n, ok := t.(*types.Named)
	if !ok || n.Obj().Pkg() == nil {
		return false
	}
	return n.Obj().Name() == name && strings.HasSuffix(n.Obj().Pkg().Path(), pkgSuffix)
}

// enclosingFunc maps every ast.Node position to the enclosing FuncDecl of a package
func enclosingDecl(p *packages.Package, pos token.Pos) *ast.FuncDecl {
	for _, f := range p.Syntax {
		if pos < f.Pos() || pos > f.End() {
			continue
		}
		for _, d := range f.Decls {
			if fd, ok := d.(*ast.FuncDecl); ok && fd.Pos() <= pos && pos <= fd.End() {
				return fd
			}
		}
	}
	return nil
}

// constNames returns name->value of the integer constants of a package with the given name prefix
func constsWithPrefix(p *packages.Package, prefix string) map[string]int64 {
	out := map[string]int64{}
	sc := p.Types.Scope()
	for _, n := range sc.Names() {
		if !strings.HasPrefix(n, prefix) {
			continue
		}
		if c, ok := sc.Lookup(n).(*types.Const); ok && c.Val().Kind() == constant.Int {
			v, _ := constant.Int64Val(c.Val())
			out[n] = v
		}
	}
	return out
}

func sortedKeys[V any](m map[string]V) []string {
	var ks []string
	for k := range m {
		ks = append(ks, k)
	}
	sort.Strings(ks)
	return ks
}

// ---------- SSA helpers

func instrsOf(f *ssa.Function) []ssa.Instruction {
	var out []ssa.Instruction
	for _, b := range f.Blocks {
		out = append(out, b.Instrs...)
	}
	return out
}

// staticCallee returns the statically resolved callee of a call instruction (or nil)
func staticCallee(in ssa.Instruction) *ssa.Function {
	if c, ok := in.(ssa.CallInstruction); ok {
		return c.Common().StaticCallee()
	}
	return nil
}

// callName: for static calls "pkgrel.Func" / "pkgrel.Type.Method"; for interface invokes "invoke:Iface.Method"
func (u *Universe) callName(in ssa.Instruction) string {
	c, ok := in.(ssa.CallInstruction)
	if !ok {
		return ""
	}
	cc := c.Common()
	if cc.IsInvoke() {
		return "invoke:" + recvNamed(cc.Value.Type()) + "." + cc.Method.Name()
	}
	if f := cc.StaticCallee(); f != nil {
		if f.Object() != nil {
			if tf, ok := f.Object().(*types.Func); ok {
				return funcID(tf)
			}
		}
		return u.fname(f)
	}
	return ""
}

// callsNamed lists call instructions of f whose callName equals one of names
func (u *Universe) callsNamed(f *ssa.Function, names ...string) []ssa.CallInstruction {
	var out []ssa.CallInstruction
	for _, in := range instrsOf(f) {
		n := u.callName(in)
		if n == "" {
			continue
		}
		for _, w := range names {
			if n == w {
				out = append(out, in.(ssa.CallInstruction))
			}
		}
	}
	return out
}

// strip removes value-preserving conversions
func strip(v ssa.Value) ssa.Value {
	for {
		switch x := v.(type) {
		case *ssa.ChangeInterface:
			v = x.X
		case *ssa.MakeInterface:
			v = x.X
		case *ssa.ChangeType:
			v = x.X
		case *ssa.Convert:
			v = x.X
		default:
			return v
		}
	}
}

// flowsFrom reports whether value v is derived (through phis, conversions, extracts, type asserts,
// field/index loads of locals) from a value satisfying pred. Intraprocedural, phi-aware.
func flowsFrom(v ssa.Value, pred func(ssa.Value) bool) bool {
	seen := map[ssa.Value]bool{}
	var walk func(v ssa.Value) bool
	walk = func(v ssa.Value) bool {
		if v == nil || seen[v] {
			return false
		}
		seen[v] = true
		if pred(v) {
			return true
		}
		switch x := v.(type) {
		case *ssa.Phi:
			for _, e := range x.Edges {
				if walk(e) {
					return true
				}
			}
		case *ssa.ChangeInterface:
			return walk(x.X)
		case *ssa.MakeInterface:
			return walk(x.X)
		case *ssa.ChangeType:
			return walk(x.X)
		case *ssa.Convert:
			return walk(x.X)
		case *ssa.TypeAssert:
			return walk(x.X)
		case *ssa.Extract:
			return walk(x.Tuple)
		case *ssa.UnOp:
			if x.Op == token.MUL { // load
				// value loaded from an alloc: look at stores into it
				if a, ok := x.X.(*ssa.Alloc); ok {
					for _, r := range *a.Referrers() {
						if st, ok := r.(*ssa.Store); ok && st.Addr == a {
							if walk(st.Val) {
								return true
							}
						}
					}
					return false
				}
				return walk(x.X)
			}
			return walk(x.X)
		case *ssa.FieldAddr:
			return walk(x.X)
		case *ssa.Field:
			return walk(x.X)
		case *ssa.IndexAddr:
			return walk(x.X)
		case *ssa.Index:
			return walk(x.X)
		case *ssa.Slice:
			return walk(x.X)
		}
		return false
	}
	return walk(v)
}

// allFlowsFrom: every leaf source reaching v (through phis and stores to local allocs) satisfies pred
func allSources(v ssa.Value) []ssa.Value {
	seen := map[ssa.Value]bool{}
	var out []ssa.Value
	var walk func(v ssa.Value)
	walk = func(v ssa.Value) {
		if v == nil || seen[v] {
			return
		}
		seen[v] = true
		switch x := v.(type) {
		case *ssa.Phi:
			for _, e := range x.Edges {
				walk(e)
			}
			return
		case *ssa.ChangeInterface:
			walk(x.X)
			return
		case *ssa.MakeInterface:
			walk(x.X)
			return
		case *ssa.ChangeType:
			walk(x.X)
			return
		case *ssa.UnOp:
			if x.Op == token.MUL {
				if a, ok := x.X.(*ssa.Alloc); ok {
					n := 0
					for _, r := range *a.Referrers() {
						if st, ok := r.(*ssa.Store); ok && st.Addr == a {
							walk(st.Val)
							n++
						}
					}
					if n > 0 {
						return
					}
				}
			}
		}
		out = append(out, v)
	}
	walk(v)
	return out
}

// dominatesInstr: instruction a dominates instruction b (same function)
func dominatesInstr(a, b ssa.Instruction) bool {
	ba, bb := a.Block(), b.Block()
	if ba == bb {
		for _, in := range ba.Instrs {
			if in == a {
				return true
			}
			if in == b {
				return false
			}
		}
		return false
	}
	return ba.Dominates(bb)
}

// edgeDominates: the CFG edge from -> to dominates block b, i.e. every path entry→b uses that edge.
// True when `to` has `from` as its only predecessor and `to` dominates b.
func edgeDominates(from, to, b *ssa.BasicBlock) bool {
	if len(to.Preds) != 1 || to.Preds[0] != from {
		return false
	}
	return to.Dominates(b)
}

// reachableAvoiding: is there a path from the start of block `from` (or after instruction index
// fromIdx within it) to any instruction satisfying target, without passing an instruction
// satisfying barrier? Returns a witness instruction or nil.
func reachableAvoiding(from *ssa.BasicBlock, fromIdx int, target, barrier func(ssa.Instruction) bool) ssa.Instruction {
	return reachableAvoidingB(from, fromIdx, target, barrier, nil)
}

// reachableAvoidingB additionally never enters a block of blockBarrier (edge barrier)
func reachableAvoidingB(from *ssa.BasicBlock, fromIdx int, target, barrier func(ssa.Instruction) bool, blockBarrier map[*ssa.BasicBlock]bool) ssa.Instruction {
	return reachableAvoidingE(from, fromIdx, target, barrier, blockBarrier, nil)
}

type cfgEdge struct{ from, to *ssa.BasicBlock }

// reachableAvoidingE additionally never takes an edge of edgeBarrier
func reachableAvoidingE(from *ssa.BasicBlock, fromIdx int, target, barrier func(ssa.Instruction) bool, blockBarrier map[*ssa.BasicBlock]bool, edgeBarrier map[cfgEdge]bool) ssa.Instruction {
	type st struct {
		b *ssa.BasicBlock
		i int
	}
	seen := map[*ssa.BasicBlock]bool{}
	work := []st{{from, fromIdx}}
	for len(work) > 0 {
		s := work[len(work)-1]
		work = work[:len(work)-1]
		blocked := false
		for i := s.i; i < len(s.b.Instrs); i++ {
			in := s.b.Instrs[i]
			if target(in) {
				return in
			}
			if barrier != nil && barrier(in) {
				blocked = true
				break
			}
		}
		if blocked {
			continue
		}
		for _, succ := range s.b.Succs {
			if blockBarrier[succ] || edgeBarrier[cfgEdge{s.b, succ}] {
				continue
			}
			if !seen[succ] {
				seen[succ] = true
				work = append(work, st{succ, 0})
			}
		}
	}
	return nil
}

func instrIndex(in ssa.Instruction) int {
	for i, x := range in.Block().Instrs {
		if x == in {
			return i
		}
	}
	return -1
}

// isNilConst tests for the nil constant
func isNilConst(v ssa.Value) bool {
	c, ok := v.(*ssa.Const)
	return ok && c.IsNil()
}

// condBranch describes an If instruction comparing a value against nil / a constant
type nilTest struct {
	If     *ssa.If
	X      ssa.Value
	OnNil  *ssa.BasicBlock // successor taken when X == nil
	NotNil *ssa.BasicBlock
}

// nilTests lists the nil comparisons that terminate blocks of f
func nilTests(f *ssa.Function) []nilTest {
	var out []nilTest
	for _, b := range f.Blocks {
		if len(b.Instrs) == 0 {
			continue
		}
		ifi, ok := b.Instrs[len(b.Instrs)-1].(*ssa.If)
		if !ok {
			continue
		}
		bo, ok := ifi.Cond.(*ssa.BinOp)
		if !ok || (bo.Op != token.EQL && bo.Op != token.NEQ) {
			continue
		}
		var x ssa.Value
		if isNilConst(bo.Y) {
			x = bo.X
		} else if isNilConst(bo.X) {
			x = bo.Y
		} else {
			continue
		}
		t := nilTest{If: ifi, X: x}
		if bo.Op == token.EQL {
			t.OnNil, t.NotNil = b.Succs[0], b.Succs[1]
		} else {
			t.OnNil, t.NotNil = b.Succs[1], b.Succs[0]
		}
		out = append(out, t)
	}
	return out
}

func fmtPosList(u *Universe, ps []token.Pos) string {
	var s []string
	for _, p := range ps {
		s = append(s, u.pos(p))
	}
	return strings.Join(s, ", ")
}

func must(ok bool, msg string) {
	if !ok {
		panic(fmt.Sprint("internal: ", msg))
	}
}

func constantString(v constant.Value) string {
	if v.Kind() == constant.String {
		return constant.StringVal(v)
	}
	return v.String()
}
