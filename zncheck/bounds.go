package main

import (
	"fmt"
	"go/ast"
	"go/constant"
	"go/token"
	"go/types"

	"golang.org/x/tools/go/ssa"
)

// A small symbolic bounds prover over go/ssa, used for the index / slice expressions the compiler's own
// prove pass cannot eliminate. It derives, for an integer value v at a program point,
//   lower(v)        the greatest constant c with v >= c that follows from constants, len(), dominating
//                   branch edges and (monotone) loop phis, and
//   upper(v, R)     the least constant c with v <= R + c for a reference quantity R (the length of the
//                   indexed slice, or another value),
// and discharges s[i] when lower(i) >= 0 and upper(i, len(s)) <= -1 (slices: 0 <= lo <= hi <= len).
// Two loads of the same field of the same object count as the same slice only when the function does not
// store to that field (the slice is not re-assigned between test and access); callees are assumed not to
// shrink the slice between test and access. A function returning (…, index, …, error) is summarised by
// proving the bounds at each of its returns.

type bref struct {
	slice     ssa.Value // len(slice) where slice is a plain value
	fieldBase ssa.Value // len(base.field)
	field     int
	val       ssa.Value // a plain integer value
	zero      bool      // the constant 0 (upper(v, zero) = c means v <= c)
	raw       bool      // with fieldBase: the integer field base.field itself (not its length)
}

func (r bref) String() string {
	switch {
	case r.zero:
		return "0"
	case r.fieldBase != nil:
		return fmt.Sprintf("len(%s.#%d)", r.fieldBase.Name(), r.field)
	case r.slice != nil:
		return "len(" + r.slice.Name() + ")"
	case r.val != nil:
		return r.val.Name()
	}
	return "?"
}

type bfact struct {
	x, y     ssa.Value
	op       token.Token // x op y holds on the edge from -> to
	from, to *ssa.BasicBlock
}

type bprover struct {
	fn     *ssa.Function
	facts  []bfact
	stored map[string]bool // "base.field" stored in fn
	budget int
	// given: lower bounds of parameters that a reviewed table entry states as the callers' obligation
	given map[*ssa.Parameter]int64
}

var bproverCache = map[*ssa.Function]*bprover{}

func newBProver(fn *ssa.Function) *bprover {
	if p, ok := bproverCache[fn]; ok {
		p.budget = 4000
		return p
	}
	p := &bprover{fn: fn, stored: map[string]bool{}, budget: 4000}
	var deferred []deferredCond
	neg := map[token.Token]token.Token{token.LSS: token.GEQ, token.GEQ: token.LSS, token.GTR: token.LEQ, token.LEQ: token.GTR, token.EQL: token.NEQ, token.NEQ: token.EQL}
	for _, b := range fn.Blocks {
		for _, in := range b.Instrs {
			if st, ok := in.(*ssa.Store); ok {
				if fa, ok := st.Addr.(*ssa.FieldAddr); ok {
					p.stored[fmt.Sprintf("%p.%d", fa.X, fa.Field)] = true
					// a store through another load of the same pointer field: be conservative on the field index
					p.stored[fmt.Sprintf("*.%s.%d", fa.X.Type().String(), fa.Field)] = true
				}
			}
		}
		if len(b.Instrs) == 0 {
			continue
		}
		ifi, ok := b.Instrs[len(b.Instrs)-1].(*ssa.If)
		if !ok {
			continue
		}
		cond := ifi.Cond
		flip := false
		for {
			un, ok := cond.(*ssa.UnOp)
			if !ok || un.Op != token.NOT {
				break
			}
			cond, flip = un.X, !flip
		}
		bo, ok := cond.(*ssa.BinOp)
		if !ok {
			if _, isPhi := cond.(*ssa.Phi); isPhi {
				t, f := b.Succs[0], b.Succs[1]
				if flip {
					t, f = f, t
				}
				deferred = append(deferred, deferredCond{cond, b, t, f})
			}
			continue
		}
		if _, isCmp := neg[bo.Op]; !isCmp {
			continue
		}
		if bt, ok := bo.X.Type().Underlying().(*types.Basic); !ok || bt.Info()&types.IsInteger == 0 {
			continue
		}
		t, f := b.Succs[0], b.Succs[1]
		if flip {
			t, f = f, t
		}
		p.facts = append(p.facts, bfact{bo.X, bo.Y, bo.Op, b, t}, bfact{bo.X, bo.Y, neg[bo.Op], b, f})
	}
	// boolean values computed earlier (named conditions, && / || chains stored in a variable): knowing the value
	// tells which comparison produced it and which comparisons had to hold on the way there
	base := append([]bfact{}, p.facts...)
	var implied func(v ssa.Value, truth bool, depth int) []bfact
	implied = func(v ssa.Value, truth bool, depth int) []bfact {
		if depth > 4 {
			return nil
		}
		switch x := v.(type) {
		case *ssa.UnOp:
			if x.Op == token.NOT {
				return implied(x.X, !truth, depth+1)
			}
		case *ssa.BinOp:
			if _, isCmp := neg[x.Op]; isCmp {
				if bt, ok := x.X.Type().Underlying().(*types.Basic); ok && bt.Info()&types.IsInteger != 0 {
					op := x.Op
					if !truth {
						op = neg[op]
					}
					return []bfact{{x: x.X, y: x.Y, op: op}}
				}
			}
		case *ssa.Phi:
			// the value can only have come over an edge that does not carry the opposite constant
			cand := -1
			for i, e := range x.Edges {
				if k, isK := e.(*ssa.Const); isK && k.Value != nil && k.Value.Kind() == constant.Bool && constant.BoolVal(k.Value) != truth {
					continue
				}
				if cand >= 0 {
					return nil
				}
				cand = i
			}
			if cand < 0 {
				return nil
			}
			out := implied(x.Edges[cand], truth, depth+1)
			pred := x.Block().Preds[cand]
			for _, f := range base {
				if edgeDominates(f.from, f.to, pred) || (f.from == pred && f.to == x.Block() && len(pred.Succs) == 2 && pred.Succs[0] != pred.Succs[1]) {
					out = append(out, bfact{x: f.x, y: f.y, op: f.op})
				}
			}
			return out
		}
		return nil
	}
	for _, d := range deferred {
		for _, f := range implied(d.cond, true, 0) {
			p.facts = append(p.facts, bfact{f.x, f.y, f.op, d.b, d.t})
		}
		for _, f := range implied(d.cond, false, 0) {
			p.facts = append(p.facts, bfact{f.x, f.y, f.op, d.b, d.f})
		}
	}
	bproverCache[fn] = p
	return p
}

type deferredCond struct {
	cond    ssa.Value
	b, t, f *ssa.BasicBlock
}

// bpoint: the end of block b, or (via != nil) the CFG edge b -> via
type bpoint struct{ b, via *ssa.BasicBlock }

func (p *bprover) holdsAt(f bfact, at bpoint) bool {
	if at.via != nil && f.from == at.b && f.to == at.via && len(at.b.Succs) == 2 && at.b.Succs[0] != at.b.Succs[1] {
		return true
	}
	return edgeDominates(f.from, f.to, at.b)
}

// lin strips constant additions: v = base + off (base nil for constants)
func lin(v ssa.Value) (ssa.Value, int64) {
	var off int64
	for {
		switch x := v.(type) {
		case *ssa.Const:
			if x.Value != nil && x.Value.Kind() == constant.Int {
				if k, ok := constant.Int64Val(x.Value); ok {
					return nil, off + k
				}
			}
			return v, off
		case *ssa.BinOp:
			if k, ok := x.Y.(*ssa.Const); ok && k.Value != nil && k.Value.Kind() == constant.Int && (x.Op == token.ADD || x.Op == token.SUB) {
				kv, _ := constant.Int64Val(k.Value)
				if x.Op == token.ADD {
					off += kv
				} else {
					off -= kv
				}
				v = x.X
				continue
			}
			if k, ok := x.X.(*ssa.Const); ok && k.Value != nil && k.Value.Kind() == constant.Int && x.Op == token.ADD {
				kv, _ := constant.Int64Val(k.Value)
				off += kv
				v = x.Y
				continue
			}
			return v, off
		case *ssa.ChangeType:
			v = x.X
			continue
		case *ssa.UnOp:
			// load of a local cell that is written exactly once (a variable captured by a closure)
			if x.Op == token.MUL {
				if a, ok := x.X.(*ssa.Alloc); ok {
					if sv := singleStoreValue(a, x); sv != nil {
						v = sv
						continue
					}
				}
			}
			return v, off
		}
		return v, off
	}
}

// singleStoreValue: the only value ever stored into the local cell a, when that store dominates the load
func singleStoreValue(a *ssa.Alloc, load *ssa.UnOp) ssa.Value {
	var st *ssa.Store
	for _, r := range *a.Referrers() {
		switch x := r.(type) {
		case *ssa.Store:
			if x.Addr != ssa.Value(a) || st != nil {
				return nil
			}
			st = x
		case *ssa.UnOp:
		case *ssa.MakeClosure:
			fn, _ := x.Fn.(*ssa.Function)
			if fn == nil {
				return nil
			}
			for i, b := range x.Bindings {
				if b != ssa.Value(a) || i >= len(fn.FreeVars) {
					continue
				}
				for _, fr := range *fn.FreeVars[i].Referrers() {
					if _, isLoad := fr.(*ssa.UnOp); !isLoad {
						return nil
					}
				}
			}
		case *ssa.DebugRef:
		default:
			return nil
		}
	}
	if st == nil {
		return nil
	}
	if st.Block() == load.Block() {
		for _, in := range st.Block().Instrs {
			if in == ssa.Instruction(st) {
				return st.Val
			}
			if in == ssa.Instruction(load) {
				return nil
			}
		}
	}
	if st.Block().Dominates(load.Block()) {
		return st.Val
	}
	return nil
}

func lenArg(v ssa.Value) (ssa.Value, bool) {
	call, ok := v.(*ssa.Call)
	if !ok {
		return nil, false
	}
	bi, ok := call.Call.Value.(*ssa.Builtin)
	if !ok || (bi.Name() != "len" && bi.Name() != "cap") || len(call.Call.Args) != 1 {
		return nil, false
	}
	return call.Call.Args[0], true
}

func refOfSlice(s ssa.Value) bref {
	if un, ok := s.(*ssa.UnOp); ok && un.Op == token.MUL {
		if fa, ok := un.X.(*ssa.FieldAddr); ok {
			return bref{fieldBase: fa.X, field: fa.Field}
		}
	}
	if f, ok := s.(*ssa.Field); ok {
		return bref{fieldBase: f.X, field: f.Field}
	}
	return bref{slice: s}
}

func refOfValue(v ssa.Value) bref {
	if a, ok := lenArg(v); ok {
		return refOfSlice(a)
	}
	// an integer field read: all reads of the field denote the same quantity while the function does not store it
	if un, ok := v.(*ssa.UnOp); ok && un.Op == token.MUL {
		if fa, ok := un.X.(*ssa.FieldAddr); ok {
			if bt, isB := un.Type().Underlying().(*types.Basic); isB && bt.Info()&types.IsInteger != 0 {
				return bref{fieldBase: fa.X, field: fa.Field, raw: true, val: v}
			}
		}
	}
	return bref{val: v}
}

func (p *bprover) sameRef(a, b bref) bool {
	switch {
	case a.fieldBase != nil && b.fieldBase != nil:
		if a.field != b.field || a.raw != b.raw {
			return false
		}
		if a.raw && a.val != nil && a.val == b.val {
			return true
		}
		same := samePtr(a.fieldBase, b.fieldBase)
		if !same {
			return false
		}
		return !p.stored[fmt.Sprintf("%p.%d", a.fieldBase, a.field)] && !p.stored[fmt.Sprintf("*.%s.%d", a.fieldBase.Type().String(), a.field)]
	case a.slice != nil && b.slice != nil:
		return a.slice == b.slice
	case a.val != nil && b.val != nil:
		return a.val == b.val
	}
	return false
}

func (p *bprover) tick() bool {
	p.budget--
	return p.budget > 0
}

// orient returns the fact as (subject op other) when one side's base is `base`: subject = base + o
func orient(f bfact, base ssa.Value) (o int64, op token.Token, other ssa.Value, ok bool) {
	swap := map[token.Token]token.Token{token.LSS: token.GTR, token.GTR: token.LSS, token.LEQ: token.GEQ, token.GEQ: token.LEQ, token.EQL: token.EQL, token.NEQ: token.NEQ}
	if b, off := lin(f.x); b != nil && b == base {
		return off, f.op, f.y, true
	}
	if b, off := lin(f.y); b != nil && b == base {
		return off, swap[f.op], f.x, true
	}
	return 0, 0, nil, false
}

// lower: greatest known c with v >= c at the end of block at
func (p *bprover) lower(v ssa.Value, at bpoint, seen map[ssa.Value]bool) (int64, bool) {
	if !p.tick() {
		return 0, false
	}
	base, off := lin(v)
	if base == nil {
		return off, true
	}
	best, have := int64(0), false
	upd := func(c int64) {
		if !have || c > best {
			best, have = c, true
		}
	}
	if _, ok := lenArg(base); ok {
		upd(0)
	}
	if seen[base] {
		if have {
			return best + off, true
		}
		return 0, false
	}
	seen[base] = true
	defer delete(seen, base)
	for _, f := range p.facts {
		if !p.holdsAt(f, at) {
			continue
		}
		o, op, other, ok := orient(f, base)
		if !ok {
			continue
		}
		// base + o  op  other
		switch op {
		case token.GEQ, token.GTR, token.EQL:
			if c, ok := p.lower(other, at, seen); ok {
				if op == token.GTR {
					c++
				}
				upd(c - o)
			}
		}
	}
	if par, ok := base.(*ssa.Parameter); ok {
		if c, ok := p.given[par]; ok {
			upd(c)
		}
	}
	switch x := base.(type) {
	case *ssa.Phi:
		all, first := int64(0), true
		okAll := true
		for i, e := range x.Edges {
			eb, eo := lin(e)
			if eb == ssa.Value(x) {
				if eo >= 0 {
					continue // non-decreasing self edge
				}
				okAll = false
				break
			}
			c, ok := p.lower(e, bpoint{x.Block().Preds[i], x.Block()}, seen)
			if !ok {
				okAll = false
				break
			}
			if first || c < all {
				all, first = c, false
			}
		}
		if okAll && !first {
			upd(all)
		}
	case *ssa.BinOp:
		switch x.Op {
		case token.SUB:
			// a - b >= offA - c  when  b <= refA + c
			ab, ao := lin(x.X)
			if ab != nil {
				if c, ok := p.upper(x.Y, refOfValue(ab), at, map[ssa.Value]bool{}); ok {
					upd(ao - c)
				}
			}
		case token.ADD:
			a, oka := p.lower(x.X, at, seen)
			b, okb := p.lower(x.Y, at, seen)
			if oka && okb {
				upd(a + b)
			}
		case token.QUO, token.SHR:
			if a, ok := p.lower(x.X, at, seen); ok && a >= 0 {
				if b, ok := p.lower(x.Y, at, seen); ok && b >= 0 {
					upd(0)
				}
			}
		case token.REM:
			if a, ok := p.lower(x.X, at, seen); ok && a >= 0 {
				upd(0)
			}
		}
	case *ssa.Extract:
		if _, isSize := decodeRuneSize(x); isSize {
			upd(0)
		} else if c, ok := p.summaryLower(x, at); ok {
			upd(c)
		}
	}
	if have {
		return best + off, true
	}
	return 0, false
}

// decodeRuneSize: x is the size result of utf8.DecodeRune / DecodeRuneInString / DecodeLastRune…(s): 0 <= size <= len(s)
func decodeRuneSize(x *ssa.Extract) (ssa.Value, bool) {
	call, ok := x.Tuple.(*ssa.Call)
	if !ok || x.Index != 1 {
		return nil, false
	}
	callee := call.Call.StaticCallee()
	if callee == nil || callee.Pkg == nil || callee.Pkg.Pkg.Path() != "unicode/utf8" {
		return nil, false
	}
	switch callee.Name() {
	case "DecodeRune", "DecodeRuneInString", "DecodeLastRune", "DecodeLastRuneInString":
		return call.Call.Args[0], true
	}
	return nil, false
}

// lowerRef: greatest known c with R >= c
func (p *bprover) lowerRef(r bref, at bpoint) (int64, bool) {
	if r.zero {
		return 0, true
	}
	if r.val != nil && !r.raw {
		return p.lower(r.val, at, map[ssa.Value]bool{})
	}
	if r.raw {
		if r.val != nil {
			return p.lower(r.val, at, map[ssa.Value]bool{})
		}
		return 0, false
	}
	best := int64(0)
	// strings.HasPrefix / HasSuffix(s, "const") on a dominating true edge: len(s) >= len("const")
	for _, b := range p.fn.Blocks {
		ifi, ok := b.Instrs[len(b.Instrs)-1].(*ssa.If)
		if !ok {
			continue
		}
		call, ok := ifi.Cond.(*ssa.Call)
		if !ok || !edgeDominates(b, b.Succs[0], at.b) {
			continue
		}
		callee := call.Call.StaticCallee()
		if callee == nil || callee.Pkg == nil || callee.Pkg.Pkg.Path() != "strings" || (callee.Name() != "HasPrefix" && callee.Name() != "HasSuffix") {
			continue
		}
		k, isK := call.Call.Args[1].(*ssa.Const)
		if !isK || k.Value == nil || k.Value.Kind() != constant.String || !p.sameRef(refOfSlice(call.Call.Args[0]), r) {
			continue
		}
		if n := int64(len(constant.StringVal(k.Value))); n > best {
			best = n
		}
	}
	for _, f := range p.facts {
		if !p.holdsAt(f, at) {
			continue
		}
		for _, side := range [][2]ssa.Value{{f.x, f.y}, {f.y, f.x}} {
			b, o := lin(side[0])
			if b == nil || !p.sameRef(refOfValue(b), r) || refOfValue(b).val != nil {
				continue
			}
			op := f.op
			if side[0] == f.y {
				op = map[token.Token]token.Token{token.LSS: token.GTR, token.GTR: token.LSS, token.LEQ: token.GEQ, token.GEQ: token.LEQ, token.EQL: token.EQL, token.NEQ: token.NEQ}[op]
			}
			if op == token.GEQ || op == token.GTR || op == token.EQL {
				if c, ok := p.lower(side[1], at, map[ssa.Value]bool{}); ok {
					if op == token.GTR {
						c++
					}
					if c-o > best {
						best = c - o
					}
				}
			}
		}
	}
	return best, true
}

// equalRefs: other references known to equal r at `at` (len(a) == len(b) facts)
func (p *bprover) equalRefs(r bref, at bpoint) []bref {
	var out []bref
	for _, f := range p.facts {
		if f.op != token.EQL || !p.holdsAt(f, at) {
			continue
		}
		xb, xo := lin(f.x)
		yb, yo := lin(f.y)
		if xb == nil || yb == nil || xo != yo {
			continue
		}
		rx, ry := refOfValue(xb), refOfValue(yb)
		if p.sameRef(rx, r) {
			out = append(out, ry)
		} else if p.sameRef(ry, r) {
			out = append(out, rx)
		}
	}
	return out
}

// upper: least known c with v <= R + c at the end of block at
func (p *bprover) upper(v ssa.Value, r bref, at bpoint, seen map[ssa.Value]bool) (int64, bool) {
	c, ok := p.upper1(v, r, at, seen)
	for _, r2 := range p.equalRefs(r, at) {
		if c2, ok2 := p.upper1(v, r2, at, seen); ok2 && (!ok || c2 < c) {
			c, ok = c2, true
		}
	}
	return c, ok
}

func (p *bprover) upper1(v ssa.Value, r bref, at bpoint, seen map[ssa.Value]bool) (int64, bool) {
	if !p.tick() {
		return 0, false
	}
	base, off := lin(v)
	best, have := int64(0), false
	upd := func(c int64) {
		if !have || c < best {
			best, have = c, true
		}
	}
	if base == nil {
		if r.zero {
			return off, true
		}
		// constant k <= R + (k - lower(R))
		if lr, ok := p.lowerRef(r, at); ok {
			return off - lr, true
		}
		return 0, false
	}
	if p.sameRef(refOfValue(base), r) {
		upd(0)
	}
	if seen[base] {
		if have {
			return best + off, true
		}
		return 0, false
	}
	seen[base] = true
	defer delete(seen, base)
	for _, f := range p.facts {
		if !p.holdsAt(f, at) {
			continue
		}
		o, op, other, ok := orient(f, base)
		if !ok {
			continue
		}
		switch op {
		case token.LEQ, token.LSS, token.EQL:
			if c, ok := p.upper1(other, r, at, seen); ok {
				if op == token.LSS {
					c--
				}
				upd(c - o)
			}
		}
	}
	switch x := base.(type) {
	case *ssa.Phi:
		all, first := int64(0), true
		okAll := true
		for i, e := range x.Edges {
			eb, eo := lin(e)
			if eb == ssa.Value(x) {
				if eo <= 0 {
					continue // non-increasing self edge
				}
				okAll = false
				break
			}
			c, ok := p.upper1(e, r, bpoint{x.Block().Preds[i], x.Block()}, seen)
			if !ok {
				okAll = false
				break
			}
			if first || c > all {
				all, first = c, false
			}
		}
		if okAll && !first {
			upd(all)
		}
	case *ssa.BinOp:
		switch x.Op {
		case token.SUB:
			if a, ok := p.upper1(x.X, r, at, seen); ok {
				if b, ok := p.lower(x.Y, at, map[ssa.Value]bool{}); ok {
					upd(a - b)
				}
			}
		case token.ADD:
			for _, pr := range [][2]ssa.Value{{x.X, x.Y}, {x.Y, x.X}} {
				if a, ok := p.upper1(pr[0], r, at, seen); ok {
					if b, ok := p.upper(pr[1], bref{zero: true}, at, map[ssa.Value]bool{}); ok {
						upd(a + b)
					}
				}
			}
		case token.QUO, token.SHR:
			// a / k <= a for a >= 0, k >= 1
			if a, ok := p.upper1(x.X, r, at, seen); ok {
				if la, ok := p.lower(x.X, at, map[ssa.Value]bool{}); ok && la >= 0 {
					if lr, ok := p.lowerRef(r, at); ok && lr+a >= 0 {
						upd(a)
					}
				}
			}
		}
	case *ssa.Extract:
		if arg, isSize := decodeRuneSize(x); isSize {
			if p.sameRef(refOfSlice(arg), r) {
				upd(0)
			}
		} else if c, ok := p.summaryUpper(x, r, at); ok {
			upd(c)
		}
	case *ssa.Call:
		if c, ok := p.callUpper(x, r, at); ok {
			upd(c)
		}
	}
	if have {
		return best + off, true
	}
	return 0, false
}

// ---- summaries of helpers returning a checked index: v = Extract(call, j)

func (p *bprover) summaryReturns(x *ssa.Extract, at bpoint) (*ssa.Call, []*ssa.Return) {
	call, ok := x.Tuple.(*ssa.Call)
	if !ok {
		return nil, nil
	}
	callee := call.Call.StaticCallee()
	if callee == nil || callee.Blocks == nil || callee == p.fn {
		return nil, nil
	}
	res := callee.Signature.Results()
	errIdx := -1
	if res.Len() > 0 && isErrorType(res.At(res.Len()-1).Type()) {
		errIdx = res.Len() - 1
	}
	// is the use under `err == nil` of the same call?
	onlyNil := false
	if errIdx >= 0 {
		for _, r := range *call.Referrers() {
			ex, ok := r.(*ssa.Extract)
			if !ok || ex.Index != errIdx {
				continue
			}
			for _, b := range p.fn.Blocks {
				ifi, ok := b.Instrs[len(b.Instrs)-1].(*ssa.If)
				if !ok {
					continue
				}
				bo, ok := ifi.Cond.(*ssa.BinOp)
				if !ok || bo.X != ssa.Value(ex) || !isNilConst(bo.Y) {
					continue
				}
				if bo.Op == token.NEQ && edgeDominates(b, b.Succs[1], at.b) || bo.Op == token.EQL && edgeDominates(b, b.Succs[0], at.b) {
					onlyNil = true
				}
			}
		}
	}
	var rets []*ssa.Return
	for _, b := range callee.Blocks {
		ret, ok := b.Instrs[len(b.Instrs)-1].(*ssa.Return)
		if !ok {
			continue
		}
		if onlyNil && provablyNonNilError(retValue(ret, errIdx)) {
			continue
		}
		rets = append(rets, ret)
	}
	return call, rets
}

func (p *bprover) summaryLower(x *ssa.Extract, at bpoint) (int64, bool) {
	call, rets := p.summaryReturns(x, at)
	if call == nil || len(rets) == 0 {
		return 0, false
	}
	q := newBProver(call.Call.StaticCallee())
	q.budget = p.budget / 2
	all, first := int64(0), true
	for _, ret := range rets {
		c, ok := q.lower(retValue(ret, x.Index), bpoint{b: ret.Block()}, map[ssa.Value]bool{})
		if !ok {
			return 0, false
		}
		if first || c < all {
			all, first = c, false
		}
	}
	return all, !first
}

func (p *bprover) summaryUpper(x *ssa.Extract, r bref, at bpoint) (int64, bool) {
	call, rets := p.summaryReturns(x, at)
	if call == nil || len(rets) == 0 || r.fieldBase == nil {
		return 0, false
	}
	// the reference must be a field of another result of the same call
	rb, ok := r.fieldBase.(*ssa.Extract)
	if !ok || rb.Tuple != ssa.Value(call) {
		return 0, false
	}
	q := newBProver(call.Call.StaticCallee())
	q.budget = p.budget / 2
	all, first := int64(0), true
	for _, ret := range rets {
		r2 := bref{fieldBase: retValue(ret, rb.Index), field: r.field}
		c, ok := q.upper(retValue(ret, x.Index), r2, bpoint{b: ret.Block()}, map[ssa.Value]bool{})
		if !ok {
			return 0, false
		}
		if first || c > all {
			all, first = c, false
		}
	}
	return all, !first
}

// ---- discharging an index / slice site

// proveSite returns a non-empty justification when the SSA instruction at the bracket position pos of fn
// (searched in fn and its closures) is provably in bounds
func proveSite(fn *ssa.Function, lbrack token.Pos, node ast.Expr) string {
	return proveSiteGiven(fn, lbrack, node, nil)
}

// proveSiteGiven: the same under stated lower bounds of fn's parameters ("param1>=0": parameter number 1, counting the
// receiver as 0, is never negative - an obligation of the callers recorded in the reviewed table)
func proveSiteGiven(fn *ssa.Function, lbrack token.Pos, node ast.Expr, given []string) string {
	var fns []*ssa.Function
	var add func(f *ssa.Function)
	add = func(f *ssa.Function) {
		fns = append(fns, f)
		for _, a := range f.AnonFuncs {
			add(a)
		}
	}
	add(fn)
	for _, f := range fns {
		for _, in := range instrsOf(f) {
			if in.Pos() != lbrack {
				continue
			}
			p := newBProver(f)
			p.given = nil
			if len(given) > 0 {
				p.given = map[*ssa.Parameter]int64{}
				for _, g := range given {
					var idx int
					var lo int64
					if n, _ := fmt.Sscanf(g, "param%d>=%d", &idx, &lo); n == 2 && idx < len(fn.Params) {
						p.given[fn.Params[idx]] = lo
					}
				}
				defer func() { p.given = nil }()
			}
			at := bpoint{b: in.Block()}
			// facts established by the test that ends a dominating block hold in `at`; the instruction's own
			// block end is a safe point because a block has no internal control flow
			switch x := in.(type) {
			case *ssa.IndexAddr:
				return p.proveIndex(x.Index, sliceOfIndexed(x.X), at)
			case *ssa.Index:
				return p.proveIndex(x.Index, bref{slice: x.X}, at)
			case *ssa.Lookup:
				if _, isMap := x.X.Type().Underlying().(*types.Map); isMap {
					continue
				}
				return p.proveIndex(x.Index, refOfSlice(x.X), at)
			case *ssa.Slice:
				return p.proveSlice(x, at)
			}
		}
	}
	return ""
}

func sliceOfIndexed(x ssa.Value) bref {
	return refOfSlice(x)
}

func (p *bprover) proveIndex(idx ssa.Value, r bref, at bpoint) string {
	lo, ok := p.lower(idx, at, map[ssa.Value]bool{})
	if !ok || lo < 0 {
		return ""
	}
	hi, ok := p.upper(idx, r, at, map[ssa.Value]bool{})
	if !ok || hi > -1 {
		return ""
	}
	return fmt.Sprintf("bounds proved from dominating tests / loop structure: index >= %d and index <= %s%+d", lo, r, hi)
}

func (p *bprover) proveSlice(x *ssa.Slice, at bpoint) string {
	r := refOfSlice(x.X)
	if pt, ok := x.X.Type().Underlying().(*types.Pointer); ok {
		if _, isArr := pt.Elem().Underlying().(*types.Array); isArr {
			return ""
		}
	}
	if x.Max != nil {
		return ""
	}
	// 0 <= low <= high <= len
	if x.Low != nil {
		lo, ok := p.lower(x.Low, at, map[ssa.Value]bool{})
		if !ok || lo < 0 {
			return ""
		}
	}
	if x.High != nil {
		hi, ok := p.upper(x.High, r, at, map[ssa.Value]bool{})
		if !ok || hi > 0 {
			return ""
		}
		if x.Low != nil {
			c, ok := p.upper(x.Low, refOfValue(linBase(x.High)), at, map[ssa.Value]bool{})
			_, ho := lin(x.High)
			if linBase(x.High) == nil {
				// constant high: low <= high needs a constant low
				lb, lo2 := lin(x.Low)
				if lb != nil || lo2 > ho {
					return ""
				}
			} else if !ok || c > ho {
				return ""
			}
		} else {
			lo, ok := p.lower(x.High, at, map[ssa.Value]bool{})
			if !ok || lo < 0 {
				return ""
			}
		}
	} else if x.Low != nil {
		c, ok := p.upper(x.Low, r, at, map[ssa.Value]bool{})
		if !ok || c > 0 {
			return ""
		}
	}
	return "slice bounds proved from dominating tests / loop structure: 0 <= low <= high <= " + r.String()
}

func linBase(v ssa.Value) ssa.Value {
	b, _ := lin(v)
	return b
}

// samePtr: the same SSA value, two loads of the same pointer-valued field, or two loads of the same
// once-written local cell (a parameter or variable spilled because a closure captures it)
func samePtr(a, b ssa.Value) bool {
	if a == b {
		return true
	}
	x, okx := fieldLoadAny(a)
	y, oky := fieldLoadAny(b)
	if okx && oky && x == y {
		return true
	}
	ua, oka := a.(*ssa.UnOp)
	ub, okb := b.(*ssa.UnOp)
	if oka && okb && ua.Op == token.MUL && ub.Op == token.MUL && ua.X == ub.X {
		if al, ok := ua.X.(*ssa.Alloc); ok {
			return singleStoreValue(al, ua) != nil && singleStoreValue(al, ub) != nil
		}
	}
	return false
}

type linForm struct {
	base ssa.Value
	off  int64
}

// linForms: the possible (base + off) forms of v, looking through helpers that return v as one result
// (every return of the helper contributes a form; returns with a provably non-nil error are skipped)
func linForms(v ssa.Value, depth int) []linForm {
	base, off := lin(v)
	ex, ok := base.(*ssa.Extract)
	if !ok || depth == 0 {
		return []linForm{{base, off}}
	}
	call, ok := ex.Tuple.(*ssa.Call)
	if !ok {
		return []linForm{{base, off}}
	}
	callee := call.Call.StaticCallee()
	if callee == nil || callee.Blocks == nil {
		return []linForm{{base, off}}
	}
	res := callee.Signature.Results()
	errIdx := -1
	if res.Len() > 0 && isErrorType(res.At(res.Len()-1).Type()) {
		errIdx = res.Len() - 1
	}
	var out []linForm
	for _, b := range callee.Blocks {
		ret, ok := b.Instrs[len(b.Instrs)-1].(*ssa.Return)
		if !ok {
			continue
		}
		if errIdx >= 0 && provablyNonNilError(retValue(ret, errIdx)) {
			continue
		}
		for _, lf := range linForms(retValue(ret, ex.Index), depth-1) {
			out = append(out, linForm{lf.base, lf.off + off})
		}
	}
	return out
}

// callUpper: v = h(args…) with a single integer result; the reference is a field of one of the arguments (e.g. the
// receiver's localCount): every return of h is bounded relative to the same field of the corresponding parameter
func (p *bprover) callUpper(call *ssa.Call, r bref, at bpoint) (int64, bool) {
	h := call.Call.StaticCallee()
	if h == nil || h.Blocks == nil || h == p.fn || r.fieldBase == nil || h.Signature.Results().Len() != 1 {
		return 0, false
	}
	idx := -1
	for i, a := range call.Call.Args {
		if samePtr(a, r.fieldBase) && i < len(h.Params) {
			idx = i
		}
	}
	if idx < 0 {
		return 0, false
	}
	q := newBProver(h)
	q.budget = p.budget / 2
	all, first := int64(0), true
	for _, b := range h.Blocks {
		ret, ok := b.Instrs[len(b.Instrs)-1].(*ssa.Return)
		if !ok {
			continue
		}
		// a constant answer (e.g. -1 = not found) that the caller's own tests exclude at this point does not count
		if rb, ro := lin(retValue(ret, 0)); rb == nil {
			if lo, okLo := p.lowerFactsOnly(call, at); okLo && ro < lo {
				continue
			}
		}
		r2 := bref{fieldBase: h.Params[idx], field: r.field, raw: r.raw}
		c, ok := q.upper(retValue(ret, 0), r2, bpoint{b: b}, map[ssa.Value]bool{})
		if !ok {
			return 0, false
		}
		if first || c > all {
			all, first = c, false
		}
	}
	return all, !first
}

// lowerFactsOnly: the greatest constant c with v >= c that follows from dominating comparisons of v with constants
func (p *bprover) lowerFactsOnly(v ssa.Value, at bpoint) (int64, bool) {
	best, have := int64(0), false
	for _, f := range p.facts {
		if !p.holdsAt(f, at) {
			continue
		}
		o, op, other, ok := orient(f, v)
		if !ok {
			continue
		}
		ob, oo := lin(other)
		if ob != nil {
			continue
		}
		switch op {
		case token.GEQ, token.EQL:
			if c := oo - o; !have || c > best {
				best, have = c, true
			}
		case token.GTR:
			if c := oo - o + 1; !have || c > best {
				best, have = c, true
			}
		}
	}
	return best, have
}
