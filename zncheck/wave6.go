package main

// Rules added for the wave-6 seeded changes (see DESIGN.md §10, wave 6).

import (
	"go/constant"
	"go/token"
	"go/types"
	"strings"

	"golang.org/x/tools/go/ssa"
)

// ruleFunctionImmutable (C16.fnshared): library functions are process-wide *value.Function objects handed to every VM
// (package-level lookup tables of functions), so a Function must never change after it was built: a field of Function is
// stored only on an object allocated in the storing function, or by a method of Function whose every call site applies it
// to a Function built in the calling function (NewFunction(...).SetName(...) chains included).
func ruleFunctionImmutable(c *Ctx, u *Universe, rule string) {
	R := c.R
	R.Explain += strings.Replace(" (%s) a field of value.Function is stored only on an object built in the storing function, or by a method whose every call site applies it to a function built there (library functions are process-wide objects).", "%s", rule, 1)
	mutators := map[*ssa.Function]bool{}
	n := 0
	for _, rel := range corePkgs {
		for _, f := range u.srcFuncs(rel) {
			for _, in := range instrsOf(f) {
				st, ok := in.(*ssa.Store)
				if !ok {
					continue
				}
				fa, ok := st.Addr.(*ssa.FieldAddr)
				if !ok || !strings.HasPrefix(fieldAddrName(fa), "Function.") || !namedTypeIs(fa.X.Type(), "pkg/value", "Function") {
					continue
				}
				n++
				switch {
				case freshObject(fa.X):
					R.hold(rule, u.fname(f)+":stores "+fieldAddrName(fa), u.pos(in.Pos()), "the function object is allocated here")
				case len(f.Params) > 0 && f.Signature.Recv() != nil && fa.X == ssa.Value(f.Params[0]):
					mutators[f] = true
				default:
					R.viol(rule, u.fname(f)+":stores "+fieldAddrName(fa), u.pos(in.Pos()), "a field of a function object that was not built here is written: library functions are shared by all executions of the process, the change is visible to later and concurrent executions (and races with them)")
				}
			}
		}
	}
	for changed := true; changed; {
		changed = false
		for _, rel := range corePkgs {
			for _, f := range u.srcFuncs(rel) {
				for _, in := range instrsOf(f) {
					call, ok := in.(ssa.CallInstruction)
					if !ok {
						continue
					}
					callee := call.Common().StaticCallee()
					if callee == nil || !mutators[callee] || len(call.Common().Args) == 0 {
						continue
					}
					recv := call.Common().Args[0]
					if freshFunctionValue(recv, mutators) {
						continue
					}
					if len(f.Params) > 0 && f.Signature.Recv() != nil && recv == ssa.Value(f.Params[0]) && namedTypeIs(recv.Type(), "pkg/value", "Function") {
						if !mutators[f] {
							mutators[f] = true
							changed = true
						}
						continue
					}
					mutators[nil] = true // marker: at least one bad site (reported below)
				}
			}
		}
	}
	delete(mutators, nil)
	for _, rel := range corePkgs {
		for _, f := range u.srcFuncs(rel) {
			for _, in := range instrsOf(f) {
				call, ok := in.(ssa.CallInstruction)
				if !ok {
					continue
				}
				callee := call.Common().StaticCallee()
				if callee == nil || !mutators[callee] || len(call.Common().Args) == 0 {
					continue
				}
				n++
				recv := call.Common().Args[0]
				okSite := freshFunctionValue(recv, mutators) || (mutators[f] && len(f.Params) > 0 && recv == ssa.Value(f.Params[0]))
				R.check(okSite, rule, u.fname(f)+" -> "+u.fname(callee), u.pos(in.Pos()), "applied to a function object built in this function",
					"a method that changes a function object is applied to an object that was not built here (looked up / received): library functions are shared by all executions of the process, so the change leaks into later and concurrent executions")
			}
		}
	}
	if n == 0 {
		R.hold(rule, "function-objects-never-change", "", "no store to a field of value.Function outside its constructor and no call of a mutating method")
	}
	R.count("function_field_store_sites", n)
}

func freshFunctionValue(v ssa.Value, mutators map[*ssa.Function]bool) bool {
	switch x := v.(type) {
	case *ssa.Alloc:
		return true
	case *ssa.Call:
		callee := x.Call.StaticCallee()
		if callee == nil {
			return false
		}
		if mutators[callee] && len(x.Call.Args) > 0 {
			return freshFunctionValue(x.Call.Args[0], mutators)
		}
		// a constructor: returns an allocation of its own on every path
		if callee.Blocks == nil {
			return false
		}
		for _, in := range instrsOf(callee) {
			if ret, ok := in.(*ssa.Return); ok {
				if len(ret.Results) == 0 {
					return false
				}
				for _, s := range allSources(ret.Results[0]) {
					if _, isAlloc := s.(*ssa.Alloc); !isAlloc {
						return false
					}
				}
			}
		}
		return true
	case *ssa.Phi:
		for _, e := range x.Edges {
			if !freshFunctionValue(e, mutators) {
				return false
			}
		}
		return len(x.Edges) > 0
	}
	return false
}

// ruleExceptionPayload (C09.payload): what is wrapped into an exception signal must be a Zn value (runtime.Element):
// the handler entry recognises the payload by that interface, anything else is never intercepted.
func ruleExceptionPayload(c *Ctx, u *Universe, rule string) {
	R := c.R
	R.Explain += strings.Replace(" (%s) the payload wrapped by every NewExceptionSignal call implements runtime.Element.", "%s", rule, 1)
	elemObj := u.obj("pkg/runtime", "Element")
	if elemObj == nil {
		R.lost(rule, "pkg/runtime.Element")
		return
	}
	iface, ok := elemObj.Type().Underlying().(*types.Interface)
	if !ok {
		R.lost(rule, "pkg/runtime.Element (interface)")
		return
	}
	n := 0
	for _, rel := range corePkgs {
		for _, f := range u.srcFuncs(rel) {
			for _, call := range u.callsNamed(f, "pkg/error.NewExceptionSignal") {
				args := call.Common().Args
				if len(args) == 0 {
					continue
				}
				n++
				bad := ""
				for _, s := range allSources(args[0]) {
					t := s.Type()
					if mi, isMI := s.(*ssa.MakeInterface); isMI {
						t = mi.X.Type()
					}
					if k, isConst := s.(*ssa.Const); isConst && k.Value == nil {
						bad = "nil"
						continue
					}
					if !types.Implements(t, iface) {
						bad = types.TypeString(t, func(p *types.Package) string { return p.Name() })
					}
				}
				R.check(bad == "", rule, u.fname(f)+" -> NewExceptionSignal", u.pos(call.Pos()), "the payload is a Zn value (implements runtime.Element)",
					"the exception signal carries a "+bad+", which is not a Zn value: no 拦截 handler recognises it and the program ends with the bare signal text instead of the exception's message")
			}
		}
	}
	R.min(rule, 2)
	R.count("exception_signal_sites", n)
}

// ruleFormatConst (C14.fmtconst): display forms and formatted text are never used as a Printf format: a call of a
// fmt formatting function with a non-constant format and no further argument interprets every % of the data.
func ruleFormatConst(c *Ctx, u *Universe, rule string) {
	R := c.R
	R.Explain += strings.Replace(" (%s) no fmt formatting call in pkg/value / pkg/exec uses computed text as the format with no arguments (display forms containing % stay verbatim).", "%s", rule, 1)
	fmtIdx := map[string]int{"fmt.Sprintf": 0, "fmt.Errorf": 0, "fmt.Printf": 0, "fmt.Fprintf": 1}
	n, bad := 0, 0
	for _, rel := range []string{"pkg/value", "pkg/exec"} {
		for _, f := range u.srcFuncs(rel) {
			for _, in := range instrsOf(f) {
				call, ok := in.(ssa.CallInstruction)
				if !ok {
					continue
				}
				callee := call.Common().StaticCallee()
				if callee == nil || callee.Pkg == nil || callee.Pkg.Pkg.Path() != "fmt" {
					continue
				}
				idx, isFmt := fmtIdx["fmt."+callee.Name()]
				args := call.Common().Args
				if !isFmt || len(args) < idx+2 {
					continue
				}
				n++
				if _, isConst := args[idx].(*ssa.Const); isConst {
					continue
				}
				// the variadic slice: nil constant = no further arguments
				if k, isNil := args[idx+1].(*ssa.Const); isNil && k.Value == nil {
					bad++
					R.viol(rule, u.fname(f)+" -> fmt."+callee.Name()+"(non-constant)", u.pos(in.Pos()), "computed text is used as the format of fmt."+callee.Name()+" with no arguments: every % in the data is read as a directive, so display forms / formatted text containing % come out mangled")
				}
			}
		}
	}
	if bad == 0 {
		R.hold(rule, "no-data-as-format", "", "every fmt formatting call in pkg/value and pkg/exec has a constant format or explicit arguments")
	}
	if n < 20 {
		R.viol(rule, "fmt-call-inventory", "", "fewer fmt formatting calls found than confirmed by hand (the rule would pass vacuously)")
	}
	R.count("fmt_format_calls", n)
}

// ruleGetCharVerbatim (C13.getchar): the lexer's character accessor hands out the source character itself; the only
// constant it may answer is the end-of-input marker chosen without looking at the character.
func ruleGetCharVerbatim(c *Ctx, u *Universe, rule string) {
	R := c.R
	R.Explain += strings.Replace(" (%s) Lexer.getChar answers Source[idx] itself; a constant only where no character was read.", "%s", rule, 1)
	f := u.ssaFunc("pkg/syntax", "Lexer.getChar")
	if f == nil {
		if into := u.inlinedInto("pkg/syntax", "Lexer.getChar"); into != "" {
			R.hold(rule, "pkg/syntax.Lexer.getChar", "", "inlined into "+into)
			return
		}
		R.lost(rule, "pkg/syntax.Lexer.getChar")
		return
	}
	var loads []*ssa.UnOp
	for _, in := range instrsOf(f) {
		if un, ok := in.(*ssa.UnOp); ok && un.Op == token.MUL {
			if ia, ok := un.X.(*ssa.IndexAddr); ok && strings.HasSuffix(containerField(ia.X), ".Source") {
				loads = append(loads, un)
			}
		}
	}
	ok := len(loads) > 0
	why := ""
	for _, in := range instrsOf(f) {
		ret, isRet := in.(*ssa.Return)
		if !isRet || len(ret.Results) != 1 {
			continue
		}
		var visit func(v ssa.Value, from *ssa.BasicBlock, depth int)
		visit = func(v ssa.Value, from *ssa.BasicBlock, depth int) {
			if depth > 6 {
				ok, why = false, "value too deep"
				return
			}
			switch x := v.(type) {
			case *ssa.Const:
				for _, ld := range loads {
					if ld.Block().Dominates(from) {
						ok, why = false, "a constant is answered after looking at the character"
					}
				}
			case *ssa.UnOp:
				isLoad := false
				for _, ld := range loads {
					if ld == x {
						isLoad = true
					}
				}
				if !isLoad {
					ok, why = false, "the answer is not the source character"
				}
			case *ssa.Phi:
				for i, e := range x.Edges {
					visit(e, x.Block().Preds[i], depth+1)
				}
			default:
				ok, why = false, "the answer is computed from the character"
			}
		}
		visit(ret.Results[0], ret.Block(), 0)
	}
	R.check(ok, rule, "pkg/syntax.Lexer.getChar", u.pos(f.Pos()), "answers Source[idx] itself, or the end marker without reading a character",
		"the character accessor does not hand out the source character verbatim ("+why+"): literals containing the replaced characters read back changed")
}

// ruleBomOnlyFirst (C17.bom, package-wide): a comparison with U+FEFF anywhere in pkg/io lies in the not-yet-read region of
// a test of a first-read flag; a stream type without such a flag must not strip anything.
func ruleBomOnlyFirst(c *Ctx, u *Universe, rule string) {
	R := c.R
	R.Explain += strings.Replace(" (%s, package-wide) every comparison with U+FEFF in pkg/io lies in the first-read region of the first-read flag.", "%s", rule, 1)
	n := 0
	for _, f := range u.srcFuncs("pkg/io") {
		for _, in := range instrsOf(f) {
			bo, ok := in.(*ssa.BinOp)
			if !ok || (bo.Op != token.EQL && bo.Op != token.NEQ) {
				continue
			}
			isBom := false
			for _, op := range []ssa.Value{bo.X, bo.Y} {
				if k, ok := op.(*ssa.Const); ok && k.Value != nil && k.Value.Kind() == constant.Int {
					if v, exact := constant.Int64Val(k.Value); exact && v == 0xFEFF {
						isBom = true
					}
				}
			}
			if !isBom {
				continue
			}
			n++
			guarded := false
			for _, b := range f.Blocks {
				ifi, ok := b.Instrs[len(b.Instrs)-1].(*ssa.If)
				if !ok {
					continue
				}
				if _, isFlag := fieldLoad(ifi.Cond, "hasRead"); isFlag && b.Succs[1].Dominates(bo.Block()) {
					guarded = true
				}
			}
			R.check(guarded, rule, u.fname(f)+":compares with U+FEFF", u.pos(in.Pos()), "inside the first-read region of the first-read flag",
				"a byte-order-mark test that is not confined to the first read of the stream: a U+FEFF that starts a later block is dropped from the text")
		}
	}
	R.min(rule, 1)
	R.count("bom_comparisons", n)
}

// keyOrderOwner: v is an element of a dictionary's key-order list; returns the dictionary object it belongs to
func keyOrderOwner(u *Universe, v ssa.Value) ssa.Value {
	un, ok := v.(*ssa.UnOp)
	if !ok || un.Op != token.MUL {
		return nil
	}
	ia, ok := un.X.(*ssa.IndexAddr)
	if !ok {
		return nil
	}
	src := ia.X
	for i := 0; i < 6; i++ {
		switch x := src.(type) {
		case *ssa.Slice:
			src = x.X
			continue
		case *ssa.Call:
			if callee := x.Call.StaticCallee(); callee != nil && len(x.Call.Args) == 1 && namedTypeIs(x.Call.Args[0].Type(), "pkg/value", "HashMap") {
				if _, isSlice := x.Type().Underlying().(*types.Slice); isSlice {
					if b, isStr := x.Type().Underlying().(*types.Slice).Elem().Underlying().(*types.Basic); isStr && b.Kind() == types.String {
						return x.Call.Args[0]
					}
				}
			}
			return nil
		case *ssa.UnOp:
			if fa, ok := x.X.(*ssa.FieldAddr); ok && fieldAddrName(fa) == "HashMap.keyOrder" {
				return fa.X
			}
			return nil
		}
		break
	}
	return nil
}

// ruleDictEqByContent (….eqcontent): no comparison sets the key at some position of one dictionary's order list against
// the key at a position of ANOTHER dictionary's order list: equality, 包含 and 寻找 of dictionaries are functions of the
// contents only (a parsed / rebuilt dictionary with the same entries in another order is the same dictionary).
func ruleDictEqByContent(c *Ctx, u *Universe, rule string) {
	R := c.R
	R.Explain += strings.Replace(" (%s) no ==/!= between the key at a position of one dictionary's order list and the key at a position of another's: dictionary equality is by content.", "%s", rule, 1)
	n, bad := 0, 0
	for _, rel := range []string{"pkg/exec", "pkg/value", "pkg/common", "stdlib/json"} {
		for _, f := range u.srcFuncs(rel) {
			for _, in := range instrsOf(f) {
				bo, ok := in.(*ssa.BinOp)
				if !ok || (bo.Op != token.EQL && bo.Op != token.NEQ) {
					continue
				}
				a, b := keyOrderOwner(u, bo.X), keyOrderOwner(u, bo.Y)
				if a != nil || b != nil {
					n++
				}
				if a != nil && b != nil && a != b {
					bad++
					R.viol(rule, u.fname(f)+":compares key positions of two dictionaries", u.pos(in.Pos()), "the i-th key of one dictionary is compared with the i-th key of another: two dictionaries with the same entries in a different insertion order (e.g. one rebuilt by 解析JSON) are no longer equal")
				}
			}
		}
	}
	if bad == 0 {
		R.hold(rule, "dictionary-equality-ignores-order", "", "no comparison between key positions of two different dictionaries")
	}
	R.count("keyorder_element_comparisons", n)
}

// ruleExternalRefsOwner (C15.refsowner): the home-module marks of imported names (Scope.externalRefs: slot -> module) are
// written only by the listed owners (the constructor and DeclareExternalValue); any other writer can erase or forge the
// mark of a live imported name, which then runs in the importer's module instead of its own.
func ruleExternalRefsOwner(c *Ctx, u *Universe, rule string) {
	R := c.R
	R.Explain += strings.Replace(" (%s) Scope.externalRefs (home-module marks of imported names) is written only by the owners listed in tables/owners.json.", "%s", rule, 1)
	var owners map[string]map[string]string
	if !loadTable(c, "owners.json", &owners) {
		return
	}
	allowed := owners["Scope.externalRefs"]
	w := writersOf(u, corePkgs, map[string]bool{"Scope.externalRefs": true})["Scope.externalRefs"]
	var fns []string
	for fn := range w {
		fns = append(fns, fn)
	}
	sortStrings(fns)
	helpers := helpersOfAllowed(u, corePkgs, func(name string) bool { _, ok := allowed[name]; return ok })
	for _, fn := range fns {
		_, ok := allowed[fn]
		if !ok && helpers[fn] {
			ok = true
		}
		pos := ""
		if len(w[fn]) > 0 {
			pos = u.pos(w[fn][0].Pos())
		}
		R.check(ok, rule, "Scope.externalRefs written by "+fn, pos, "listed owner: "+allowed[fn], "a function outside the owner table writes the home-module marks of imported names: the mark of a live imported name can be erased or forged, and the imported method then runs in the importer's module (its own imports and siblings no longer resolve)")
	}
	R.min(rule, 2)
}

func sortStrings(s []string) {
	for i := 1; i < len(s); i++ {
		for j := i; j > 0 && s[j] < s[j-1]; j-- {
			s[j], s[j-1] = s[j-1], s[j]
		}
	}
}

// ruleInitialPool (C20.initial): the master starts workers on its own account only in the counted loop i < InitProcs;
// every other start belongs to the bookkeeping goroutine and goes through the reservation counter.
func ruleInitialPool(c *Ctx, su *Universe, rule string) {
	R := c.R
	R.Explain += strings.Replace(" (%s) StartMaster starts workers on its own account only inside the counted loop i < InitProcs.", "%s", rule, 1)
	f := su.ssaFunc("pkg/server", "ZnPMServer.StartMaster")
	if f == nil {
		R.lost(rule, "pkg/server.ZnPMServer.StartMaster")
		return
	}
	fns := append([]*ssa.Function{f}, f.AnonFuncs...)
	n := 0
	for _, g := range fns {
		for _, cs := range su.callsNamed(g, "pkg/server.ZnPMServer.spawnProcess") {
			n++
			ok := false
			blk := cs.Block()
			if loopBlock(blk) {
				for _, b := range g.Blocks {
					ifi, isIf := b.Instrs[len(b.Instrs)-1].(*ssa.If)
					if !isIf || !b.Succs[0].Dominates(blk) || !loopBlock(b) {
						continue
					}
					bo, isBo := ifi.Cond.(*ssa.BinOp)
					if !isBo || bo.Op != token.LSS {
						continue
					}
					if _, isPhi := bo.X.(*ssa.Phi); isPhi && valueFieldName(bo.Y) == "InitProcs" {
						ok = true
					}
				}
			}
			R.check(ok, rule, "StartMaster:spawn#"+itoa(n), su.pos(cs.Pos()), "inside the counted loop i < InitProcs", "the master starts a worker outside the counted loop over InitProcs: the pool comes up with more workers than --init-procs (with --init-procs = --max-procs it stays above --max-procs for good)")
		}
	}
	R.min(rule, 1)
}

func itoa(n int) string {
	if n == 0 {
		return "0"
	}
	s := ""
	for n > 0 {
		s = string(rune('0'+n%10)) + s
		n /= 10
	}
	return s
}

// valueFieldName: the value is a read of a struct field (value or pointer form); returns the field's name
func valueFieldName(v ssa.Value) string {
	switch x := v.(type) {
	case *ssa.Field:
		if st, ok := x.X.Type().Underlying().(*types.Struct); ok {
			return st.Field(x.Field).Name()
		}
	case *ssa.UnOp:
		if fa, ok := x.X.(*ssa.FieldAddr); ok {
			if pt, ok := fa.X.Type().Underlying().(*types.Pointer); ok {
				if st, ok := pt.Elem().Underlying().(*types.Struct); ok {
					return st.Field(fa.Field).Name()
				}
			}
		}
	}
	return ""
}

// ruleLineIndents (C05.indents): the reviewed bounds of the line-text slices (Source[start+indent chars : end]) rest on
// "a line's Indents is the indentation counted on that very line". Every store to LineInfo.Indents therefore stores
// constant 0 or the count answered by setIndentType in the same function - never a value carried over from another line.
func ruleLineIndents(c *Ctx, u *Universe, rule string) {
	R := c.R
	R.Explain += strings.Replace(" (%s) every store to LineInfo.Indents stores 0 or the count answered by setIndentType in the same function (side condition of the reviewed line-text slices).", "%s", rule, 1)
	n := 0
	for _, rel := range corePkgs {
		for _, f := range u.srcFuncs(rel) {
			for _, in := range instrsOf(f) {
				st, ok := in.(*ssa.Store)
				if !ok {
					continue
				}
				fa, ok := st.Addr.(*ssa.FieldAddr)
				if !ok || fieldAddrName(fa) != "LineInfo.Indents" {
					continue
				}
				n++
				bad := ""
				for _, s := range allSources(st.Val) {
					switch x := s.(type) {
					case *ssa.Const:
						if x.Value == nil || x.Int64() != 0 {
							bad = "a non-zero constant"
						}
					case *ssa.Extract:
						call, isCall := x.Tuple.(*ssa.Call)
						if !isCall || x.Index != 0 || !strings.HasSuffix(u.callName(call), "Lexer.setIndentType") {
							bad = "a value that is not the indentation counted on this line"
						}
					default:
						bad = "a value that is not the indentation counted on this line"
					}
				}
				R.check(bad == "", rule, u.fname(f)+":stores LineInfo.Indents", u.pos(in.Pos()), "0 or the count answered by setIndentType here",
					"a line's indent level is set to "+bad+": the line-text slice Source[start + indent characters : end] can start beyond the end of a shorter line (slice bounds panic inside the lexer; no tree and no positioned syntax error)")
			}
		}
	}
	R.min(rule, 3)
	R.count("line_indent_stores", n)
}

// ruleNumberViaParseFloat (C04.numparse): the only text-to-number conversion on the literal path is strconv.ParseFloat;
// integer parsers (base prefixes, octal leading zeros, range errors) do not implement the documented decimal form.
func ruleNumberViaParseFloat(c *Ctx, u *Universe, rule string) {
	R := c.R
	R.Explain += strings.Replace(" (%s) the only text-to-number conversion on the literal path (id_match.go) is strconv.ParseFloat.", "%s", rule, 1)
	n, bad := 0, 0
	for _, f := range u.srcFuncs("pkg/exec") {
		file := u.pos(f.Pos())
		if !strings.Contains(file, "id_match.go") {
			continue
		}
		for _, in := range instrsOf(f) {
			call, ok := in.(ssa.CallInstruction)
			if !ok {
				continue
			}
			callee := call.Common().StaticCallee()
			if callee == nil || callee.Pkg == nil {
				continue
			}
			p := callee.Pkg.Pkg.Path()
			if p != "strconv" && p != "math/big" && p != "fmt" {
				continue
			}
			n++
			name := callee.Name()
			if p == "strconv" && name == "ParseFloat" {
				continue
			}
			if p == "fmt" && !strings.HasPrefix(name, "Sscan") {
				continue
			}
			bad++
			R.viol(rule, u.fname(f)+" -> "+p+"."+name, u.pos(in.Pos()), "a numeric literal is converted by "+p+"."+name+" instead of strconv.ParseFloat: literals of the documented decimal form (leading zeros, signs, large values) can denote another number")
		}
	}
	if bad == 0 {
		R.hold(rule, "literal-conversion", "", "numeric literals are converted by strconv.ParseFloat only")
	}
	if n == 0 {
		R.viol(rule, "literal-conversion-inventory", "", "no conversion call found on the literal path (the rule would pass vacuously)")
	}
}
