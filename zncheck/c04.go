package main

import (
	"encoding/json"
	"fmt"
	"go/ast"
	"go/constant"
	"go/token"
	"go/types"
	"os"
	"path/filepath"
	"sort"
	"strings"

	"golang.org/x/tools/go/ssa"
)

func init() { register("C04", checkC04) }

// ruleKeyIdentClassified: in evalPrimeExpr (and the helpers it is split into) an identifier used as a dictionary key is
// classified by MatchIDType before its literal is taken (a malformed number-like identifier is an error there too)
func ruleKeyIdentClassified(c *Ctx, u *Universe) {
	R := c.R
	g := u.ssaFunc("pkg/exec", "evalPrimeExpr")
	if g == nil {
		R.lost("C04.keys", "pkg/exec.evalPrimeExpr")
		return
	}
	n, ok := 0, true
	for _, h := range family(g, 1) {
		// the function itself, its closures, and helpers split off it (functions the reference inventory does not know)
		root := h
		for root.Parent() != nil {
			root = root.Parent()
		}
		if h.Pkg != g.Pkg || (root != g && listedFunction("pkg/exec", u.fname(root))) {
			continue
		}
		for _, in := range instrsOf(h) {
			call, isCall := in.(*ssa.Call)
			if !isCall || !strings.HasSuffix(u.callName(call), ".GetLiteral") || len(call.Call.Args) == 0 {
				continue
			}
			// the receiver: the *syntax.ID itself or its embedded literal part
			recv := call.Call.Args[0]
			if fa, isFA := recv.(*ssa.FieldAddr); isFA {
				recv = fa.X
			}
			if !namedTypeIs(recv.Type(), "pkg/syntax", "ID") {
				continue
			}
			n++
			classified := false
			for _, mc := range u.callsNamed(h, "pkg/exec.MatchIDType", "pkg/exec.MatchIDName", "pkg/exec.MatchIDNumber") {
				if mi, isI := mc.(ssa.Instruction); isI && mc.Common().Args[0] == recv && dominatesInstr(mi, in) {
					classified = true
				}
			}
			if !classified {
				ok = false
			}
		}
	}
	R.check(ok && n >= 1, "C04.keys", "pkg/exec.evalPrimeExpr:dictionary-key-identifiers", u.pos(g.Pos()), "an identifier used as a dictionary key is classified (name / number / malformed) before its text becomes the key", "the identifier of a dictionary key is used without being classified by MatchIDType: an identifier that starts like a number but is malformed (12kg, 2.3.5, 15.) is accepted as a key instead of being rejected")
}

func loadTable(c *Ctx, name string, v any) bool {
	b, err := os.ReadFile(filepath.Join(c.Verif, "tables", name))
	if err != nil {
		c.R.viol(c.R.Prop+".infra", "tables/"+name, "", err.Error())
		return false
	}
	if err := json.Unmarshal(b, v); err != nil {
		c.R.viol(c.R.Prop+".infra", "tables/"+name, "", err.Error())
		return false
	}
	return true
}

// ---------- numeric literal DFA

type numDFA struct {
	states  map[string]int64
	names   map[int64]string
	begin   int64
	delta   map[int64]map[rune]int64 // missing = stuck
	runes   []rune                   // representatives (every rune mentioned in the body + 'x' for the rest)
	post    func(state int64, parsedZero bool, remaining bool) string
	problem string
}

func extractNumberDFA(c *Ctx, u *Universe) *numDFA {
	fd, p := u.funcDecl("pkg/exec", "tryParseNumber")
	if fd == nil {
		return nil
	}
	info := p.TypesInfo
	d := &numDFA{states: localIntConsts(info, fd), delta: map[int64]map[rune]int64{}}
	d.names = invert(d.states)
	_, loop := findMachineLoop(fd)
	var body *ast.BlockStmt
	var chObj types.Object
	if loop != nil {
		body, chObj = elementLoop(info, loop)
	}
	if body == nil {
		d.problem = "main loop (over the characters, one by one) not found"
		return d
	}
	// roles, not names: the state variable is the local that is only ever assigned local constants, the
	// consumed-characters counter is the local the loop body increments
	var stateObj, parsedObj types.Object
	if sv := stateLikeVars(info, fd); len(sv) == 1 {
		stateObj = sv[0]
	}
	if cv := counterVars(info, body); len(cv) == 1 {
		parsedObj = cv[0]
	}
	if chObj == nil || stateObj == nil || parsedObj == nil {
		d.problem = "state variable / consumed-characters counter / character variable not identifiable"
		return d
	}
	// initial state: value of `var state = …`
	pe0 := newPE(u, info, fd)
	st0 := newState()
	for _, s := range flatStmts(fd.Body.List) {
		if s == loop {
			break
		}
		for _, o := range pe0.execStmt(st0, s) {
			st0 = o.St
		}
	}
	if v := st0.env[stateObj]; v.K == vInt {
		d.begin = v.I
	} else {
		d.problem = "initial state is not a constant"
		return d
	}
	// representatives: every rune constant mentioned in the loop body, plus one unmentioned
	mention := map[rune]bool{}
	ast.Inspect(body, func(n ast.Node) bool {
		if bl, ok := n.(*ast.BasicLit); ok && bl.Kind == token.CHAR {
			if v := constVal(info, bl); v != nil {
				if i, ok := constant.Int64Val(v); ok {
					mention[rune(i)] = true
				}
			}
		}
		return true
	})
	for _, other := range []rune{'x', '/', '%', 'é', '中', '_', 'a', ' '} {
		if !mention[other] {
			mention[other] = true
		}
	}
	for r := range mention {
		d.runes = append(d.runes, r)
	}
	sort.Slice(d.runes, func(i, j int) bool { return d.runes[i] < d.runes[j] })
	var stateVals []int64
	for _, v := range d.states {
		stateVals = append(stateVals, v)
	}
	sort.Slice(stateVals, func(i, j int) bool { return stateVals[i] < stateVals[j] })
	for _, s := range stateVals {
		d.delta[s] = map[rune]int64{}
		for _, r := range d.runes {
			pe := newPE(u, info, fd)
			st := newState()
			st.env[stateObj] = intVal(s)
			st.env[chObj] = intVal(int64(r))
			st.env[parsedObj] = intVal(5)
			outs := pe.exec(st, body.List)
			if pe.failed != "" || len(outs) != 1 {
				d.problem = fmt.Sprintf("transition (%s,%q) not extractable: %s (%d outcomes)", d.names[s], r, pe.failed, len(outs))
				return d
			}
			o := outs[0]
			switch {
			case o.Kind == "next" || o.Kind == "continue":
				ns, np := o.St.env[stateObj], o.St.env[parsedObj]
				if ns.K != vInt || np.K != vInt || np.I != 6 {
					d.problem = fmt.Sprintf("transition (%s,%q): state or consumed-count not constant (state=%v parsed=%v)", d.names[s], r, ns, np)
					return d
				}
				d.delta[s][r] = ns.I
			case o.Kind == "goto" || o.Kind == "break":
				// stuck: leaves the loop without consuming
				if v := o.St.env[parsedObj]; v.K != vInt || v.I != 5 {
					d.problem = fmt.Sprintf("transition (%s,%q) leaves the loop after counting the character", d.names[s], r)
					return d
				}
			default:
				d.problem = fmt.Sprintf("transition (%s,%q): unexpected exit %s", d.names[s], r, outcomeKey(o))
				return d
			}
		}
	}
	// post-processing after the loop
	after := stmtsAfterLabel(fd, "")
	if after == nil {
		// no label: statements after the loop
		for i, s := range flatStmts(fd.Body.List) {
			if s == loop {
				after = flatStmts(fd.Body.List)[i+1:]
			}
		}
	}
	if len(after) == 0 {
		d.problem = "classification code after the loop not found"
		return d
	}
	d.post = func(state int64, parsedZero bool, remaining bool) string {
		pe := newPE(u, info, fd)
		parsed := int64(3)
		if parsedZero {
			parsed = 0
		}
		total := parsed
		if remaining {
			total += 2
		}
		pe.oracle = func(pe *PE, st *peState, call *ast.CallExpr, id string) (Val, bool) {
			if id == "builtin.len" {
				return intVal(total), true
			}
			return Val{}, false
		}
		st := newState()
		st.env[stateObj] = intVal(state)
		st.env[parsedObj] = intVal(parsed)
		outs := pe.exec(st, after)
		if pe.failed != "" || len(outs) != 1 || outs[0].Kind != "return" || len(outs[0].Ret) != 2 {
			return "?" + pe.failed
		}
		o := outs[0]
		isNum := o.RetV[0]
		errNil := o.RetV[1].K == vNil
		switch {
		case isNum.K == vBool && isNum.B && errNil:
			return "NUMBER"
		case isNum.K == vBool && !isNum.B && errNil:
			return "NAME"
		case isNum.K == vBool && !isNum.B && !errNil:
			return "ERROR"
		}
		return "?inconsistent result"
	}
	return d
}

// numClass maps a concrete rune to the symbol used by the reference regex
func numClass(r rune) rune {
	switch {
	case r == 'e' || r == 'E':
		return 'e'
	case r == '.':
		return '.'
	case r == '+' || r == '-':
		return 's'
	case r == '*':
		return '*'
	case r == '1':
		return '1'
	case r == '0':
		return '0'
	case r >= '2' && r <= '9':
		return 'd'
	case r == '^':
		return '^'
	}
	return 'x'
}

func checkNumberDFA(c *Ctx, u *Universe) {
	R := c.R
	d := extractNumberDFA(c, u)
	if d == nil {
		R.lost("C04.dfa", "pkg/exec.tryParseNumber")
		return
	}
	fd, _ := u.funcDecl("pkg/exec", "tryParseNumber")
	pos := u.pos(fd.Pos())
	if d.problem != "" {
		R.undecided("C04.dfa", "pkg/exec.tryParseNumber", pos, "cannot extract the recogniser's transition table: "+d.problem)
		return
	}
	// reference, from the property statement / manual ch.5:
	//   NUMBER  <=> [+-]?D+(\.D+)?((e|E)[+-]D+|\*(10)?\^[+-]?D+)?
	//   NAME    <=> does not begin like a number ([+-]?D)
	//   ERROR   otherwise
	alphabet := []rune{'e', '.', 's', '*', '1', '0', 'd', '^', 'x'}
	classes := map[rune][]rune{'D': {'1', '0', 'd'}, 'A': alphabet}
	refN := compileRegex(`s?D+(\.D+)?(esD+|\*(10)?\^s?D+)?`, classes, alphabet)
	refP := compileRegex(`s?DA*`, classes, alphabet)

	type cfg struct {
		s      int64
		pz     bool
		stuck  bool
		rn, rp int
	}
	start := cfg{d.begin, true, false, 0, 0}
	type item struct {
		c    cfg
		word string
	}
	seen := map[cfg]bool{start: true}
	queue := []item{{start, ""}}
	nStates, nTrans := 0, 0
	implClass := func(c cfg) string {
		return d.post(c.s, c.pz, c.stuck)
	}
	refClass := func(c cfg) string {
		if refN.accepts(c.rn) {
			return "NUMBER"
		}
		if !refP.accepts(c.rp) {
			return "NAME"
		}
		return "ERROR"
	}
	mismatch := ""
	for len(queue) > 0 && mismatch == "" {
		it := queue[0]
		queue = queue[1:]
		nStates++
		if it.word != "" {
			ic, rc := implClass(it.c), refClass(it.c)
			if ic != rc {
				mismatch = fmt.Sprintf("identifier %q: recogniser says %s, documented form says %s", it.word, ic, rc)
				break
			}
		}
		for _, r := range d.runes {
			nTrans++
			n := it.c
			sym := numClass(r)
			n.rn, n.rp = refN.step(it.c.rn, sym), refP.step(it.c.rp, sym)
			if !it.c.stuck {
				if t, ok := d.delta[it.c.s][r]; ok {
					n.s, n.pz = t, false
				} else {
					n.stuck = true
				}
			}
			if !seen[n] {
				seen[n] = true
				queue = append(queue, item{n, it.word + string(r)})
			}
		}
	}
	R.Extra["dfa_product_states"] = nStates
	R.Extra["dfa_product_transitions"] = nTrans
	R.Extra["dfa_impl_states"] = len(d.states)
	R.Extra["dfa_alphabet"] = string(d.runes)
	R.check(mismatch == "", "C04.dfa", "pkg/exec.tryParseNumber", pos,
		fmt.Sprintf("extracted %d-state recogniser is equivalent to the documented numeric form on ALL strings (product automaton: %d states, %d transitions explored exhaustively)", len(d.states), nStates, nTrans),
		"numeric-literal recogniser differs from the documented form; shortest witness: "+mismatch)
	// the accepting set must be what the post-processing uses
	R.count("dfa_pairs_evaluated", len(d.states)*len(d.runes))
}

// ---------- exponent marker rewriting (siblings)

func checkNum2Float(c *Ctx, u *Universe, rule string) {
	R := c.R
	sites := []struct{ rel, fn string }{{"pkg/exec", "parseIDNumberToFloat64"}, {"pkg/value", "strExecAtoi"}}
	for _, s := range sites {
		fd, p := u.funcDecl(s.rel, s.fn)
		key := s.rel + "." + s.fn
		if fd == nil {
			R.lost(rule, key)
			continue
		}
		pairs := map[string]string{}
		parseFloat := false
		ast.Inspect(fd.Body, func(n ast.Node) bool {
			call, ok := n.(*ast.CallExpr)
			if !ok {
				return true
			}
			f := calleeFunc(p.TypesInfo, call)
			if f == nil || f.Pkg() == nil {
				return true
			}
			id := f.Pkg().Path() + "." + f.Name()
			if (id == "strings.Replace" || id == "strings.ReplaceAll") && len(call.Args) >= 3 {
				o, n1 := constVal(p.TypesInfo, call.Args[1]), constVal(p.TypesInfo, call.Args[2])
				if o != nil && n1 != nil {
					pairs[constantString(o)] = constantString(n1)
				}
			}
			if id == "strconv.ParseFloat" {
				parseFloat = true
			}
			return true
		})
		ok := pairs["*^"] == "e" && pairs["*10^"] == "e" && parseFloat
		// no returned / produced number comes from integer parsing (not correctly rounded above 2^53, clamps on overflow)
		if f := u.ssaFunc(s.rel, s.fn); f != nil {
			bad := ""
			for _, in := range instrsOf(f) {
				switch x := in.(type) {
				case *ssa.Call:
					if n := u.callName(x); n == "strconv.ParseInt" || n == "strconv.Atoi" || n == "strconv.ParseUint" {
						bad = n + " at " + u.pos(x.Pos())
					}
				case *ssa.Convert:
					if bt, isB := x.X.Type().Underlying().(*types.Basic); isB && bt.Info()&types.IsInteger != 0 && isFloat(x.Type()) {
						bad = "integer to float conversion at " + u.pos(x.Pos())
					}
				}
			}
			R.check(bad == "", rule, key+":no-integer-path", u.pos(fd.Pos()), "the number's value comes from strconv.ParseFloat on every path (no integer parsing / conversion)", "a numeric literal is converted through an integer ("+bad+"): digits beyond 2^53 or the int64 range do not give the correctly rounded double")
		}
		R.check(ok, rule, key, u.pos(fd.Pos()),
			"both exponent markers *^ and *10^ are rewritten to e before strconv.ParseFloat (correct rounding delegated to strconv)",
			fmt.Sprintf("exponent markers are not both rewritten to 'e' before ParseFloat (found rewrites %v, ParseFloat=%v)", pairs, parseFloat))
	}
	R.min(rule, 2)
	// NewNumberFromString rewrites *^ to "" - only a note while it has no caller
	if fd, p := u.funcDecl("pkg/value", "NewNumberFromString"); fd != nil {
		obj := p.TypesInfo.Defs[fd.Name]
		used := false
		for _, q := range u.Pkgs {
			for id, o := range q.TypesInfo.Uses {
				_ = id
				if o == obj {
					used = true
				}
			}
		}
		if used {
			R.viol(rule, "pkg/value.NewNumberFromString", u.pos(fd.Pos()), "rewrites *^ to the empty string (1*^3 would read as 13) and is now referenced by non-test code")
		} else {
			R.note("pkg/value.NewNumberFromString rewrites *^ to \"\" but has no caller in non-test code (dead); not a finding")
		}
	}
}

// ---------- keyword trie

type kwRef struct {
	Text string `json:"text"`
	Type string `json:"type"`
}

func checkKeywordTrie(c *Ctx, u *Universe) {
	R := c.R
	var ref []kwRef
	if !loadTable(c, "keywords.json", &ref) {
		return
	}
	fd, p := u.funcDecl("pkg/syntax/zh", "parseKeyword")
	if fd == nil {
		R.lost("C04.trie", "pkg/syntax/zh.parseKeyword")
		return
	}
	info := p.TypesInfo
	typeConsts := constsWithPrefix(p, "Type")
	typeNames := map[int64][]string{}
	for n, v := range typeConsts {
		typeNames[v] = append(typeNames[v], n)
	}
	// roles, not names: the "consume the keyword" switch is the boolean parameter; the word length is the local
	// integer that is only ever assigned integer literals
	var moveObj, wordLenObj types.Object
	for _, f := range fd.Type.Params.List {
		for _, nm := range f.Names {
			if b, ok := info.TypeOf(f.Type).Underlying().(*types.Basic); ok && b.Kind() == types.Bool {
				moveObj = info.Defs[nm]
			}
		}
	}
	{
		lit := map[types.Object]int{}
		other := map[types.Object]bool{}
		var order []types.Object
		note := func(l ast.Expr, r ast.Expr) {
			o := identObj(info, l)
			v, ok := o.(*types.Var)
			if !ok || v.IsField() {
				return
			}
			if b, ok := v.Type().Underlying().(*types.Basic); !ok || b.Info()&types.IsInteger == 0 {
				return
			}
			if _, isLit := ast.Unparen(r).(*ast.BasicLit); isLit {
				if lit[o] == 0 {
					order = append(order, o)
				}
				lit[o]++
			} else {
				other[o] = true
			}
		}
		ast.Inspect(fd, func(n ast.Node) bool {
			switch x := n.(type) {
			case *ast.AssignStmt:
				if len(x.Lhs) == len(x.Rhs) {
					for i := range x.Lhs {
						note(x.Lhs[i], x.Rhs[i])
					}
				}
			case *ast.ValueSpec:
				for i, nm := range x.Names {
					if i < len(x.Values) {
						note(nm, x.Values[i])
					}
				}
			case *ast.IncDecStmt:
				if o := identObj(info, x.X); o != nil {
					other[o] = true
				}
			}
			return true
		})
		for _, o := range order {
			if !other[o] && lit[o] >= 3 && wordLenObj == nil {
				wordLenObj = o
			}
		}
	}
	if wordLenObj == nil || moveObj == nil {
		R.undecided("C04.trie", "pkg/syntax/zh.parseKeyword", u.pos(fd.Pos()), "word-length variable / consume parameter not identifiable")
		return
	}
	var runFrom func(text []rune, symFrom int) ([]Outcome, *PE)
	run := func(text []rune, symbolic bool) ([]Outcome, *PE) {
		if symbolic {
			return runFrom(text, 1)
		}
		return runFrom(text, -1)
	}
	// positions >= symFrom are symbolic (symFrom < 0: everything concrete, 0 beyond the text)
	runFrom = func(text []rune, symFrom int) ([]Outcome, *PE) {
		pe := newPE(u, info, fd)
		pe.oracle = func(pe *PE, st *peState, call *ast.CallExpr, id string) (Val, bool) {
			at := func(i int) Val {
				if symFrom < 0 {
					if i < len(text) {
						return intVal(int64(text[i]))
					}
					return intVal(0)
				}
				if i < symFrom && i < len(text) {
					return intVal(int64(text[i]))
				}
				return Val{K: vSym, Sym: fmt.Sprintf("p%d", i)}
			}
			switch id {
			case "pkg/syntax.Lexer.GetCurrentChar":
				return at(0), true
			case "pkg/syntax.Lexer.Peek":
				return at(1), true
			case "pkg/syntax.Lexer.Peek2":
				return at(2), true
			case "pkg/syntax.Lexer.Peek3":
				return at(3), true
			}
			return Val{}, false
		}
		st := newState()
		st.env[moveObj] = boolVal(true)
		return pe.exec(st, fd.Body.List), pe
	}
	result := func(o Outcome) (match bool, typ int64, wl int64, nexts int, ok bool) {
		if o.Kind != "return" || len(o.RetV) < 1 || o.RetV[0].K != vBool {
			return false, 0, 0, 0, false
		}
		for _, e := range o.St.effects {
			if e == "pkg/syntax.Lexer.Next" {
				nexts++
			}
		}
		if !o.RetV[0].B {
			return false, 0, 0, nexts, true
		}
		// the token's type: field Type of the returned token variable (or of a returned literal)
		var t Val
		if len(o.Ret) >= 2 {
			switch rx := ast.Unparen(o.Ret[1]).(type) {
			case *ast.Ident:
				t = o.St.sel[rx.Name+".Type"]
			case *ast.CompositeLit:
				for _, el := range rx.Elts {
					if kv, ok := el.(*ast.KeyValueExpr); ok {
						if id, ok := kv.Key.(*ast.Ident); ok && astFieldName(info, id) == "Type" {
							t = Val{K: vInt}
							if v, ok := constInt(info, kv.Value); ok {
								t.I = v
							}
						}
					}
				}
			}
		}
		w := o.St.env[wordLenObj]
		if t.K != vInt || w.K != vInt {
			return true, 0, 0, nexts, false
		}
		return true, t.I, w.I, nexts, true
	}
	// (a) every documented keyword is recognised, with its token type, full length, greedily
	refSet := map[string]string{}
	for _, k := range ref {
		refSet[k.Text] = k.Type
		want, okc := typeConsts[k.Type]
		key := "keyword " + k.Text
		if !okc {
			R.viol("C04.trie", key, u.pos(fd.Pos()), "token constant "+k.Type+" does not exist")
			continue
		}
		text := append([]rune(k.Text), 'x', 'x', 'x', 'x')
		outs, pe := run(text, false)
		if pe.failed != "" || len(outs) != 1 {
			R.undecided("C04.trie", key, u.pos(fd.Pos()), fmt.Sprintf("not extractable: %s (%d outcomes)", pe.failed, len(outs)))
			continue
		}
		m, t, wl, nx, ok := result(outs[0])
		n := int64(len([]rune(k.Text)))
		good := ok && m && t == want && wl == n && int64(nx) == n
		R.check(good, "C04.trie", key, u.pos(fd.Pos()),
			fmt.Sprintf("recognised as %s, length %d, cursor advanced %d", k.Type, wl, nx),
			fmt.Sprintf("keyword %s is not recognised as documented (match=%v type=%v want %s=%d, wordLen=%d, cursor advance=%d, want %d)", k.Text, m, typeNames[t], k.Type, want, wl, nx, n))
	}
	R.min("C04.trie", len(ref))
	// (b) nothing else is a keyword: enumerate the trie symbolically from every glyph constant
	glyphs := constsWithPrefix(p, "Glyph")
	extra := 0
	for _, gname := range sortedKeys(glyphs) {
		g := rune(glyphs[gname])
		outs, pe := run([]rune{g}, true)
		if pe.failed != "" {
			R.undecided("C04.trie", "glyph "+gname, u.pos(fd.Pos()), pe.failed)
			continue
		}
		for _, o := range outs {
			m, t, wl, _, ok := result(o)
			if !ok {
				R.undecided("C04.trie", "glyph "+gname, u.pos(fd.Pos()), "result not constant on a path")
				continue
			}
			if !m {
				continue
			}
			seq := []rune{g}
			complete := true
			for i := int64(1); i < wl; i++ {
				cs := o.St.cons[fmt.Sprintf("p%d", i)]
				if cs == nil || cs.eq == nil {
					complete = false
					break
				}
				seq = append(seq, rune(*cs.eq))
			}
			word := string(seq)
			wantType, known := refSet[word]
			if !complete || !known || typeConsts[wantType] != t {
				extra++
				R.viol("C04.trie", "extra:"+gname+":"+word, u.pos(fd.Pos()),
					fmt.Sprintf("the lexer cuts %q (token %v, length %d) out of text as a keyword, which the manual's keyword table does not list", word, typeNames[t], wl))
			}
		}
	}
	// (c) a keyword is recognised whatever follows it (greedy cut, context-free): with the following characters
	// symbolic every path yields the keyword itself or a longer documented keyword that extends it
	for _, k := range ref {
		kr := []rune(k.Text)
		outs, pe := runFrom(kr, len(kr))
		key := "keyword " + k.Text + ":any-context"
		if pe.failed != "" {
			R.undecided("C04.trie", key, u.pos(fd.Pos()), pe.failed)
			continue
		}
		bad := ""
		for _, o := range outs {
			m, t, wl, _, ok := result(o)
			if !ok {
				bad = "result not constant on a path"
				break
			}
			if !m {
				bad = "not recognised when followed by " + joinAssumed(o.St) + constraintText(o.St)
				break
			}
			seq := append([]rune{}, kr...)
			complete := true
			for i := int64(len(kr)); i < wl; i++ {
				cs := o.St.cons[fmt.Sprintf("p%d", i)]
				if cs == nil || cs.eq == nil {
					complete = false
					break
				}
				seq = append(seq, rune(*cs.eq))
			}
			wantType, known := refSet[string(seq)]
			if wl < int64(len(kr)) || !complete || !known || typeConsts[wantType] != t {
				bad = fmt.Sprintf("yields token %v of length %d when followed by%s", typeNames[t], wl, constraintText(o.St))
				break
			}
		}
		R.check(bad == "", "C04.trie", key, u.pos(fd.Pos()), "recognised (or extended to a longer keyword) whatever characters follow", "keyword "+k.Text+" is "+bad)
	}
	// a non-glyph character is never a keyword
	outs, pe := run([]rune{'x'}, true)
	okOther := pe.failed == ""
	for _, o := range outs {
		if m, _, _, _, ok := result(o); !ok || m {
			okOther = false
		}
	}
	R.check(okOther, "C04.trie", "non-glyph", u.pos(fd.Pos()), "a character that starts no keyword is never cut out as one", "a non-keyword character is reported as keyword")
	R.count("glyphs", len(glyphs))
	R.Extra["keywords_reference"] = len(ref)
	_ = extra
}

// ---------- NextToken dispatch order

func checkDispatchOrder(c *Ctx, u *Universe) {
	R := c.R
	f := u.ssaFunc("pkg/syntax/zh", "NextToken")
	if f == nil {
		R.lost("C04.order", "pkg/syntax/zh.NextToken")
		return
	}
	// stage instructions in documented order
	stage := func(names ...string) []ssa.Instruction {
		var out []ssa.Instruction
		for _, ci := range u.callsNamed(f, names...) {
			out = append(out, ci)
		}
		return out
	}
	// guards: ContainsRune(ch, markPunctuations) / ContainsRune(ch, markOperators)
	guard := func(global string) []ssa.Instruction {
		var out []ssa.Instruction
		for _, ci := range u.callsNamed(f, "pkg/syntax.ContainsRune") {
			args := ci.Common().Args
			if len(args) == 2 {
				if un, ok := args[1].(*ssa.UnOp); ok {
					if g, ok := un.X.(*ssa.Global); ok && g.Name() == global {
						out = append(out, ci)
					}
				}
			}
		}
		return out
	}
	stages := []struct {
		name string
		ins  []ssa.Instruction
	}{
		{"comment(parseComment)", stage("pkg/syntax/zh.parseComment")},
		{"string(parseString)", stage("pkg/syntax/zh.parseString")},
		{"backtick-identifier(parseVarQuote)", stage("pkg/syntax/zh.parseVarQuote")},
		{"punctuation(guard markPunctuations)", guard("markPunctuations")},
		{"operator(guard markOperators)", guard("markOperators")},
		{"keyword(parseKeyword)", stage("pkg/syntax/zh.parseKeyword")},
		{"identifier(parseIdentifier)", stage("pkg/syntax/zh.parseIdentifier")},
	}
	for _, s := range stages {
		if len(s.ins) != 1 {
			R.viol("C04.order", "stage "+s.name, u.pos(f.Pos()), fmt.Sprintf("expected exactly one dispatch site, found %d", len(s.ins)))
			return
		}
	}
	pos := u.pos(f.Pos())
	// no later stage can run before an earlier one: no path from later to earlier
	for i := 0; i < len(stages); i++ {
		for j := i + 1; j < len(stages); j++ {
			a, b := stages[i].ins[0], stages[j].ins[0]
			w := reachableAvoiding(b.Block(), instrIndex(b)+1, func(in ssa.Instruction) bool { return in == a }, nil)
			R.check(w == nil, "C04.order", stages[i].name+" < "+stages[j].name, pos,
				"later stage cannot precede the earlier one", "a path runs the later stage before the earlier one")
		}
	}
	// from punctuation on, each stage's decision dominates all later stages (they are reached only through its not-matched edge)
	for i := 3; i < len(stages)-1; i++ {
		for j := i + 1; j < len(stages); j++ {
			R.check(dominatesInstr(stages[i].ins[0], stages[j].ins[0]), "C04.order", stages[i].name+" dominates "+stages[j].name, pos,
				"later stage is reachable only after the earlier decision", "later stage is reachable without the earlier decision")
		}
	}
	// the three switch-dispatched stages sit before the punctuation guard on every path that runs them
	for i := 0; i < 3; i++ {
		a, b := stages[i].ins[0], stages[3].ins[0]
		R.check(!dominatesInstr(b, a), "C04.order", stages[i].name+" not after punctuation", pos, "ok", "stage moved after the punctuation test")
	}
}

// ---------- operators

type opRef struct {
	Char   string `json:"char"`
	Next   string `json:"next"` // "" = any, "=" = followed by '='
	Type   string `json:"type"`
	Length int    `json:"length"`
}

func checkOperators(c *Ctx, u *Universe) {
	R := c.R
	var ref struct {
		Fixed      []opRef  `json:"fixed"`
		Contextual []opRef  `json:"contextual"` // + - * / need a following space/punctuation/quote
		Ctx        []string `json:"context_tests"`
	}
	if !loadTable(c, "operators.json", &ref) {
		return
	}
	fd, p := u.funcDecl("pkg/syntax/zh", "parseOperators")
	if fd == nil {
		R.lost("C04.op", "pkg/syntax/zh.parseOperators")
		return
	}
	info := p.TypesInfo
	typeConsts := constsWithPrefix(p, "Type")
	run := func(ch rune) ([]Outcome, *PE) {
		pe := newPE(u, info, fd)
		pe.oracle = func(pe *PE, st *peState, call *ast.CallExpr, id string) (Val, bool) {
			switch id {
			case "pkg/syntax.Lexer.GetCurrentChar":
				return intVal(int64(ch)), true
			case "pkg/syntax.Lexer.Peek":
				return Val{K: vSym, Sym: "p1"}, true
			}
			return Val{}, false
		}
		return pe.exec(newState(), fd.Body.List), pe
	}
	// token type of a `return true, syntax.Token{Type: X …}` or via tokenType variable
	tokType := func(pe *PE, o Outcome) (int64, bool) {
		if len(o.Ret) < 2 {
			return 0, false
		}
		cl, ok := ast.Unparen(o.Ret[1]).(*ast.CompositeLit)
		if !ok {
			return 0, false
		}
		for _, el := range cl.Elts {
			if kv, ok := el.(*ast.KeyValueExpr); ok {
				if id, ok := kv.Key.(*ast.Ident); ok && astFieldName(info, id) == "Type" {
					v := pe.eval(o.St, kv.Value)
					return v.I, v.K == vInt
				}
			}
		}
		return 0, false
	}
	nexts := func(o Outcome) int {
		n := 0
		for _, e := range o.St.effects {
			if e == "pkg/syntax.Lexer.Next" {
				n++
			}
		}
		return n
	}
	pos := u.pos(fd.Pos())
	for _, r := range ref.Fixed {
		ch := []rune(r.Char)[0]
		key := "op " + r.Char + r.Next
		outs, pe := run(ch)
		if pe.failed != "" {
			R.undecided("C04.op", key, pos, pe.failed)
			continue
		}
		found := false
		good := true
		for _, o := range outs {
			cs := o.St.cons["p1"]
			eqNext := cs != nil && cs.eq != nil && *cs.eq == '='
			neqNext := cs == nil || cs.eq == nil
			if (r.Next == "=" && !eqNext) || (r.Next == "" && hasEqVariant(ref.Fixed, r.Char) && !neqNext) {
				continue
			}
			found = true
			t, okT := tokType(pe, o)
			if o.Kind != "return" || o.RetV[0].K != vBool || !o.RetV[0].B || !okT || t != typeConsts[r.Type] || nexts(o) != r.Length {
				good = false
			}
		}
		R.check(found && good, "C04.op", key, pos, "token "+r.Type+" of length "+fmt.Sprint(r.Length),
			"operator is not tokenised as documented ("+r.Type+", length "+fmt.Sprint(r.Length)+")")
	}
	for _, r := range ref.Contextual {
		ch := []rune(r.Char)[0]
		key := "op " + r.Char + " (contextual)"
		outs, pe := run(ch)
		if pe.failed != "" {
			R.undecided("C04.op", key, pos, pe.failed)
			continue
		}
		good, sawTrue, sawFalse := true, false, false
		why := ""
		for _, o := range outs {
			if cs := o.St.cons["p1"]; cs != nil && cs.eq != nil && *cs.eq == '=' && r.Char == "/" {
				continue // '/=' handled by the fixed table
			}
			if o.Kind != "return" || o.RetV[0].K != vBool {
				good, why = false, "non-constant result"
				continue
			}
			pos1, allNeg := false, true
			for _, want := range ref.Ctx {
				for _, a := range o.St.assumed {
					if a == want {
						pos1 = true
					}
				}
				neg := false
				for _, a := range o.St.assumed {
					if a == "!("+want+")" {
						neg = true
					}
				}
				if !neg {
					allNeg = false
				}
			}
			if o.RetV[0].B {
				sawTrue = true
				t, okT := tokType(pe, o)
				if !pos1 {
					good, why = false, "operator accepted without the 'followed by space / punctuation / quote' test"
				}
				if !okT || t != typeConsts[r.Type] || nexts(o) != 1 {
					good, why = false, "wrong token type or length"
				}
			} else {
				sawFalse = true
				if !allNeg {
					good, why = false, "rejected although a context test succeeded"
				}
			}
		}
		R.check(good && sawTrue && sawFalse, "C04.op", key, pos,
			r.Type+" only when followed by white space, punctuation or a quote; otherwise part of an identifier",
			"contextual operator rule broken: "+why)
	}
	R.min("C04.op", len(ref.Fixed)+len(ref.Contextual))
}

func hasEqVariant(list []opRef, ch string) bool {
	for _, r := range list {
		if r.Char == ch && r.Next == "=" {
			return true
		}
	}
	return false
}

// ---------- identifier alphabet table + membership function

func checkIDRange(c *Ctx, u *Universe) {
	R := c.R
	p := u.Pkgs["pkg/syntax"]
	obj := u.obj("pkg/syntax", "idRange")
	if obj == nil {
		R.lost("C04.range", "pkg/syntax.idRange")
		return
	}
	pe := newPE(u, p.TypesInfo, nil)
	lit := pe.findListLiteral(obj)
	if lit == nil {
		R.undecided("C04.range", "pkg/syntax.idRange", "", "table literal not found")
		return
	}
	var pairs [][2]int64
	bad := ""
	for _, el := range lit.Elts {
		cl, ok := el.(*ast.CompositeLit)
		if !ok || len(cl.Elts) != 2 {
			bad = "entry that is not a {lo, hi} pair at " + u.pos(el.Pos())
			break
		}
		lo, ok1 := constInt(p.TypesInfo, cl.Elts[0])
		hi, ok2 := constInt(p.TypesInfo, cl.Elts[1])
		if !ok1 || !ok2 {
			bad = "non-constant entry at " + u.pos(el.Pos())
			break
		}
		pairs = append(pairs, [2]int64{lo, hi})
	}
	if bad == "" {
		for i, pr := range pairs {
			if pr[0] > pr[1] {
				bad = fmt.Sprintf("entry %d {%#x,%#x}: lo > hi", i, pr[0], pr[1])
				break
			}
			if pr[0] < 0 || pr[1] > 0xFFFF {
				bad = fmt.Sprintf("entry %d {%#x,%#x}: outside 0..0xFFFF (IdInRange rejects such code points before searching)", i, pr[0], pr[1])
				break
			}
			if i > 0 && pairs[i-1][1] >= pr[0] {
				bad = fmt.Sprintf("entries %d and %d are not strictly increasing / disjoint ({%#x,%#x} then {%#x,%#x}); binary search and linear scan would disagree", i-1, i, pairs[i-1][0], pairs[i-1][1], pr[0], pr[1])
				break
			}
		}
	}
	R.check(bad == "", "C04.range", "pkg/syntax.idRange", u.pos(lit.Pos()),
		fmt.Sprintf("%d ranges: each lo<=hi, strictly increasing, disjoint, within 0..0xFFFF (precondition under which binary search = linear scan)", len(pairs)), bad)
	R.Extra["idrange_pairs"] = len(pairs)

	// membership is decided by the table only: every `return true` of IdInRange is reached only
	// through the false edges of `num < idRange[i][0]` and `num > idRange[i][1]`
	f := u.ssaFunc("pkg/syntax", "IdInRange")
	if f == nil {
		R.lost("C04.range", "pkg/syntax.IdInRange")
		return
	}
	isTableLoad := func(v ssa.Value, col int64) bool {
		un, ok := v.(*ssa.UnOp)
		if !ok || un.Op != token.MUL {
			return false
		}
		ia, ok := un.X.(*ssa.IndexAddr)
		if !ok {
			return false
		}
		cidx, ok := ia.Index.(*ssa.Const)
		if !ok || cidx.Int64() != col {
			return false
		}
		// the row: idRange[i]
		return flowsFrom(ia.X, func(x ssa.Value) bool {
			g, ok := x.(*ssa.Global)
			return ok && g.Name() == "idRange"
		})
	}
	nTrue := 0
	for _, b := range f.Blocks {
		ret, ok := b.Instrs[len(b.Instrs)-1].(*ssa.Return)
		if !ok || len(ret.Results) != 1 {
			continue
		}
		for _, src := range allSources(ret.Results[0]) {
			cst, ok := src.(*ssa.Const)
			if !ok {
				R.viol("C04.range", "pkg/syntax.IdInRange:return", u.pos(ret.Pos()), "returns a non-constant membership value")
				continue
			}
			if cst.Value == nil || !constant.BoolVal(cst.Value) {
				continue
			}
			nTrue++
			loOK, hiOK := false, false
			for _, d := range f.Blocks {
				if len(d.Instrs) == 0 {
					continue
				}
				ifi, ok := d.Instrs[len(d.Instrs)-1].(*ssa.If)
				if !ok {
					continue
				}
				bo, ok := ifi.Cond.(*ssa.BinOp)
				if !ok {
					continue
				}
				falseEdge := edgeDominates(d, d.Succs[1], b)
				if bo.Op == token.LSS && isTableLoad(bo.Y, 0) && falseEdge {
					loOK = true
				}
				if bo.Op == token.GTR && isTableLoad(bo.Y, 1) && falseEdge {
					hiOK = true
				}
			}
			R.check(loOK && hiOK, "C04.range", "pkg/syntax.IdInRange:return-true", u.pos(ret.Pos()),
				"membership is answered true only between a table entry's bounds",
				"a path answers 'identifier character' without comparing against the table entry (membership would differ from the table)")
		}
	}
	if nTrue == 0 {
		R.viol("C04.range", "pkg/syntax.IdInRange:return-true", u.pos(f.Pos()), "no path returns true")
	}
	// the 0..0xFFFF pre-filter
	R.count("idinrange_true_returns", nTrue)
}

// ---------- identifier scanning

func checkIdentifierScan(c *Ctx, u *Universe) {
	R := c.R
	// parseVarQuote never extracts keywords
	if f := u.ssaFunc("pkg/syntax/zh", "parseVarQuote"); f != nil {
		n := len(u.callsNamed(f, "pkg/syntax/zh.parseKeyword"))
		R.check(n == 0, "C04.ident", "pkg/syntax/zh.parseVarQuote", u.pos(f.Pos()), "text between backticks is one identifier: no keyword extraction", "backtick identifier scanning calls parseKeyword")
	} else {
		R.lost("C04.ident", "pkg/syntax/zh.parseVarQuote")
	}
	f := u.ssaFunc("pkg/syntax/zh", "parseIdentifier")
	if f == nil {
		R.lost("C04.ident", "pkg/syntax/zh.parseIdentifier")
		return
	}
	pos := u.pos(f.Pos())
	// the scanning loop: every cycle passes the white-space test, the keyword test (moveForward=false)
	// and the terminator test before a character is appended
	var appendIns []ssa.Instruction
	for _, in := range instrsOf(f) {
		if call, ok := in.(*ssa.Call); ok {
			if b, ok := call.Call.Value.(*ssa.Builtin); ok && b.Name() == "append" && in.Block().Index != 0 {
				// append inside the loop (not the terminateMarkers construction in the entry block)
				if loopBlock(in.Block()) {
					appendIns = append(appendIns, in)
				}
			}
		}
	}
	ws := u.callsNamed(f, "pkg/syntax.IsWhiteSpace")
	kw := u.callsNamed(f, "pkg/syntax/zh.parseKeyword")
	if len(appendIns) != 1 || len(ws) != 1 || len(kw) != 1 {
		R.viol("C04.ident", "pkg/syntax/zh.parseIdentifier", pos, fmt.Sprintf("expected one append / white-space test / keyword test in the scanning loop, found %d/%d/%d", len(appendIns), len(ws), len(kw)))
		return
	}
	ap := appendIns[0]
	R.check(dominatesInstr(ws[0], ap), "C04.ident", "parseIdentifier:whitespace-stop", pos, "white space ends the identifier before the character is taken", "a character can be appended without the white-space test")
	R.check(dominatesInstr(kw[0], ap), "C04.ident", "parseIdentifier:keyword-stop", pos, "a keyword start ends the identifier before the character is taken", "a character can be appended without the keyword test")
	if args := kw[0].Common().Args; len(args) == 2 {
		cst, ok := args[1].(*ssa.Const)
		R.check(ok && cst.Value != nil && !constant.BoolVal(cst.Value), "C04.ident", "parseIdentifier:keyword-peek-only", pos, "keyword test does not move the cursor", "keyword test inside an identifier moves the cursor")
	}
	// terminator test: ContainsRune(ch, terminateMarkers) dominates append
	var term []ssa.Instruction
	for _, ci := range u.callsNamed(f, "pkg/syntax.ContainsRune") {
		if dominatesInstr(ci, ap) {
			term = append(term, ci)
		}
	}
	R.check(len(term) >= 1, "C04.ident", "parseIdentifier:marker-stop", pos, "comment-start and terminator tests precede taking a character", "terminator / comment-start test no longer guards the append")
	R.min("C04.ident", 5)

	// terminator set = reference
	fd, p := u.funcDecl("pkg/syntax/zh", "parseIdentifier")
	var refT struct {
		Terminators []string `json:"identifier_terminators"`
	}
	if fd != nil && loadTable(c, "operators.json", &refT) {
		pe := newPE(u, p.TypesInfo, fd)
		got := map[string]bool{}
		found := false
		{
			// the terminator set is the local built by append([]rune{…}, markPunctuations...) (whatever it is called)
			ast.Inspect(fd.Body, func(n ast.Node) bool {
				as, ok := n.(*ast.AssignStmt)
				if !ok || len(as.Lhs) != 1 || len(as.Rhs) != 1 {
					return true
				}
				call, ok := as.Rhs[0].(*ast.CallExpr)
				if !ok || len(call.Args) < 1 {
					return true
				}
				if bi, isB := p.TypesInfo.Uses[identOf(call.Fun)].(*types.Builtin); !isB || bi.Name() != "append" {
					return true
				}
				if list, ok := pe.constList(call.Args[0]); ok {
					found = true
					for _, v := range list {
						got[constName(p.TypesInfo, call.Args[0], v)] = true
					}
					for _, v := range list {
						got[fmt.Sprintf("%#x", v)] = true
					}
				}
				// appended: markPunctuations...
				if len(call.Args) == 2 {
					if id, ok := call.Args[1].(*ast.Ident); ok && id.Name == "markPunctuations" {
						got["markPunctuations..."] = true
					}
				}
				return true
			})
		}
		missing := []string{}
		for _, t := range refT.Terminators {
			if !got[t] {
				missing = append(missing, t)
			}
		}
		// '/' may occur inside a name, so the scanner must stop before every token that starts with '/': the two
		// comment starts and the /= operator
		slashNext := map[rune]bool{}
		ast.Inspect(fd.Body, func(n ast.Node) bool {
			call, ok := n.(*ast.CallExpr)
			if !ok || len(call.Args) != 2 {
				return true
			}
			f := calleeFunc(p.TypesInfo, call)
			if f == nil || f.Name() != "ContainsRune" {
				return true
			}
			if inner, ok := ast.Unparen(call.Args[0]).(*ast.CallExpr); ok && funcID(calleeFunc(p.TypesInfo, inner)) == "pkg/syntax.Lexer.Peek" {
				if list, ok := pe.constList(call.Args[1]); ok {
					for _, v := range list {
						slashNext[rune(v)] = true
					}
				}
			}
			return true
		})
		R.check(slashNext['/'] && slashNext['*'] && slashNext['='], "C04.ident", "parseIdentifier:slash-tokens", pos,
			"a '/' followed by '/', '*' or '=' ends the identifier (comment starts and the /= operator)", "the identifier scanner no longer stops before every token that starts with '/' (//, /*, /=): the '/' is swallowed by the name and e.g. 甲/=10 is not tokenised as documented")
		R.check(found && len(missing) == 0, "C04.ident", "parseIdentifier:terminator-set", pos,
			"terminator set contains EOF, CR, LF, & @ # = < > | and all punctuation", "terminator set misses "+strings.Join(missing, " "))
	}
}

func identOf(e ast.Expr) *ast.Ident {
	id, _ := ast.Unparen(e).(*ast.Ident)
	return id
}

func constName(info *types.Info, e ast.Expr, v int64) string { return fmt.Sprintf("%#x", v) }

// loopBlock: block lies on a CFG cycle
func loopBlock(b *ssa.BasicBlock) bool {
	seen := map[*ssa.BasicBlock]bool{}
	stack := append([]*ssa.BasicBlock{}, b.Succs...)
	for len(stack) > 0 {
		x := stack[len(stack)-1]
		stack = stack[:len(stack)-1]
		if x == b {
			return true
		}
		if seen[x] {
			continue
		}
		seen[x] = true
		stack = append(stack, x.Succs...)
	}
	return false
}

func checkC04(c *Ctx) {
	R := c.R
	defer func() {
		ruleKeyIdentClassified(c, c.Core())
		c.Core().buildSSA()
		ruleNumberViaParseFloat(c, c.Core(), "C04.numparse")
	}()
	R.Explain = "Decided: (C04.dfa) the numeric-literal recogniser's transition table is extracted from tryParseNumber's switch skeleton by constant propagation and proved " +
		"equivalent, on ALL strings (exhaustive product-automaton search), to the documented form [+-]?D+(.D+)?((e|E)[+-]D+|*(10)?^[+-]?D+)? with the NAME/ERROR split; " +
		"(C04.num2float) both exponent spellings are rewritten to e before strconv.ParseFloat in every conversion site; (C04.trie) every keyword of the manual's table is cut out " +
		"greedily with its token type and full length and nothing else is a keyword (decision tree of parseKeyword enumerated over all glyph constants); (C04.order) NextToken's " +
		"dispatch order comment>string>backtick>punctuation>operator>keyword>identifier (reachability + dominance on SSA); (C04.op) operator table incl. the contextual rule for + - * /; " +
		"(C04.ident) identifier scanning stops on white space / keyword start / terminators and backtick identifiers do no keyword extraction; (C04.range) idRange is sorted, disjoint, within 0..0xFFFF " +
		"and IdInRange answers true only between a table entry's bounds. Also: every keyword is recognised whatever characters follow it (look-ahead positions symbolic; only a longer documented keyword may take over), and numeric literals never pass through integer parsing. NOT decided: correct rounding of the double (delegated to strconv.ParseFloat), token positions, termination of the binary search (C05)."
	R.Assumptions = []string{
		"strconv.ParseFloat rounds correctly",
		"reference tables /verif/tables/keywords.json and operators.json transcribe manual ch.1/ch.5 (reviewed by hand)",
		"Lexer.Peek/Peek2/Peek3/GetCurrentChar return the characters at cursor+1/+2/+3/+0",
	}
	u := c.Core()
	checkNumberDFA(c, u)
	checkNum2Float(c, u, "C04.num2float")
	checkKeywordTrie(c, u)
	checkDispatchOrder(c, u)
	checkOperators(c, u)
	checkIdentifierScan(c, u)
	checkIDRange(c, u)
	R.Exhaustive = true
}

// constraintText renders what a path assumed about the symbolic look-ahead characters
func constraintText(st *peState) string {
	var parts []string
	for _, k := range sortedConsKeys(st.cons) {
		c := st.cons[k]
		if c.eq != nil {
			parts = append(parts, fmt.Sprintf(" %s=%q", k, rune(*c.eq)))
		}
	}
	return strings.Join(parts, "")
}

func sortedConsKeys(m map[string]*symCons) []string {
	var ks []string
	for k := range m {
		ks = append(ks, k)
	}
	sort.Strings(ks)
	return ks
}
