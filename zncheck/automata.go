package main

import (
	"fmt"
	"sort"
	"strings"
)

// A tiny regex → DFA compiler over a symbolic alphabet (each symbol is one rune of the pattern
// text). Supported: concatenation, |, ?, +, *, ( ), and named classes given by the caller
// (an upper-case letter expands to an alternation of symbols).

type nfa struct {
	trans []map[rune][]int
	eps   [][]int
}

func (n *nfa) newState() int {
	n.trans = append(n.trans, map[rune][]int{})
	n.eps = append(n.eps, nil)
	return len(n.trans) - 1
}

type frag struct{ start, end int }

type reParser struct {
	s       []rune
	i       int
	n       *nfa
	classes map[rune][]rune
}

func (p *reParser) peek() rune {
	if p.i < len(p.s) {
		return p.s[p.i]
	}
	return 0
}

func (p *reParser) alt() frag {
	f := p.cat()
	for p.peek() == '|' {
		p.i++
		g := p.cat()
		s, e := p.n.newState(), p.n.newState()
		p.n.eps[s] = append(p.n.eps[s], f.start, g.start)
		p.n.eps[f.end] = append(p.n.eps[f.end], e)
		p.n.eps[g.end] = append(p.n.eps[g.end], e)
		f = frag{s, e}
	}
	return f
}

func (p *reParser) cat() frag {
	s := p.n.newState()
	f := frag{s, s}
	for p.peek() != 0 && p.peek() != '|' && p.peek() != ')' {
		g := p.rep()
		p.n.eps[f.end] = append(p.n.eps[f.end], g.start)
		f.end = g.end
	}
	return f
}

func (p *reParser) rep() frag {
	f := p.atom()
	for {
		switch p.peek() {
		case '?':
			p.i++
			s, e := p.n.newState(), p.n.newState()
			p.n.eps[s] = append(p.n.eps[s], f.start, e)
			p.n.eps[f.end] = append(p.n.eps[f.end], e)
			f = frag{s, e}
		case '+':
			p.i++
			e := p.n.newState()
			p.n.eps[f.end] = append(p.n.eps[f.end], f.start, e)
			f = frag{f.start, e}
		case '*':
			p.i++
			s, e := p.n.newState(), p.n.newState()
			p.n.eps[s] = append(p.n.eps[s], f.start, e)
			p.n.eps[f.end] = append(p.n.eps[f.end], f.start, e)
			f = frag{s, e}
		default:
			return f
		}
	}
}

func (p *reParser) atom() frag {
	c := p.peek()
	p.i++
	if c == '(' {
		f := p.alt()
		if p.peek() != ')' {
			panic("regex: missing )")
		}
		p.i++
		return f
	}
	if c == '\\' {
		c = p.peek()
		p.i++
	} else if cls, ok := p.classes[c]; ok {
		s, e := p.n.newState(), p.n.newState()
		for _, r := range cls {
			p.n.trans[s][r] = append(p.n.trans[s][r], e)
		}
		return frag{s, e}
	}
	s, e := p.n.newState(), p.n.newState()
	p.n.trans[s][c] = append(p.n.trans[s][c], e)
	return frag{s, e}
}

// DFA over runes; state 0 is initial; missing transition = dead
type DFA struct {
	Trans  []map[rune]int
	Accept []bool
}

func compileRegex(re string, classes map[rune][]rune, alphabet []rune) *DFA {
	n := &nfa{}
	p := &reParser{s: []rune(re), n: n, classes: classes}
	f := p.alt()
	if p.i != len(p.s) {
		panic("regex: trailing input")
	}
	closure := func(set []int) []int {
		seen := map[int]bool{}
		var stack []int
		for _, s := range set {
			if !seen[s] {
				seen[s] = true
				stack = append(stack, s)
			}
		}
		for len(stack) > 0 {
			s := stack[len(stack)-1]
			stack = stack[:len(stack)-1]
			for _, t := range n.eps[s] {
				if !seen[t] {
					seen[t] = true
					stack = append(stack, t)
				}
			}
		}
		var out []int
		for s := range seen {
			out = append(out, s)
		}
		sort.Ints(out)
		return out
	}
	key := func(set []int) string {
		var sb strings.Builder
		for _, s := range set {
			fmt.Fprintf(&sb, "%d,", s)
		}
		return sb.String()
	}
	d := &DFA{}
	index := map[string]int{}
	var sets [][]int
	add := func(set []int) int {
		k := key(set)
		if i, ok := index[k]; ok {
			return i
		}
		index[k] = len(sets)
		sets = append(sets, set)
		d.Trans = append(d.Trans, map[rune]int{})
		acc := false
		for _, s := range set {
			if s == f.end {
				acc = true
			}
		}
		d.Accept = append(d.Accept, acc)
		return len(sets) - 1
	}
	add(closure([]int{f.start}))
	for i := 0; i < len(sets); i++ {
		for _, a := range alphabet {
			var nxt []int
			for _, s := range sets[i] {
				nxt = append(nxt, n.trans[s][a]...)
			}
			if len(nxt) == 0 {
				continue
			}
			j := add(closure(nxt))
			d.Trans[i][a] = j
		}
	}
	return d
}

// step returns the next state or -1 (dead)
func (d *DFA) step(s int, a rune) int {
	if s < 0 {
		return -1
	}
	if t, ok := d.Trans[s][a]; ok {
		return t
	}
	return -1
}

func (d *DFA) accepts(s int) bool { return s >= 0 && d.Accept[s] }
