package main

import (
	"fmt"
	"go/ast"
	"go/constant"
	"go/token"
	"go/types"
	"sort"
	"strings"

	"golang.org/x/tools/go/ssa"
)

func init() { register("C01", checkC01) }

// precedence ladder of the manual (ch.5), loosest first: level function, operator tokens, operand parser, associative?
var precLadder = []struct {
	fn      string
	tokens  []string
	operand string
	loops   bool
}{
	{"parseExpressionLv1", []string{"TypeLogicOrW"}, "parseExpressionLv2", true},
	{"parseExpressionLv2", []string{"TypeLogicAndW"}, "parseExpressionLv3", true},
	{"parseExpressionLv3", []string{"TypeLogicEqualW", "TypeEqualMark", "TypeLogicNotEqW", "TypeNEMark", "TypeLogicGtW", "TypeGTMark", "TypeLogicGteW", "TypeGTEMark", "TypeLogicLtW", "TypeLTMark", "TypeLogicLteW", "TypeLTEMark", "TypeLogicYesW", "TypeLogicNoW"}, "parseExpressionLv4", false},
	{"parseExpressionLv4", []string{"TypeAssignW", "TypeAssignMark"}, "ParseArithExpr", false},
	{"ParseArithExpr", []string{"TypePlus", "TypeMinus"}, "parseArithMulDivExpr", true},
	{"parseArithMulDivExpr", []string{"TypeMultiply", "TypeDivision", "TypeIntDivMark", "TypeModuloMark"}, "ParseMemberExpr", true},
}

// token -> operator constant (manual ch.5 + tokens.go/keyword.go comments)
var logicRef = map[string]string{
	"TypeLogicEqualW": "LogicEQ", "TypeEqualMark": "LogicEQ", "TypeLogicNotEqW": "LogicNEQ", "TypeNEMark": "LogicNEQ",
	"TypeLogicGtW": "LogicGT", "TypeGTMark": "LogicGT", "TypeLogicGteW": "LogicGTE", "TypeGTEMark": "LogicGTE",
	"TypeLogicLtW": "LogicLT", "TypeLTMark": "LogicLT", "TypeLogicLteW": "LogicLTE", "TypeLTEMark": "LogicLTE",
	"TypeLogicYesW": "LogicXEQ", "TypeLogicNoW": "LogicXNEQ",
}
var arithRef = map[string]string{
	"TypePlus": "ArithAdd", "TypeMinus": "ArithSub", "TypeMultiply": "ArithMul", "TypeDivision": "ArithDiv", "TypeIntDivMark": "ArithIntDiv", "TypeModuloMark": "ArithModulo",
}

// comparator dispatch: operator constant -> comparison function, negated?, Go comparison token inside
var cmpRef = map[string]struct {
	fn  string
	neg bool
}{
	"LogicXEQ": {"compareLogicXEQ", false}, "LogicXNEQ": {"compareLogicXEQ", true},
	"LogicEQ": {"compareLogicXEQ", false}, "LogicNEQ": {"compareLogicXEQ", true},
	"LogicGT": {"compareLogicGT", false}, "LogicGTE": {"compareLogicGTE", false},
	"LogicLT": {"compareLogicLT", false}, "LogicLTE": {"compareLogicLTE", false},
}
var cmpTok = map[string]token.Token{"compareLogicGT": token.GTR, "compareLogicGTE": token.GEQ, "compareLogicLT": token.LSS, "compareLogicLTE": token.LEQ}

func checkC01(c *Ctx) {
	R := c.R
	R.Explain = "Decided: (C01.prec) the six precedence levels of the expression parser consume exactly the documented operator tokens, each token at one level only, and parse both operands with the next tighter level " +
		"(或 < 且 < comparisons < 设为/= < + - < * / | % < member); (C01.assoc) the looping levels build left-leaning trees (LeftExpr = accumulated expression, RightExpr = next-tighter parse, then continue with the new node) " +
		"and the comparison level does not loop; (C01.map) token->operator tables (logicTypeMap, the + -, * / | % switches) equal the manual's pairing and are total; (C01.dispatch) evalExpression routes 且/或 to the combiner, % to the modulo " +
		"evaluator, every other operator constant to a case of its evaluator, each comparison constant to the function of the same relation (the Go comparison token inside is checked) with 不为//= negating; " +
		"(C01.zero) every float division in the evaluator and in 除 is dominated by a test of the same divisor against 0 whose true edge returns an error; (C01.floor) | is Floor(a/b) and % is a − Floor(a/b)·b on the two operand values " +
		"(expression DAG match); (C01.short) the truth table of 且/或 extracted from evalLogicCombiner: the right operand is evaluated exactly when the left one does not decide, results equal ∧/∨, non-booleans are errors; " +
		"(C01.types) arithmetic and ordering assert *Number comma-ok with an error otherwise. (C01.literal) a numeric literal's value comes from strconv.ParseFloat on every path (no integer parsing / int-to-float conversion). NOT decided: IEEE results themselves (delegated to Go's float64), literal->double rounding (C04), structural equality of nested values beyond the rules of C11. (C01.eqsize) lists and dictionaries compare equal only behind a test that their sizes are equal (no prefix equals the whole)."
	R.Assumptions = []string{"Go float64 arithmetic is IEEE-754 double", "math.Floor is floor"}
	u := c.Core()
	u.buildSSA()
	// a literal denotes its documented value on every evaluation: literals are never served from a cache of mutable values
	borrowRule(c, "C07", "C07.fresh", "C01.fresh")
	// a number is a value of its own: NewNumber allocates (a shared pre-built number couples every holder, 自增 on one
	// changes the literal 0 everywhere)
	borrowRule(c, "C07", "C07.ctor", "C01.ctor")
	// the value a numeric literal denotes: converted by strconv.ParseFloat only (shared with C04)
	borrowRule(c, "C04", "C04.numparse", "C01.literal")
	R.Explain += " (C01.literal = C04.numparse) numeric literals are converted by strconv.ParseFloat only."
	// the value of a numeric literal (shared with C04): ParseFloat on every path
	checkNum2Float(c, u, "C01.literal")
	p := u.Pkgs["pkg/syntax/zh"]
	info := p.TypesInfo
	typeConsts := constsWithPrefix(p, "Type")
	syn := u.Pkgs["pkg/syntax"]
	logicConsts := constsWithPrefix(syn, "Logic")
	arithConsts := constsWithPrefix(syn, "Arith")

	// ---- C01.prec / C01.assoc
	tokenLevel := map[int64]string{}
	for _, lv := range precLadder {
		fd, _ := u.funcDecl("pkg/syntax/zh", lv.fn)
		if fd == nil {
			R.lost("C01.prec", "pkg/syntax/zh."+lv.fn)
			continue
		}
		pe := newPE(u, info, fd)
		// tokens of the tryConsume call(s)
		got := map[int64]bool{}
		nTry := 0
		operandCalls := map[string]int{}
		hasLoop, hasRecursion := false, false
		var closureNames = map[types.Object]bool{}
		ast.Inspect(fd.Body, func(n ast.Node) bool {
			switch x := n.(type) {
			case *ast.ForStmt, *ast.RangeStmt:
				hasLoop = true
			case *ast.AssignStmt:
				// parseTail = func(...)
				for i, r := range x.Rhs {
					if _, ok := r.(*ast.FuncLit); ok && i < len(x.Lhs) {
						if o := identObj(info, x.Lhs[i]); o != nil {
							closureNames[o] = true
						}
					}
				}
			case *ast.CallExpr:
				f := calleeFunc(info, x)
				if f != nil && funcID(f) == "pkg/syntax/zh.ParserZH.tryConsume" {
					nTry++
					if x.Ellipsis.IsValid() && len(x.Args) == 1 {
						if list, ok := pe.constList(x.Args[0]); ok {
							for _, v := range list {
								got[v] = true
							}
						}
						// validTypes = append(validTypes, TypeAssignMark) under a config flag
						if o := identObj(info, x.Args[0]); o != nil {
							ast.Inspect(fd.Body, func(m ast.Node) bool {
								if as, ok := m.(*ast.AssignStmt); ok && len(as.Lhs) == 1 && identObj(info, as.Lhs[0]) == o {
									if call, ok := as.Rhs[0].(*ast.CallExpr); ok {
										if id, ok := call.Fun.(*ast.Ident); ok && id.Name == "append" {
											for _, a := range call.Args[1:] {
												if v, ok := constInt(info, a); ok {
													got[v] = true
												}
											}
										}
									}
								}
								return true
							})
						}
					} else {
						for _, a := range x.Args {
							if v, ok := constInt(info, a); ok {
								got[v] = true
							}
						}
					}
				}
				if f != nil && f.Pkg() != nil && strings.HasSuffix(f.Pkg().Path(), "pkg/syntax/zh") {
					operandCalls[aliasName(f)]++
				}
				if o := identObj(info, x.Fun); o != nil && closureNames[o] {
					// call of the local tail closure inside itself = iteration
					hasRecursion = true
				}
			}
			return true
		})
		want := map[int64]bool{}
		for _, t := range lv.tokens {
			want[typeConsts[t]] = true
		}
		okTok := len(got) == len(want)
		for v := range want {
			if !got[v] {
				okTok = false
			}
		}
		R.check(okTok && nTry == 1, "C01.prec", lv.fn+":operators", u.pos(fd.Pos()), "consumes exactly "+strings.Join(lv.tokens, " "), fmt.Sprintf("operator set of this precedence level differs from the manual (got %d tokens in %d tryConsume calls, want %d)", len(got), nTry, len(want)))
		for v := range got {
			if other, dup := tokenLevel[v]; dup {
				R.viol("C01.prec", lv.fn+":token-at-two-levels", u.pos(fd.Pos()), fmt.Sprintf("operator token %d is consumed at level %s and at %s", v, other, lv.fn))
			}
			tokenLevel[v] = lv.fn
		}
		// operands parsed by the next tighter level, twice (left and right), and by nothing looser
		looser := false
		for _, other := range precLadder {
			if other.fn == lv.fn {
				break
			}
			if operandCalls[other.fn] > 0 {
				looser = true
			}
		}
		R.check(operandCalls[lv.operand] == 2 && !looser && operandCalls[lv.fn] == 0, "C01.prec", lv.fn+":operands", u.pos(fd.Pos()),
			"both operands are parsed by "+lv.operand, fmt.Sprintf("operands of this level are not both parsed by the next tighter level %s (calls: %v)", lv.operand, operandCalls))
		// associativity
		if lv.loops {
			R.check(hasLoop || hasRecursion, "C01.assoc", lv.fn+":iterates", u.pos(fd.Pos()), "equal-precedence operators are folded repeatedly", "an associative level no longer iterates over equal-precedence operators")
			okLeft := leftLeaning(u, info, fd, lv.operand)
			R.check(okLeft, "C01.assoc", lv.fn+":left-leaning", u.pos(fd.Pos()), "the new node takes the accumulated expression as LeftExpr and the next-tighter parse as RightExpr and becomes the accumulator", "the tree built for equal-precedence operators is not left-leaning")
		} else {
			R.check(!hasLoop && !hasRecursion, "C01.assoc", lv.fn+":non-associative", u.pos(fd.Pos()), "level does not chain", "a non-associative level chains operators")
		}
	}
	R.min("C01.prec", 12)

	// ---- C01.map
	if fd, _ := u.funcDecl("pkg/syntax/zh", "parseExpressionLv3"); fd != nil {
		// the comparison table is the map literal of the function (whatever the variable is called)
		var lit *ast.CompositeLit
		ast.Inspect(fd, func(n ast.Node) bool {
			if cl, ok := n.(*ast.CompositeLit); ok && lit == nil && isMapType(info.TypeOf(cl)) && len(cl.Elts) >= 4 {
				lit = cl
			}
			return true
		})
		got := map[int64]int64{}
		if lit != nil {
			for _, el := range lit.Elts {
				if kv, ok := el.(*ast.KeyValueExpr); ok {
					k, ok1 := constInt(info, kv.Key)
					v, ok2 := constInt(info, kv.Value)
					if ok1 && ok2 {
						got[k] = v
					}
				}
			}
		}
		bad := []string{}
		for tk, lg := range logicRef {
			if v, ok := got[typeConsts[tk]]; !ok || v != logicConsts[lg] {
				bad = append(bad, tk+"->"+lg)
			}
		}
		sort.Strings(bad)
		R.check(len(bad) == 0 && len(got) == len(logicRef), "C01.map", "parseExpressionLv3:logicTypeMap", u.pos(fd.Pos()), "14 comparison tokens map to their relation", "comparison token table differs from the manual: "+strings.Join(bad, " "))
	}
	for _, lvName := range []string{"ParseArithExpr", "parseArithMulDivExpr"} {
		fd, _ := u.funcDecl("pkg/syntax/zh", lvName)
		if fd == nil {
			continue
		}
		// evaluate the node's Type for each token: the closure body is evaluated with tk.Type = token
		var lits []*ast.FuncLit
		ast.Inspect(fd.Body, func(n ast.Node) bool {
			if fl, ok := n.(*ast.FuncLit); ok {
				lits = append(lits, fl)
			}
			return true
		})
		okAll := len(lits) == 1
		badTok := ""
		if okAll {
			for _, lv := range precLadder {
				if lv.fn != lvName {
					continue
				}
				for _, tk := range lv.tokens {
					pe := newPE(u, info, fd)
					pe.oracle = func(pe *PE, st *peState, call *ast.CallExpr, id string) (Val, bool) { return Val{}, false }
					st := newState()
					// the consumed token's type: any read of field Type of a *syntax.Token (whatever the variable is called)
					tkVal := intVal(typeConsts[tk])
					pe.selOracle = func(pe *PE, st *peState, sel *ast.SelectorExpr) (Val, bool) {
						if astFieldName(info, sel.Sel) == "Type" && namedTypeIs(info.TypeOf(sel.X), "pkg/syntax", "Token") {
							return tkVal, true
						}
						return Val{}, false
					}
					// find `match, tk := p.tryConsume(...)` and assume match
					outs := pe.exec(st, lits[0].Body.List)
					found := false
					for _, o := range outs {
						// the path that built a node: look at the composite literal's Type field
						var nodeType Val
						ast.Inspect(lits[0].Body, func(n ast.Node) bool {
							if cl, ok := n.(*ast.CompositeLit); ok {
								for _, el := range cl.Elts {
									if kv, ok := el.(*ast.KeyValueExpr); ok {
										if id, ok := kv.Key.(*ast.Ident); ok && astFieldName(info, id) == "Type" {
											nodeType = pe.eval(o.St, kv.Value)
										}
									}
								}
							}
							return true
						})
						if nodeType.K == vInt && nodeType.I == arithConsts[arithRef[tk]] {
							found = true
						}
					}
					if !found {
						okAll = false
						badTok = tk
					}
				}
			}
		}
		R.check(okAll, "C01.map", lvName+":arith-type", u.pos(fd.Pos()), "operator tokens map to their arithmetic operation", "token "+badTok+" does not build the arithmetic node the manual prescribes")
	}

	// ---- C01.dispatch
	if fd, pp := u.funcDecl("pkg/exec", "evalLogicComparator"); fd != nil {
		einfo := pp.TypesInfo
		seenConst := map[int64]bool{}
		ast.Inspect(fd.Body, func(n ast.Node) bool {
			sw, ok := n.(*ast.SwitchStmt)
			if !ok {
				return true
			}
			for _, cc := range sw.Body.List {
				cl := cc.(*ast.CaseClause)
				for _, ce := range cl.List {
					v, ok := constInt(einfo, ce)
					if !ok {
						continue
					}
					name := ""
					for n2, v2 := range logicConsts {
						if v2 == v {
							name = n2
						}
					}
					ref, known := cmpRef[name]
					if !known {
						continue
					}
					seenConst[v] = true
					calls, neg := []string{}, false
					for _, st := range cl.Body {
						ast.Inspect(st, func(m ast.Node) bool {
							switch y := m.(type) {
							case *ast.CallExpr:
								if f := calleeFunc(einfo, y); f != nil {
									calls = append(calls, aliasName(f))
								}
							case *ast.UnaryExpr:
								if y.Op == token.NOT {
									neg = true
								}
							}
							return true
						})
					}
					ok2 := len(calls) == 1 && calls[0] == ref.fn && neg == ref.neg
					R.check(ok2, "C01.dispatch", "evalLogicComparator:"+name, u.pos(cl.Pos()), fmt.Sprintf("%s -> %s negated=%v", name, ref.fn, ref.neg), fmt.Sprintf("%s is evaluated by %v negated=%v, want %s negated=%v", name, calls, neg, ref.fn, ref.neg))
				}
			}
			return false
		})
		// the same dispatch written as data: a package-level map from the operator constant to {compare function,
		// negate flag}, looked up once; the flag guards one negation of the result
		if len(seenConst) == 0 {
			negUnderFlag := false
			ast.Inspect(fd.Body, func(n ast.Node) bool {
				if is, ok := n.(*ast.IfStmt); ok {
					if _, isSel := ast.Unparen(is.Cond).(*ast.SelectorExpr); isSel && is.Else == nil {
						ast.Inspect(is.Body, func(m ast.Node) bool {
							if ue, ok := m.(*ast.UnaryExpr); ok && ue.Op == token.NOT {
								negUnderFlag = true
							}
							return true
						})
					}
				}
				return true
			})
			ast.Inspect(fd.Body, func(n ast.Node) bool {
				ix, ok := n.(*ast.IndexExpr)
				if !ok {
					return true
				}
				id, ok := ast.Unparen(ix.X).(*ast.Ident)
				if !ok {
					return true
				}
				v, ok := einfo.Uses[id].(*types.Var)
				if !ok || v.Parent() != pp.Types.Scope() {
					return true
				}
				lit := newPE(u, einfo, fd).findListLiteral(v)
				if lit == nil {
					return true
				}
				for _, el := range lit.Elts {
					kv, ok := el.(*ast.KeyValueExpr)
					if !ok {
						continue
					}
					kc, ok := constInt(einfo, kv.Key)
					if !ok {
						continue
					}
					name := ""
					for n2, v2 := range logicConsts {
						if v2 == kc {
							name = n2
						}
					}
					ref, known := cmpRef[name]
					if !known {
						continue
					}
					seenConst[kc] = true
					fn, neg, nFn := "", false, 0
					ast.Inspect(kv.Value, func(m ast.Node) bool {
						if mid, ok := m.(*ast.Ident); ok {
							if f, isF := einfo.Uses[mid].(*types.Func); isF {
								fn = aliasName(f)
								nFn++
							}
							if mid.Name == "true" && einfo.Uses[mid] == types.Universe.Lookup("true") {
								neg = true
							}
						}
						return true
					})
					ok2 := nFn == 1 && fn == ref.fn && neg == ref.neg && negUnderFlag
					R.check(ok2, "C01.dispatch", "evalLogicComparator:"+name, u.pos(kv.Pos()), fmt.Sprintf("%s -> %s negated=%v (table entry)", name, ref.fn, ref.neg), fmt.Sprintf("%s is evaluated by %s negated=%v (table entry; negation applied under the flag: %v), want %s negated=%v", name, fn, neg, negUnderFlag, ref.fn, ref.neg))
				}
				return true
			})
		}
		for name := range cmpRef {
			if !seenConst[logicConsts[name]] {
				R.viol("C01.dispatch", "evalLogicComparator:"+name, u.pos(fd.Pos()), "comparison operator has no case")
			}
		}
	} else {
		R.lost("C01.dispatch", "pkg/exec.evalLogicComparator")
	}
	for fn, tok := range cmpTok {
		f := u.ssaFunc("pkg/exec", fn)
		if f == nil {
			R.lost("C01.dispatch", "pkg/exec."+fn)
			continue
		}
		n, ok := 0, true
		for _, in := range instrsOf(f) {
			if bo, isB := in.(*ssa.BinOp); isB && isFloat(bo.X.Type()) {
				n++
				if bo.Op != tok {
					ok = false
				}
				// left operand of the relation is the left value
				if !(fromParam(bo.X, f.Params[0]) && fromParam(bo.Y, f.Params[1])) {
					ok = false
				}
			}
		}
		R.check(ok && n == 1, "C01.dispatch", "pkg/exec."+fn+":relation", u.pos(f.Pos()), "compares left "+tok.String()+" right on float64", "the comparison function does not compute left "+tok.String()+" right")
	}
	// evalExpression routing
	if f := u.ssaFunc("pkg/exec", "evalExpression"); f != nil {
		route := func(callee string, field string, consts []int64, onTrue bool) bool {
			for _, cs := range u.callsNamed(f, callee) {
				for _, b := range f.Blocks {
					ifi, ok := b.Instrs[len(b.Instrs)-1].(*ssa.If)
					if !ok {
						continue
					}
					bo, ok := ifi.Cond.(*ssa.BinOp)
					if !ok || bo.Op != token.EQL {
						continue
					}
					if _, isT := fieldLoad(bo.X, field); !isT {
						continue
					}
					k, ok := bo.Y.(*ssa.Const)
					if !ok {
						continue
					}
					for _, want := range consts {
						if k.Int64() == want && onTrue && b.Succs[0].Dominates(cs.Block()) {
							return true
						}
					}
				}
			}
			return false
		}
		okC := route("pkg/exec.evalLogicCombiner", "Type", []int64{logicConsts["LogicAND"], logicConsts["LogicOR"]}, true)
		okM := route("pkg/exec.evalArithTypeModuloExpr", "Type", []int64{arithConsts["ArithModulo"]}, true)
		R.check(okC && len(u.callsNamed(f, "pkg/exec.evalLogicComparator")) == 1, "C01.dispatch", "evalExpression:logic", u.pos(f.Pos()), "且/或 go to the combiner, other logic operators to the comparator", "logic operators are not routed as documented")
		R.check(okM && len(u.callsNamed(f, "pkg/exec.evalArithExpr")) == 1, "C01.dispatch", "evalExpression:arith", u.pos(f.Pos()), "% goes to the modulo evaluator, other arithmetic to evalArithExpr", "arithmetic operators are not routed as documented")
	}
	// evalArithExpr: each arithmetic constant has a case computing the matching Go operator
	if f := u.ssaFunc("pkg/exec", "evalArithExpr"); f != nil {
		want := map[string]token.Token{"ArithAdd": token.ADD, "ArithSub": token.SUB, "ArithMul": token.MUL, "ArithDiv": token.QUO, "ArithIntDiv": token.QUO}
		for name, tok := range want {
			ok := false
			for _, b := range f.Blocks {
				ifi, isIf := b.Instrs[len(b.Instrs)-1].(*ssa.If)
				if !isIf {
					continue
				}
				bo, isB := ifi.Cond.(*ssa.BinOp)
				if !isB || bo.Op != token.EQL {
					continue
				}
				k, isK := bo.Y.(*ssa.Const)
				if !isK || k.Int64() != arithConsts[name] {
					continue
				}
				if _, isT := fieldLoad(bo.X, "Type"); !isT {
					continue
				}
				// in the region dominated by the true edge: one float BinOp of the wanted kind on (left, right)
				for _, in := range instrsOf(f) {
					ab, isAB := in.(*ssa.BinOp)
					if !isAB || !isFloat(ab.Type()) || !b.Succs[0].Dominates(ab.Block()) {
						continue
					}
					if ab.Op == tok && isNumberValueOf(u, ab.X, "LeftExpr", f) && isNumberValueOf(u, ab.Y, "RightExpr", f) {
						ok = true
					}
				}
			}
			R.check(ok, "C01.dispatch", "evalArithExpr:"+name, u.pos(f.Pos()), name+" computes left "+tok.String()+" right", name+" does not compute left "+tok.String()+" right on the two operand values")
		}
	}

	// ---- C01.zero
	nDiv := 0
	for _, rel := range []string{"pkg/exec", "pkg/value"} {
		for _, f := range u.srcFuncs(rel) {
			for _, in := range instrsOf(f) {
				bo, ok := in.(*ssa.BinOp)
				if !ok || bo.Op != token.QUO || !isFloat(bo.Type()) {
					continue
				}
				if _, isConst := bo.Y.(*ssa.Const); isConst {
					continue
				}
				nDiv++
				key := fmt.Sprintf("%s:div#%d", u.fname(f), nDiv)
				key = u.fname(f) + ":" + divName(f, bo)
				guarded := false
				for _, b := range f.Blocks {
					ifi, isIf := b.Instrs[len(b.Instrs)-1].(*ssa.If)
					if !isIf {
						continue
					}
					cmp, isB := ifi.Cond.(*ssa.BinOp)
					if !isB || (cmp.Op != token.EQL && cmp.Op != token.NEQ) {
						continue
					}
					var other ssa.Value
					if isZeroConst(cmp.Y) {
						other = cmp.X
					} else if isZeroConst(cmp.X) {
						other = cmp.Y
					} else {
						continue
					}
					if !sameNumberValue(u, other, bo.Y) {
						continue
					}
					zeroEdge, nonZero := b.Succs[0], b.Succs[1]
					if cmp.Op == token.NEQ {
						zeroEdge, nonZero = b.Succs[1], b.Succs[0]
					}
					if !(edgeDominates(b, nonZero, bo.Block()) || (b.Dominates(bo.Block()) && !zeroEdge.Dominates(bo.Block()) && reachableAvoiding(zeroEdge, 0, func(x ssa.Instruction) bool { return x == ssa.Instruction(bo) }, nil) == nil)) {
						continue
					}
					// zero edge returns an error
					okErr := true
					for _, rr := range returnsReachable(zeroEdge, 0, nil) {
						if zeroEdge.Dominates(rr.Ret.Block()) {
							if ev := errorOperand(rr.Ret); ev == nil || isNilConst(ev) {
								okErr = false
							}
						}
					}
					if okErr {
						guarded = true
					}
				}
				R.check(guarded, "C01.zero", key, u.pos(bo.Pos()), "division is reachable only when the divisor was tested non-zero; a zero divisor is an error", "a float division is not guarded by a zero test of its divisor (division by zero would yield ±Inf/NaN instead of an error)")
			}
		}
	}
	R.min("C01.zero", 4)

	// ---- C01.floor
	if f := u.ssaFunc("pkg/exec", "evalArithExpr"); f != nil {
		ok := false
		for _, fl := range u.callsNamed(f, "math.Floor") {
			if q, isQ := fl.Common().Args[0].(*ssa.BinOp); isQ && q.Op == token.QUO && isNumberValueOf(u, q.X, "LeftExpr", f) && isNumberValueOf(u, q.Y, "RightExpr", f) {
				// result goes to NewNumber, under the ArithIntDiv case
				for _, nn := range u.callsNamed(f, "pkg/value.NewNumber") {
					if nn.Common().Args[0] == fl.Value() {
						ok = true
					}
				}
			}
		}
		R.check(ok, "C01.floor", "evalArithExpr:|", u.pos(f.Pos()), "| yields Floor(left / right)", "floor division is not Floor(left/right)")
	}
	if f := u.ssaFunc("pkg/exec", "evalArithTypeModuloExpr"); f != nil {
		ok := false
		for _, nn := range u.callsNamed(f, "pkg/value.NewNumber") {
			sub, isS := nn.Common().Args[0].(*ssa.BinOp)
			if !isS || sub.Op != token.SUB {
				continue
			}
			mul, isM := sub.Y.(*ssa.BinOp)
			if !isM || mul.Op != token.MUL {
				continue
			}
			a := sub.X
			var fl *ssa.Call
			var b ssa.Value
			if cv, isC := mul.X.(*ssa.Call); isC && u.callName(cv) == "math.Floor" {
				fl, b = cv, mul.Y
			} else if cv, isC := mul.Y.(*ssa.Call); isC && u.callName(cv) == "math.Floor" {
				fl, b = cv, mul.X
			}
			if fl == nil {
				continue
			}
			q, isQ := fl.Call.Args[0].(*ssa.BinOp)
			if !isQ || q.Op != token.QUO {
				continue
			}
			if sameNumberValue(u, q.X, a) && sameNumberValue(u, q.Y, b) && isNumberValueOf(u, a, "LeftExpr", f) && isNumberValueOf(u, b, "RightExpr", f) {
				ok = true
			}
		}
		R.check(ok, "C01.floor", "evalArithTypeModuloExpr:%", u.pos(f.Pos()), "a % b yields a − Floor(a/b)·b", "remainder is not computed as a − Floor(a/b)·b on the two operands")
	}

	// ---- C01.eqsize: structural equality of lists and dictionaries answers "equal" only for operands of the same
	// size: every `return true` that lies behind an element loop is dominated by the equal edge of a comparison of the
	// two sizes (otherwise a proper prefix equals the longer list and equality is asymmetric)
	if f := u.ssaFunc("pkg/exec", "compareLogicXEQ"); f != nil {
		isLen := func(v ssa.Value) bool {
			call, ok := v.(*ssa.Call)
			if !ok {
				return false
			}
			bi, ok := call.Call.Value.(*ssa.Builtin)
			return ok && bi.Name() == "len"
		}
		headers := loopHeaders(f)
		nTrue := 0
		for _, b := range f.Blocks {
			ret, ok := b.Instrs[len(b.Instrs)-1].(*ssa.Return)
			if !ok || len(ret.Results) != 2 {
				continue
			}
			k, isK := retValue(ret, 0).(*ssa.Const)
			if !isK || k.Value == nil || k.Value.Kind() != constant.Bool || !constant.BoolVal(k.Value) {
				continue
			}
			behindLoop := false
			for _, h := range headers {
				if reachableAvoiding(h, 0, func(x ssa.Instruction) bool { return x == ssa.Instruction(ret) }, nil) != nil {
					behindLoop = true
				}
			}
			if !behindLoop {
				continue
			}
			nTrue++
			okSize := false
			for _, d := range f.Blocks {
				ifi, isIf := d.Instrs[len(d.Instrs)-1].(*ssa.If)
				if !isIf {
					continue
				}
				bo, isB := ifi.Cond.(*ssa.BinOp)
				if !isB || !isLen(bo.X) || !isLen(bo.Y) {
					continue
				}
				var eq *ssa.BasicBlock
				switch bo.Op {
				case token.NEQ:
					eq = d.Succs[1]
				case token.EQL:
					eq = d.Succs[0]
				}
				if eq != nil && edgeDominates(d, eq, b) {
					okSize = true
				}
			}
			R.check(okSize, "C01.eqsize", fmt.Sprintf("compareLogicXEQ:equal-after-loop#%d", nTrue), u.pos(ret.Pos()), "collections compare equal only behind a test that their sizes are equal", "a list / dictionary can compare equal to a longer one: the answer 'equal' behind the element loop is not guarded by a comparison of the two sizes (a proper prefix equals the whole; 为 is no longer symmetric)")
		}
		if nTrue < 2 {
			R.viol("C01.eqsize", "compareLogicXEQ:instances", u.pos(f.Pos()), fmt.Sprintf("expected the list and the dictionary comparison loops, found %d", nTrue))
		}
	} else {
		R.lost("C01.eqsize", "pkg/exec.compareLogicXEQ")
	}

	// ---- C01.short : truth table of 且 / 或
	checkLogicCombiner(c, u, logicConsts)

	// ---- C01.types
	for _, fn := range []string{"evalArithExpr", "compareLogicGT", "compareLogicGTE", "compareLogicLT", "compareLogicLTE"} {
		f := u.ssaFunc("pkg/exec", fn)
		if f == nil {
			R.lost("C01.types", "pkg/exec."+fn)
			continue
		}
		n, ok := 0, true
		// the function itself and helpers it hands its operand values (runtime.Element parameters) to
		scope := []*ssa.Function{f}
		for _, in := range instrsOf(f) {
			call, isCall := in.(*ssa.Call)
			if !isCall {
				continue
			}
			h := call.Call.StaticCallee()
			if h == nil || h.Pkg != f.Pkg || h.Blocks == nil || h == f {
				continue
			}
			for _, a := range call.Call.Args {
				if par, isPar := a.(*ssa.Parameter); isPar && isElementIface(par.Type()) {
					scope = append(scope, h)
					break
				}
			}
		}
		for _, g := range scope {
			for _, in := range instrsOf(g) {
				if ta, isTA := in.(*ssa.TypeAssert); isTA && namedTypeIs(ta.AssertedType, "pkg/value", "Number") {
					n++
					if !assertIsTested(ta) {
						ok = false
					}
				}
			}
		}
		R.check(ok && n == 2, "C01.types", "pkg/exec."+fn, u.pos(f.Pos()), "both operands are tested to be numbers; otherwise an error", "operands are not both type-tested (non-number operands would panic or be accepted)")
	}
}

// assertIsTested: a comma-ok assertion whose ok result is actually branched on
func assertIsTested(ta *ssa.TypeAssert) bool {
	if !ta.CommaOk {
		return false
	}
	for _, r := range *ta.Referrers() {
		if ex, ok := r.(*ssa.Extract); ok && ex.Index == 1 {
			for _, rr := range *ex.Referrers() {
				switch rr.(type) {
				case *ssa.If, *ssa.UnOp, *ssa.BinOp, *ssa.Phi:
					return true
				}
			}
		}
	}
	return false
}

func isFloat(t types.Type) bool {
	b, ok := t.Underlying().(*types.Basic)
	return ok && b.Info()&types.IsFloat != 0
}

func isZeroConst(v ssa.Value) bool {
	k, ok := v.(*ssa.Const)
	if !ok || k.Value == nil {
		return false
	}
	return k.Value.String() == "0"
}

func fromParam(v ssa.Value, p *ssa.Parameter) bool {
	return fromParamD(v, p, 2)
}

func fromParamD(v ssa.Value, p *ssa.Parameter, depth int) bool {
	if call, ok := v.(*ssa.Call); ok && len(call.Call.Args) == 1 {
		// getter on a value derived from the parameter (e.g. vl.GetValue())
		if sc := call.Call.StaticCallee(); sc != nil && sc.Name() == "GetValue" {
			return fromParamD(call.Call.Args[0], p, depth)
		}
	}
	// one result of an operand-extraction helper: the result derives from one of the helper's parameters on every
	// successful return, and the corresponding argument derives from p
	if ex, ok := v.(*ssa.Extract); ok && depth > 0 {
		if call, ok := ex.Tuple.(*ssa.Call); ok {
			if h := call.Call.StaticCallee(); h != nil && h.Blocks != nil && h.Pkg == p.Parent().Pkg {
				res := h.Signature.Results()
				errIdx := -1
				if res.Len() > 0 && isErrorType(res.At(res.Len()-1).Type()) {
					errIdx = res.Len() - 1
				}
				which := -1
				okAll, nRet := true, 0
				for _, b := range h.Blocks {
					ret, isRet := b.Instrs[len(b.Instrs)-1].(*ssa.Return)
					if !isRet || (errIdx >= 0 && provablyNonNilError(retValue(ret, errIdx))) {
						continue
					}
					nRet++
					found := -1
					for j, hp := range h.Params {
						if fromParamD(retValue(ret, ex.Index), hp, depth-1) {
							found = j
						}
					}
					if found < 0 || (which >= 0 && which != found) {
						okAll = false
					}
					which = found
				}
				if okAll && nRet > 0 && which >= 0 && which < len(call.Call.Args) {
					return fromParamD(call.Call.Args[which], p, depth-1)
				}
			}
		}
	}
	return flowsFrom(v, func(x ssa.Value) bool { return x == ssa.Value(p) })
}

// sameNumberValue: two SSA values denote the same float64 (identical value, GetValue() of the same
// receiver, or loads of the same field)
func sameNumberValue(u *Universe, a, b ssa.Value) bool {
	if a == b {
		return true
	}
	ca, okA := a.(*ssa.Call)
	cb, okB := b.(*ssa.Call)
	if okA && okB && u.callName(ca) == "pkg/value.Number.GetValue" && u.callName(cb) == "pkg/value.Number.GetValue" {
		return ca.Call.Args[0] == cb.Call.Args[0]
	}
	ba, okA2 := fieldLoad(a, "value")
	bb, okB2 := fieldLoad(b, "value")
	return okA2 && okB2 && ba == bb
}

// isNumberValueOf: v is the float value of the operand evaluated from expr.<field>
func isNumberValueOf(u *Universe, v ssa.Value, field string, f *ssa.Function) bool {
	return flowsFrom(v, func(x ssa.Value) bool {
		call, ok := x.(*ssa.Call)
		if !ok || u.callName(call) != "pkg/exec.evalExpression" {
			return false
		}
		_, isF := fieldLoad(call.Call.Args[1], field)
		return isF
	}) || func() bool {
		// GetValue() of a *Number asserted from the evaluated operand
		call, ok := v.(*ssa.Call)
		if !ok || u.callName(call) != "pkg/value.Number.GetValue" {
			return false
		}
		return flowsFrom(call.Call.Args[0], func(x ssa.Value) bool {
			cv, ok := x.(*ssa.Call)
			if !ok || u.callName(cv) != "pkg/exec.evalExpression" {
				return false
			}
			_, isF := fieldLoad(cv.Call.Args[1], field)
			return isF
		})
	}()
}

func divName(f *ssa.Function, bo *ssa.BinOp) string {
	n := 0
	for _, in := range instrsOf(f) {
		if b, ok := in.(*ssa.BinOp); ok && b.Op == token.QUO && isFloat(b.Type()) {
			n++
			if b == bo {
				return fmt.Sprintf("float-division#%d", n)
			}
		}
	}
	return "float-division"
}

// leftLeaning: in the level's tail closure the composite node has LeftExpr = the closure parameter and
// RightExpr = a value assigned from the operand parser, and the closure continues with that node
func leftLeaning(u *Universe, info *types.Info, fd *ast.FuncDecl, operand string) bool {
	ok := false
	ast.Inspect(fd.Body, func(n ast.Node) bool {
		fl, isFL := n.(*ast.FuncLit)
		if !isFL || len(fl.Type.Params.List) != 1 {
			return true
		}
		param := info.Defs[fl.Type.Params.List[0].Names[0]]
		var rightObj, nodeObj types.Object
		leftOK, rightOK, contOK := false, false, false
		ast.Inspect(fl.Body, func(m ast.Node) bool {
			switch x := m.(type) {
			case *ast.AssignStmt:
				if len(x.Lhs) == 1 && len(x.Rhs) == 1 {
					if call, ok := x.Rhs[0].(*ast.CallExpr); ok {
						if f := calleeFunc(info, call); f != nil && aliasName(f) == operand {
							rightObj = identObj(info, x.Lhs[0])
						}
					}
					if ue, ok := x.Rhs[0].(*ast.UnaryExpr); ok && ue.Op == token.AND {
						if cl, ok := ue.X.(*ast.CompositeLit); ok {
							nodeObj = identObj(info, x.Lhs[0])
							for _, el := range cl.Elts {
								if kv, ok := el.(*ast.KeyValueExpr); ok {
									k := kv.Key.(*ast.Ident).Name
									if k == "LeftExpr" && identObj(info, kv.Value) == param {
										leftOK = true
									}
									if k == "RightExpr" && rightObj != nil && identObj(info, kv.Value) == rightObj {
										rightOK = true
									}
								}
							}
						}
					}
				}
			case *ast.ReturnStmt:
				if len(x.Results) == 1 {
					if call, ok := x.Results[0].(*ast.CallExpr); ok && len(call.Args) == 1 && nodeObj != nil && identObj(info, call.Args[0]) == nodeObj {
						contOK = true
					}
				}
			}
			return true
		})
		if leftOK && rightOK && contOK {
			ok = true
		}
		return true
	})
	return ok
}

func checkLogicCombiner(c *Ctx, u *Universe, logicConsts map[string]int64) {
	R := c.R
	fd, p := u.funcDecl("pkg/exec", "evalLogicCombiner")
	if fd == nil {
		R.lost("C01.short", "pkg/exec.evalLogicCombiner")
		return
	}
	info := p.TypesInfo
	pos := u.pos(fd.Pos())
	for _, op := range []string{"LogicAND", "LogicOR"} {
		for _, L := range []bool{false, true} {
			for _, Rv := range []bool{false, true} {
				key := fmt.Sprintf("%s left=%v right=%v", op, L, Rv)
				pe := newPE(u, info, fd)
				evalCalls := 0
				// the operator is whatever is read from the Type field of the *syntax.LogicExpr
				pe.selOracle = func(pe *PE, st *peState, sel *ast.SelectorExpr) (Val, bool) {
					if astFieldName(info, sel.Sel) == "Type" && namedTypeIs(info.TypeOf(sel.X), "pkg/syntax", "LogicExpr") {
						return intVal(logicConsts[op]), true
					}
					return Val{}, false
				}
				pe.oracle = func(pe *PE, st *peState, call *ast.CallExpr, id string) (Val, bool) {
					switch id {
					case "pkg/value.Bool.GetValue":
						// which operand: follow the receiver back to expr.LeftExpr / expr.RightExpr
						if sel, ok := call.Fun.(*ast.SelectorExpr); ok {
							switch originField(info, fd, sel.X, "LeftExpr", "RightExpr") {
							case "LeftExpr":
								return boolVal(L), true
							case "RightExpr":
								return boolVal(Rv), true
							}
						}
					}
					return Val{}, false
				}
				outs := pe.exec(newState(), fd.Body.List)
				_ = evalCalls
				if pe.failed != "" {
					R.undecided("C01.short", key, pos, pe.failed)
					continue
				}
				// keep the paths that return no error (both operands evaluated to booleans)
				var good []Outcome
				for _, o := range outs {
					if o.Kind == "return" && len(o.RetV) == 2 && o.RetV[1].K == vNil {
						good = append(good, o)
					}
				}
				decided := (op == "LogicAND" && !L) || (op == "LogicOR" && L)
				want := L && Rv
				if op == "LogicOR" {
					want = L || Rv
				}
				okAll := len(good) > 0
				why := ""
				for _, o := range good {
					n := 0
					for _, e := range o.St.effects {
						if e == "pkg/exec.evalExpression" {
							n++
						}
					}
					wantCalls := 2
					if decided {
						wantCalls = 1
					}
					if n != wantCalls {
						okAll = false
						why = fmt.Sprintf("operands evaluated %d times, want %d", n, wantCalls)
					}
					// result: value.NewBool(<expr>) with expr evaluating to want
					if o.Kind != "return" || len(o.Ret) != 2 {
						okAll = false
						continue
					}
					call, isC := ast.Unparen(o.Ret[0]).(*ast.CallExpr)
					if !isC || len(call.Args) != 1 {
						okAll = false
						why = "result is not NewBool(…)"
						continue
					}
					if f := calleeFunc(info, call); f == nil || aliasName(f) != "NewBool" {
						okAll = false
						why = "result is not NewBool(…)"
						continue
					}
					v := pe.eval(o.St, call.Args[0])
					// right operand unknown when not evaluated: only L decides
					if v.K != vBool || v.B != want {
						okAll = false
						why = fmt.Sprintf("yields %v, want %v", v, want)
					}
					if o.RetV[1].K != vNil {
						okAll = false
						why = "returns an error for boolean operands"
					}
				}
				R.check(okAll, "C01.short", key, pos, fmt.Sprintf("yields %v evaluating the right operand %s", want, map[bool]string{true: "never", false: "once"}[decided]), "且/或 truth table differs: "+why)
			}
		}
	}
	// non-boolean operands are errors: both assertions are comma-ok
	if f := u.ssaFunc("pkg/exec", "evalLogicCombiner"); f != nil {
		n, ok := 0, true
		for _, in := range instrsOf(f) {
			if ta, isTA := in.(*ssa.TypeAssert); isTA && namedTypeIs(ta.AssertedType, "pkg/value", "Bool") {
				n++
				if !assertIsTested(ta) {
					ok = false
				}
			}
		}
		R.check(ok && n == 2, "C01.short", "evalLogicCombiner:bool-operands", pos, "non-boolean operands of 且/或 are errors", "operands of 且/或 are not type-tested")
	}
}
