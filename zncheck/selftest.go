package main

import (
	"crypto/sha256"
	"encoding/json"
	"fmt"
	"os"
	"os/exec"
	"path/filepath"
	"sort"
	"strings"
	"sync"
	"time"
)

// selfTest (thorough tier): tests the checker both ways. Every seeded change under /verif/seeded whose
// meta.json names this property (independently written breaking changes, reverse patches of the fix:
// commits, own mutants) is applied to a scratch copy of /repo's working tree outside /repo and /verif,
// this same binary is run on the copy, and the change must be reported. Scratch copies are removed.
// The outcome is recorded in the evidence (coverage.selftest) and printed; a missed mutant is a defect
// of the checker, not a violation of the property, so it does not change the exit code.
type selfTestResult struct {
	Seed    string   `json:"seed"`
	Result  string   `json:"result"` // detected | MISSED | skipped(<why>)
	Failing []string `json:"failing_obligations,omitempty"`
}

func selfTest(c *Ctx) []selfTestResult {
	seedDir := filepath.Join(c.Verif, "seeded")
	ents, err := os.ReadDir(seedDir)
	if err != nil {
		return nil
	}
	var seeds []string
	for _, e := range ents {
		if !e.IsDir() {
			continue
		}
		b, err := os.ReadFile(filepath.Join(seedDir, e.Name(), "meta.json"))
		if err != nil {
			continue
		}
		var m struct {
			Property string `json:"property"`
		}
		if json.Unmarshal(b, &m) == nil && m.Property == c.R.Prop {
			seeds = append(seeds, e.Name())
		}
	}
	sort.Strings(seeds)
	self, err := os.Executable()
	if err != nil {
		return nil
	}
	results := make([]selfTestResult, len(seeds))
	var wg sync.WaitGroup
	sem := make(chan struct{}, 6)
	for i, s := range seeds {
		wg.Add(1)
		go func(i int, s string) {
			defer wg.Done()
			sem <- struct{}{}
			defer func() { <-sem }()
			results[i] = runOneSeed(c, self, seedDir, s)
		}(i, s)
	}
	wg.Wait()
	return results
}

func runOneSeed(c *Ctx, self, seedDir, seed string) selfTestResult {
	res := selfTestResult{Seed: seed}
	tmp, err := os.MkdirTemp("", "zncheck-selftest-")
	if err != nil {
		res.Result = "skipped(no scratch dir)"
		return res
	}
	defer os.RemoveAll(tmp)
	repoCopy := filepath.Join(tmp, "repo")
	verifCopy := filepath.Join(tmp, "verif")
	if out, err := exec.Command("cp", "-r", c.Repo, repoCopy).CombinedOutput(); err != nil {
		res.Result = "skipped(copy failed: " + strings.TrimSpace(string(out)) + ")"
		return res
	}
	os.RemoveAll(filepath.Join(repoCopy, ".git"))
	os.MkdirAll(verifCopy, 0o755)
	exec.Command("cp", "-r", filepath.Join(c.Verif, "tables"), verifCopy).Run()
	exec.Command("cp", filepath.Join(c.Verif, "known_findings.json"), verifCopy).Run()
	ap := exec.Command("git", "apply", "--whitespace=nowarn", filepath.Join(seedDir, seed, "patch.diff"))
	ap.Dir = repoCopy
	if out, err := ap.CombinedOutput(); err != nil {
		res.Result = "skipped(patch does not apply to the current tree: " + oneLine(string(out)) + ")"
		return res
	}
	cmd := exec.Command(self, "-repo", repoCopy, "-verif", verifCopy, "-prop", c.R.Prop, "-tier", "quick")
	cmd.Env = append(os.Environ(), "ZNCHECK_NO_SELFTEST=1")
	out, _ := cmd.CombinedOutput()
	code := cmd.ProcessState.ExitCode()
	if code == 0 {
		res.Result = "MISSED"
		return res
	}
	res.Result = "detected"
	for _, l := range strings.Split(string(out), "\n") {
		if strings.HasPrefix(l, "FAIL ") {
			// FAIL status [rule] construct at …
			if i := strings.Index(l, "["); i >= 0 {
				if j := strings.Index(l, " at "); j > i {
					res.Failing = append(res.Failing, strings.TrimSpace(strings.Replace(l[i:j], strings.ReplaceAll(repoCopy, "\\", "/")+"/", "", -1)))
				}
			}
		}
	}
	if len(res.Failing) > 4 {
		res.Failing = res.Failing[:4]
	}
	return res
}

// selfTestBenign (thorough tier): the other direction. Every behaviour-preserving refactoring kept under
// /verif/refactorings (written by independent sub-agents) and an alpha-renamed copy of the tree (every local
// identifier renamed by selftest/alpharename) is checked with this same binary: the check must stay quiet.
// An alarm there is a defect of the checker; it is printed (SELFTEST-FALSE-ALARM) and recorded in the evidence,
// it does not change the exit code.
func selfTestBenign(c *Ctx) []selfTestResult {
	dir := filepath.Join(c.Verif, "refactorings")
	ents, _ := os.ReadDir(dir)
	var ids []string
	for _, e := range ents {
		if e.IsDir() {
			if _, err := os.Stat(filepath.Join(dir, e.Name(), "patch.diff")); err == nil {
				ids = append(ids, e.Name())
			}
		}
	}
	sort.Strings(ids)
	ids = append(ids, "alpha-rename-all-locals", "alpha-rename-locals-functions-fields", "tail-split-half", "tail-split-third")
	self, err := os.Executable()
	if err != nil {
		return nil
	}
	// the verdicts of all properties on one variant come from one run (-prop all); they are memoised under
	// /verif/.cache keyed by the content of /repo's Go sources, this binary, the tables, the known findings and the
	// variants, so the 20 thorough commands share the work. Any change of any input gives a new key.
	key := benignKey(c, self, dir, ids)
	cacheFile := filepath.Join(c.Verif, ".cache", "benign-"+key+".json")
	all := map[string]map[string]selfTestResult{}
	if b, err := os.ReadFile(cacheFile); err == nil {
		json.Unmarshal(b, &all)
	}
	// variants not yet in the cache are computed now, for at most the self-test's time budget (default 10 minutes per
	// invocation, ZNCHECK_BENIGN_BUDGET_MIN); the cache accumulates, so later thorough runs continue where this one
	// stopped. One computation at a time: a concurrent thorough run of another property waits briefly, then reports
	// what is there.
	missing := func() []string {
		var m []string
		// the whole-tree variants first, then the refactorings
		for _, id := range ids {
			if _, ok := all[id]; !ok && (strings.HasPrefix(id, "alpha-rename-") || strings.HasPrefix(id, "tail-split-")) {
				m = append(m, id)
			}
		}
		for _, id := range ids {
			if _, ok := all[id]; !ok && !(strings.HasPrefix(id, "alpha-rename-") || strings.HasPrefix(id, "tail-split-")) {
				m = append(m, id)
			}
		}
		return m
	}
	budget := 10 * time.Minute
	if v := os.Getenv("ZNCHECK_BENIGN_BUDGET_MIN"); v != "" {
		var n int
		if _, err := fmt.Sscanf(v, "%d", &n); err == nil && n >= 0 {
			budget = time.Duration(n) * time.Minute
		}
	}
	if len(missing()) > 0 && budget > 0 {
		os.MkdirAll(filepath.Dir(cacheFile), 0o755)
		lock := cacheFile + ".lock"
		locked := false
		for i := 0; i < 12 && !locked; i++ {
			lf, err := os.OpenFile(lock, os.O_CREATE|os.O_EXCL|os.O_WRONLY, 0o644)
			if err == nil {
				lf.Close()
				locked = true
				break
			}
			if st, e2 := os.Stat(lock); e2 == nil && time.Since(st.ModTime()) > 45*time.Minute {
				os.Remove(lock) // stale
				continue
			}
			time.Sleep(10 * time.Second)
			if b, err := os.ReadFile(cacheFile); err == nil {
				json.Unmarshal(b, &all)
			}
			if len(missing()) == 0 {
				break
			}
		}
		if locked {
			if b, err := os.ReadFile(cacheFile); err == nil {
				json.Unmarshal(b, &all)
			}
			deadline := time.Now().Add(budget)
			var mu sync.Mutex
			var wg sync.WaitGroup
			sem := make(chan struct{}, 6)
			for _, id := range missing() {
				sem <- struct{}{}
				if time.Now().After(deadline) {
					<-sem
					break
				}
				wg.Add(1)
				go func(id string) {
					defer wg.Done()
					defer func() { <-sem }()
					r := runOneBenign(c, self, dir, id)
					mu.Lock()
					all[id] = r
					mu.Unlock()
				}(id)
			}
			wg.Wait()
			if b, err := json.Marshal(all); err == nil {
				tmp := cacheFile + fmt.Sprintf(".%d", os.Getpid())
				if os.WriteFile(tmp, b, 0o644) == nil {
					os.Rename(tmp, cacheFile)
				}
			}
			os.Remove(lock)
		}
	}
	var results []selfTestResult
	for _, id := range ids {
		r, ok := all[id][c.R.Prop]
		// a refactoring that moves a listed (genuine) finding to a new construct is expected to be reported there
		if ok && r.Result == "ALARM" {
			if b, err := os.ReadFile(filepath.Join(dir, id, "meta.json")); err == nil {
				var m struct {
					Moves []string `json:"moves_known_finding"`
				}
				if json.Unmarshal(b, &m) == nil {
					for _, p := range m.Moves {
						if p == c.R.Prop {
							r.Result = "skipped(the variant moves a listed known finding of this property to a new construct: reported there, as intended)"
						}
					}
				}
			}
		}
		if !ok {
			r = all[id]["*"]
			if r.Seed == "" {
				r = selfTestResult{Seed: id, Result: "skipped(not run yet: time budget of the self-test; the next thorough run continues)"}
			}
		}
		results = append(results, r)
	}
	return results
}

func benignKey(c *Ctx, self, dir string, ids []string) string {
	h := sha256.New()
	add := func(path string) {
		if b, err := os.ReadFile(path); err == nil {
			fmt.Fprintf(h, "%s\x00%d\x00", path, len(b))
			h.Write(b)
		}
	}
	filepath.WalkDir(c.Repo, func(path string, d os.DirEntry, err error) error {
		if err != nil {
			return nil
		}
		if d.IsDir() {
			if d.Name() == ".git" {
				return filepath.SkipDir
			}
			return nil
		}
		if strings.HasSuffix(path, ".go") || strings.HasSuffix(path, "go.mod") || strings.HasSuffix(path, "go.sum") {
			add(path)
		}
		return nil
	})
	add(self)
	add(filepath.Join(c.Verif, "known_findings.json"))
	tabs, _ := filepath.Glob(filepath.Join(c.Verif, "tables", "*.json"))
	sort.Strings(tabs)
	for _, t := range tabs {
		add(t)
	}
	for _, id := range ids {
		add(filepath.Join(dir, id, "patch.diff"))
	}
	add(filepath.Join(c.Verif, "selftest", "alpharename", "main.go"))
	add(filepath.Join(c.Verif, "selftest", "tailsplit", "main.go"))
	return fmt.Sprintf("%x", h.Sum(nil))[:20]
}

// runOneBenign applies one behaviour-preserving variant to a scratch copy and runs every property's check on it;
// the result maps property id -> verdict ("*" = a verdict that holds for every property, e.g. skipped)
func runOneBenign(c *Ctx, self, dir, id string) map[string]selfTestResult {
	whole := func(msg string) map[string]selfTestResult {
		return map[string]selfTestResult{"*": {Seed: id, Result: msg}}
	}
	tmp, err := os.MkdirTemp("", "zncheck-benign-")
	if err != nil {
		return whole("skipped(no scratch dir)")
	}
	defer os.RemoveAll(tmp)
	repoCopy := filepath.Join(tmp, "repo")
	verifCopy := filepath.Join(tmp, "verif")
	if out, err := exec.Command("cp", "-r", c.Repo, repoCopy).CombinedOutput(); err != nil {
		return whole("skipped(copy failed: " + strings.TrimSpace(string(out)) + ")")
	}
	os.RemoveAll(filepath.Join(repoCopy, ".git"))
	os.MkdirAll(verifCopy, 0o755)
	exec.Command("cp", "-r", filepath.Join(c.Verif, "tables"), verifCopy).Run()
	exec.Command("cp", filepath.Join(c.Verif, "known_findings.json"), verifCopy).Run()
	env := append(os.Environ(), "GOFLAGS=-mod=mod", "GOPROXY=off", "GOSUMDB=off", "GOTOOLCHAIN=local", "GOWORK=off", "ZNCHECK_NO_SELFTEST=1", "GOMAXPROCS=4")
	if strings.HasPrefix(id, "tail-split-") {
		// every eligible function split in two (selftest/tailsplit)
		tool := filepath.Join(c.Verif, "bin", "tailsplit")
		if _, err := os.Stat(tool); err != nil {
			b := exec.Command("go", "build", "-o", tool, ".")
			b.Dir = filepath.Join(c.Verif, "selftest", "tailsplit")
			b.Env = env
			if out, err := b.CombinedOutput(); err != nil {
				return whole("skipped(cannot build tailsplit: " + oneLine(string(out)) + ")")
			}
		}
		args := []string{"-dir", repoCopy}
		if strings.HasSuffix(id, "third") {
			args = append(args, "-num", "1", "-den", "3", "-min", "3")
		}
		coreArgs := append([]string{}, args...)
		for _, r := range corePkgs {
			coreArgs = append(coreArgs, "./"+r)
		}
		sp := exec.Command(tool, coreArgs...)
		sp.Dir = repoCopy
		sp.Env = env
		if out, err := sp.CombinedOutput(); err != nil {
			return whole("skipped(tailsplit failed: " + oneLine(string(out)) + ")")
		}
		ss := exec.Command(tool, append(append([]string{}, args...), "-goos", "darwin", "./pkg/server")...)
		ss.Dir = repoCopy
		ss.Env = env
		ss.Run()
	} else if strings.HasPrefix(id, "alpha-rename-") {
		tool := filepath.Join(c.Verif, "bin", "alpharename")
		if _, err := os.Stat(tool); err != nil {
			b := exec.Command("go", "build", "-o", tool, ".")
			b.Dir = filepath.Join(c.Verif, "selftest", "alpharename")
			b.Env = env
			if out, err := b.CombinedOutput(); err != nil {
				return whole("skipped(cannot build alpharename: " + oneLine(string(out)) + ")")
			}
		}
		args := []string{"-dir", repoCopy}
		if strings.HasSuffix(id, "functions-fields") {
			args = append(args, "-funcs", "-fields")
		}
		for _, r := range corePkgs {
			args = append(args, "./"+r)
		}
		rn := exec.Command(tool, args...)
		rn.Dir = repoCopy
		rn.Env = env
		if out, err := rn.CombinedOutput(); err != nil {
			return whole("skipped(alpharename failed: " + oneLine(string(out)) + ")")
		}
		rs := exec.Command(tool, "-dir", repoCopy, "-goos", "darwin", "./pkg/server")
		rs.Dir = repoCopy
		rs.Env = env
		rs.Run()
	} else {
		ap := exec.Command("git", "apply", "--whitespace=nowarn", filepath.Join(dir, id, "patch.diff"))
		ap.Dir = repoCopy
		if out, err := ap.CombinedOutput(); err != nil {
			return whole("skipped(patch does not apply to the current tree: " + oneLine(string(out)) + ")")
		}
	}
	cmd := exec.Command(self, "-repo", repoCopy, "-verif", verifCopy, "-prop", "all", "-tier", "quick")
	cmd.Env = env
	out, _ := cmd.CombinedOutput()
	res := map[string]selfTestResult{}
	var ids []string
	for p := range props {
		ids = append(ids, p)
	}
	for _, p := range ids {
		res[p] = selfTestResult{Seed: id, Result: "skipped(no verdict line)"}
	}
	for _, l := range strings.Split(string(out), "\n") {
		if strings.HasPrefix(l, "== ") {
			f := strings.Fields(l)
			if len(f) > 1 {
				r := selfTestResult{Seed: id, Result: "quiet"}
				if !strings.HasSuffix(strings.TrimSpace(l), " 0 failing") {
					r.Result = "ALARM"
				}
				res[f[1]] = r
			}
		}
	}
	for _, l := range strings.Split(string(out), "\n") {
		if !strings.HasPrefix(l, "FAIL ") {
			continue
		}
		i, j := strings.Index(l, "["), strings.Index(l, " at ")
		if i < 0 || j < i {
			continue
		}
		rule := l[i+1:]
		if k := strings.Index(rule, "."); k > 0 {
			p := rule[:k]
			r := res[p]
			if len(r.Failing) < 4 {
				r.Failing = append(r.Failing, strings.TrimSpace(strings.Replace(l[i:j], repoCopy+"/", "", -1)))
			}
			r.Result = "ALARM"
			res[p] = r
		}
	}
	return res
}

func printSelfTestBenign(rs []selfTestResult) (quiet, alarms, skipped int) {
	for _, r := range rs {
		switch {
		case r.Result == "quiet":
			quiet++
		case r.Result == "ALARM":
			alarms++
			fmt.Printf("SELFTEST-FALSE-ALARM: behaviour-preserving variant %s makes this check report %s\n", r.Seed, strings.Join(r.Failing, " "))
		default:
			skipped++
		}
	}
	fmt.Printf("   selftest (benign variants): %d behaviour-preserving variants: %d quiet, %d alarms, %d skipped\n", len(rs), quiet, alarms, skipped)
	return
}

func printSelfTest(rs []selfTestResult) (detected, missed, skipped int) {
	for _, r := range rs {
		switch {
		case r.Result == "detected":
			detected++
		case r.Result == "MISSED":
			missed++
			fmt.Printf("SELFTEST-MISS: seeded change %s is NOT reported by this check\n", r.Seed)
		default:
			skipped++
		}
	}
	fmt.Printf("   selftest: %d seeded changes of this property: %d detected, %d missed, %d skipped\n", len(rs), detected, missed, skipped)
	return
}
