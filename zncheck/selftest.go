package main

import (
	"encoding/json"
	"fmt"
	"os"
	"os/exec"
	"path/filepath"
	"sort"
	"strings"
	"sync"
)

// selfTest (thorough tier): tests the checker both ways. Every seeded change under /verif/seeded whose
// meta.json names this property (independently written breaking changes, reverse patches of the fix:
// commits, own mutants) is applied to a scratch copy of /repo's working tree outside /repo and /verif,
// this same binary is run on the copy, and the change must be reported. Scratch copies are removed.
// The outcome is recorded in the evidence (coverage.selftest) and printed; a missed mutant is a defect
// of the checker, not a violation of the property, so it does not change the exit code.
type selfTestResult struct {
	Seed     string   `json:"seed"`
	Result   string   `json:"result"` // detected | MISSED | skipped(<why>)
	Failing  []string `json:"failing_obligations,omitempty"`
}

func selfTest(c *Ctx) []selfTestResult {
	seedDir := filepath.Join(c.Verif, "seeded")
	ents, err := os.ReadDir(seedDir)
	if err != nil {
		return nil
	}
	var seeds []string
	for _, e := range ents {
		if !e.IsDir() {
			continue
		}
		b, err := os.ReadFile(filepath.Join(seedDir, e.Name(), "meta.json"))
		if err != nil {
			continue
		}
		var m struct {
			Property string `json:"property"`
		}
		if json.Unmarshal(b, &m) == nil && m.Property == c.R.Prop {
			seeds = append(seeds, e.Name())
		}
	}
	sort.Strings(seeds)
	self, err := os.Executable()
	if err != nil {
		return nil
	}
	results := make([]selfTestResult, len(seeds))
	var wg sync.WaitGroup
	sem := make(chan struct{}, 6)
	for i, s := range seeds {
		wg.Add(1)
		go func(i int, s string) {
			defer wg.Done()
			sem <- struct{}{}
			defer func() { <-sem }()
			results[i] = runOneSeed(c, self, seedDir, s)
		}(i, s)
	}
	wg.Wait()
	return results
}

func runOneSeed(c *Ctx, self, seedDir, seed string) selfTestResult {
	res := selfTestResult{Seed: seed}
	tmp, err := os.MkdirTemp("", "zncheck-selftest-")
	if err != nil {
		res.Result = "skipped(no scratch dir)"
		return res
	}
	defer os.RemoveAll(tmp)
	repoCopy := filepath.Join(tmp, "repo")
	verifCopy := filepath.Join(tmp, "verif")
	if out, err := exec.Command("cp", "-r", c.Repo, repoCopy).CombinedOutput(); err != nil {
		res.Result = "skipped(copy failed: " + strings.TrimSpace(string(out)) + ")"
		return res
	}
	os.RemoveAll(filepath.Join(repoCopy, ".git"))
	os.MkdirAll(verifCopy, 0o755)
	exec.Command("cp", "-r", filepath.Join(c.Verif, "tables"), verifCopy).Run()
	exec.Command("cp", filepath.Join(c.Verif, "known_findings.json"), verifCopy).Run()
	ap := exec.Command("git", "apply", "--whitespace=nowarn", filepath.Join(seedDir, seed, "patch.diff"))
	ap.Dir = repoCopy
	if out, err := ap.CombinedOutput(); err != nil {
		res.Result = "skipped(patch does not apply to the current tree: " + oneLine(string(out)) + ")"
		return res
	}
	cmd := exec.Command(self, "-repo", repoCopy, "-verif", verifCopy, "-prop", c.R.Prop, "-tier", "quick")
	cmd.Env = append(os.Environ(), "ZNCHECK_NO_SELFTEST=1")
	out, _ := cmd.CombinedOutput()
	code := cmd.ProcessState.ExitCode()
	if code == 0 {
		res.Result = "MISSED"
		return res
	}
	res.Result = "detected"
	for _, l := range strings.Split(string(out), "\n") {
		if strings.HasPrefix(l, "FAIL ") {
			// FAIL status [rule] construct at …
			if i := strings.Index(l, "["); i >= 0 {
				if j := strings.Index(l, " at "); j > i {
					res.Failing = append(res.Failing, strings.TrimSpace(strings.Replace(l[i:j], strings.ReplaceAll(repoCopy, "\\", "/")+"/", "", -1)))
				}
			}
		}
	}
	if len(res.Failing) > 4 {
		res.Failing = res.Failing[:4]
	}
	return res
}

func printSelfTest(rs []selfTestResult) (detected, missed, skipped int) {
	for _, r := range rs {
		switch {
		case r.Result == "detected":
			detected++
		case r.Result == "MISSED":
			missed++
			fmt.Printf("SELFTEST-MISS: seeded change %s is NOT reported by this check\n", r.Seed)
		default:
			skipped++
		}
	}
	fmt.Printf("   selftest: %d seeded changes of this property: %d detected, %d missed, %d skipped\n", len(rs), detected, missed, skipped)
	return
}
