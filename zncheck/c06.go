package main

import (
	"fmt"
	"go/constant"
	"go/token"
	"go/types"
	"sort"
	"strings"

	"golang.org/x/tools/go/ssa"
)

func init() { register("C06", checkC06) }

var evalPkgs = []string{"pkg/exec", "pkg/runtime", "pkg/value", "pkg/common", "stdlib/file", "stdlib/json"}

func checkC06(c *Ctx) {
	R := c.R
	R.Explain = "Decided on SSA: (C06.pair) every vm.BeginScope() in the evaluator is paired with a deferred EndScope on the very Scope it returned, before any return (typestate by value: the release is tied to the acquired object, " +
		"so a stale top frame of another module cannot redirect it), and vm.EndScope() - which resolves the scope through the current top frame - has no caller in the evaluator; (C06.wrongerr) no function returns an error value that " +
		"dominating tests prove nil on a branch guarded by another error being non-nil (the shape of the swallowed redeclaration error); (C06.const) every binding site Declare*Element in pkg/exec is classified by the syntax field its " +
		"name flows from and uses the const/non-const variant the manual prescribes (恒为, 输入/parameters, 得到 both forms, 如何/定义 names, 此, imports const; 令/设为 and 遍历 slots assignable); (C06.globals) all three VM.Declare* test " +
		"vm.globals before touching the scope, lookups consult globals first, nothing writes vm.globals; (C06.intact) Scope.SetValue stores only on the false edge of isConst, the innermost symbol with the name decides " +
		"(no further search after a match), and declareValue appends only after the same-depth duplicate test. Also: every declaration path stores the isConst flag it was declared with (no recycled slot keeps an old flag); guards may live in helpers (summaries of helpers whose passing returns lie behind the test). (C06.visible) in every Scope method that does not change localCount, each element of locals / values is read at an index the own bounds prover shows to be below localCount (helper results summarised), so symbols of ended blocks cannot be found. NOT decided: visibility for arbitrary nestings (Scope depth arithmetic at run time). (C06.ownscope) a function that opens a scope performs its declarations after opening it."
	R.Assumptions = []string{"Scope.BeginScope/EndScope maintain currentDepth as a counter (pkg/runtime/scope.go, covered by baseline tests)"}
	u := c.Core()
	u.buildSSA()

	ruleScopePairing(c, u, "C06.pair")
	ruleRestC06(c, u)

	// ---- C06.ownscope: a block's declarations go into the scope the block itself opened: in a function that begins a
	// scope, every Declare*Element it performs comes after the BeginScope (a name declared before it lands in the
	// caller's block and survives the end of this one)
	nOwn := 0
	for _, f := range u.srcFuncs("pkg/exec") {
		if f.Parent() != nil {
			continue
		}
		begins := u.callsNamed(f, "pkg/runtime.VM.BeginScope")
		if len(begins) == 0 {
			continue
		}
		for _, in := range instrsOf(f) {
			call, ok := in.(*ssa.Call)
			if !ok {
				continue
			}
			n := u.callName(call)
			if n != "pkg/runtime.VM.DeclareElement" && n != "pkg/runtime.VM.DeclareConstElement" && n != "pkg/runtime.VM.DeclareExternalElement" {
				continue
			}
			nOwn++
			inside := false
			for _, b := range begins {
				if bi, isI := b.(ssa.Instruction); isI && dominatesInstr(bi, in) {
					inside = true
				}
			}
			R.check(inside, "C06.ownscope", u.fname(f)+":"+siteName(u, f, call), u.pos(call.Pos()), "declared inside the scope this block opened", "a name is declared before the block opens its own scope: it lands in the caller's current block, stays visible after this body has ended and collides with the caller's names")
		}
	}
	if nOwn < 2 {
		R.viol("C06.ownscope", "instances", "", fmt.Sprintf("expected declarations inside scope-opening functions (parameters, 此, loop slots), found %d", nOwn))
	}
}

// ruleScopePairing - BeginScope result is the receiver of a deferred EndScope; nobody ends scopes through the top frame
func ruleScopePairing(c *Ctx, u *Universe, rule string) {
	R := c.R
	nPair := 0
	for _, f := range u.srcFuncs("pkg/exec") {
		for _, call := range u.callsNamed(f, "pkg/runtime.VM.BeginScope") {
			nPair++
			key := fmt.Sprintf("%s:BeginScope#%d", u.fname(f), nPair)
			key = u.fname(f) + ":" + siteName(u, f, call)
			scopeVal := call.Value()
			var def *ssa.Defer
			for _, in := range instrsOf(f) {
				if d, ok := in.(*ssa.Defer); ok && u.callName(d) == "pkg/runtime.Scope.EndScope" && len(d.Call.Args) == 1 && d.Call.Args[0] == ssa.Value(scopeVal) {
					def = d
				}
			}
			if def == nil {
				R.viol(rule, key, u.pos(call.Pos()), "the scope begun here is not ended by a deferred EndScope on the returned Scope object")
				continue
			}
			// no return between BeginScope and the defer
			w := reachableAvoiding(call.Block(), instrIndex(call)+1, func(x ssa.Instruction) bool { _, ok := x.(*ssa.Return); return ok }, func(x ssa.Instruction) bool { return x == ssa.Instruction(def) })
			R.check(w == nil && dominatesInstr(call, def), rule, key, u.pos(call.Pos()), "EndScope deferred on the Scope returned by BeginScope: released on every exit, on the same module's symbol table", "a path returns between BeginScope and the deferred EndScope")
		}
	}
	R.min(rule, 3)
	stale := 0
	for _, rel := range []string{"pkg/exec", "stdlib/file", "stdlib/json", "pkg/common"} {
		for f, cs := range u.funcsCalling([]string{rel}, "pkg/runtime.VM.EndScope") {
			for _, cs1 := range cs {
				stale++
				R.viol(rule, u.fname(f)+":vm.EndScope", u.pos(cs1.Pos()), "vm.EndScope() resolves the scope through the current top call frame; after a failed call into another module that frame is stale and the wrong module's block is ended (declarations of the method stay visible)")
			}
		}
	}
	if stale == 0 {
		R.hold(rule, "no-caller-of-vm.EndScope", "", "no evaluator code ends a scope through the top-frame lookup")
	}

}

func ruleRestC06(c *Ctx, u *Universe) {
	R := c.R
	// ---- C06.wrongerr
	nRet := 0
	for _, rel := range evalPkgs {
		for _, f := range u.srcFuncs(rel) {
			tests := nilTests(f)
			if len(tests) == 0 {
				continue
			}
			for _, b := range f.Blocks {
				ret, ok := b.Instrs[len(b.Instrs)-1].(*ssa.Return)
				if !ok {
					continue
				}
				ev := errorOperand(ret)
				if ev == nil || isNilConst(ev) {
					continue
				}
				nRet++
				provenNil := false
				var other ssa.Value
				for _, t := range tests {
					if !isErrorType(t.X.Type()) {
						continue
					}
					if t.X == ev && edgeDominates(t.If.Block(), t.OnNil, b) {
						provenNil = true
					}
					if t.X != ev && edgeDominates(t.If.Block(), t.NotNil, b) {
						other = t.X
					}
				}
				if provenNil && other != nil {
					R.viol("C06.wrongerr", u.fname(f)+":return-nil-error", u.pos(ret.Pos()),
						fmt.Sprintf("on the branch where %s is non-nil the function returns %s, which the dominating test proves nil: the error is swallowed", other.Name(), ev.Name()))
				}
			}
		}
	}
	R.hold("C06.wrongerr", "all-error-returns", "", fmt.Sprintf("%d returns of non-constant error values examined in %s: none returns a provably-nil error on another error's branch", nRet, strings.Join(evalPkgs, ",")))
	R.count("error_returns_examined", nRet)

	// ---- C06.const
	expect := map[string]string{
		"ExecBlock.InputBlock":         "const", // 输入 / parameters: "通过输入语句定义的变量值实际上是常量" (manual ch.4, twice)
		"FuncCallExpr.YieldResult":     "const", // 得到 after a direct call
		"MemberMethodExpr.YieldResult": "const", // 得到 after a 以…（…） chain
		"FunctionDeclareStmt.Name":     "const", // 如何
		"ClassDeclareStmt.ClassName":   "const", // 定义
		"此":                            "const",
		"VDAssignPair.Variables":       "by-kind", // 令: 恒为 -> const, 设为/= -> assignable
		"IterateStmt.IndexNames":       "var",     // 遍历 slots are re-assigned on every pass
		"import":                       "external",
	}
	variant := map[string]string{
		"pkg/runtime.VM.DeclareElement":         "var",
		"pkg/runtime.VM.DeclareConstElement":    "const",
		"pkg/runtime.VM.DeclareExternalElement": "external",
	}
	nDecl := 0
	byOrigin := map[string][]string{}
	for _, f := range u.srcFuncs("pkg/exec") {
		for _, in := range instrsOf(f) {
			call, ok := in.(ssa.CallInstruction)
			if !ok {
				continue
			}
			v, ok := variant[u.callName(call)]
			if !ok {
				continue
			}
			nDecl++
			for _, origin := range nameOrigins(u, call.Common().Args[1]) {
				key := fmt.Sprintf("%s:declare(%s)", u.fname(f), origin)
				want, known := expect[origin]
				if !known {
					R.undecided("C06.const", key, u.pos(call.Pos()), "binding site whose name origin the table does not list ("+origin+"): decide whether it must be constant and add it to the table")
					continue
				}
				byOrigin[origin] = append(byOrigin[origin], v)
				if want == "by-kind" {
					// checked below: both variants present, selected by the VDTypeAssignConst test
					continue
				}
				R.check(v == want, "C06.const", key+":"+siteName(u, f, call), u.pos(call.Pos()), "bound with the "+v+" variant as the manual prescribes",
					fmt.Sprintf("name from %s is bound with the %s variant, the manual prescribes %s", origin, v, want))
			}
		}
	}
	// 令: const variant exactly on the VDTypeAssignConst edge
	if f := u.ssaFunc("pkg/exec", "evalVarDeclareStmt"); f != nil {
		vs := byOrigin["VDAssignPair.Variables"]
		hasC, hasV := false, false
		for _, v := range vs {
			if v == "const" {
				hasC = true
			}
			if v == "var" {
				hasV = true
			}
		}
		okSel := false
		vdConst := int64(3)
		if cs := constsWithPrefix(u.Pkgs["pkg/syntax"], "VDTypeAssignConst"); len(cs) == 1 {
			vdConst = cs["VDTypeAssignConst"]
		}
		// isConst flag: phi/bool derived from `vpair.Type == VDTypeAssignConst`; the const call is on its true edge
		for _, cc := range u.callsNamed(f, "pkg/runtime.VM.DeclareConstElement") {
			for _, d := range f.Blocks {
				ifi, ok := d.Instrs[len(d.Instrs)-1].(*ssa.If)
				if !ok || !edgeDominates(d, d.Succs[0], cc.Block()) {
					continue
				}
				isKindTest := func(v ssa.Value) bool {
					bo, ok := v.(*ssa.BinOp)
					if !ok || bo.Op != token.EQL {
						return false
					}
					k, ok := bo.Y.(*ssa.Const)
					return ok && k.Int64() == vdConst
				}
				if isKindTest(ifi.Cond) {
					okSel = true
				}
				// isConst flag: phi(false, true) whose `true` comes exactly from the true edge of the kind test
				if phi, ok := ifi.Cond.(*ssa.Phi); ok {
					good := len(phi.Edges) > 0
					sawTrue := false
					for i, e := range phi.Edges {
						k, ok := e.(*ssa.Const)
						if !ok || k.Value == nil {
							good = false
							continue
						}
						pred := phi.Block().Preds[i]
						fromKindTrue := false
						for _, d2 := range f.Blocks {
							if if2, ok := d2.Instrs[len(d2.Instrs)-1].(*ssa.If); ok && isKindTest(if2.Cond) {
								if d2.Succs[0] == pred || edgeDominates(d2, d2.Succs[0], pred) {
									fromKindTrue = true
								}
							}
						}
						isTrue := constant.BoolVal(k.Value)
						if isTrue {
							sawTrue = true
						}
						if isTrue != fromKindTrue {
							good = false
						}
					}
					if good && sawTrue {
						okSel = true
					}
				}
			}
		}
		R.check(hasC && hasV && okSel, "C06.const", "pkg/exec.evalVarDeclareStmt:恒为-selects-const", u.pos(f.Pos()), "恒为 binds a constant, 设为/= an assignable variable", "令 does not select the constant variant exactly for 恒为")
	} else {
		R.lost("C06.const", "pkg/exec.evalVarDeclareStmt")
	}
	R.min("C06.const", 9)
	R.count("declare_sites", nDecl)

	// ---- C06.globals
	for _, m := range []struct{ name, inner string }{
		{"VM.DeclareElement", "pkg/runtime.Scope.DeclareValue"},
		{"VM.DeclareConstElement", "pkg/runtime.Scope.DeclareConstValue"},
		{"VM.DeclareExternalElement", "pkg/runtime.Scope.DeclareExternalValue"},
	} {
		f := u.ssaFunc("pkg/runtime", m.name)
		if f == nil {
			R.lost("C06.globals", "pkg/runtime."+m.name)
			continue
		}
		inner := u.callsNamed(f, m.inner)
		ok := len(inner) == 1
		if ok {
			// the scope is reached only where `name in vm.globals` is known false: by a test in this function or
			// through a guard helper whose passing returns lie behind that test
			notInGlobals := func(fn *ssa.Function, ifi *ssa.If, _ ssa.Value) (int, bool) {
				// cond = Extract(Lookup(vm.globals, name), 1)
				if ex, isEx := ifi.Cond.(*ssa.Extract); isEx && ex.Index == 1 {
					if lk, isLk := ex.Tuple.(*ssa.Lookup); isLk {
						if _, isG := fieldLoad(lk.X, "globals"); isG {
							return 1, true
						}
					}
				}
				return 0, false
			}
			ok = establishedAt(u, f, inner[0].Block(), nil, notInGlobals, 2)
		}
		R.check(ok, "C06.globals", "pkg/runtime."+m.name, u.pos(f.Pos()), "a predefined name is rejected (NameRedeclared) before the scope is touched", "a predefined name can be redeclared: the scope is reached without the vm.globals test")
	}
	for _, name := range []string{"VM.FindElement", "VM.FindElementWithModule"} {
		f := u.ssaFunc("pkg/runtime", name)
		if f == nil {
			R.lost("C06.globals", "pkg/runtime."+name)
			continue
		}
		var lk ssa.Instruction
		for _, in := range instrsOf(f) {
			if l, ok := in.(*ssa.Lookup); ok {
				if _, isG := fieldLoad(l.X, "globals"); isG {
					lk = l
				}
			}
		}
		ok := lk != nil
		if ok {
			for _, cs := range u.callsNamed(f, "pkg/runtime.Scope.GetValue", "pkg/runtime.Scope.GetValueWithModuleID") {
				if !dominatesInstr(lk, cs) {
					ok = false
				}
			}
		}
		R.check(ok, "C06.globals", "pkg/runtime."+name, u.pos(f.Pos()), "predefined names are looked up first (cannot be shadowed)", "local symbols are consulted before the predefined names")
	}
	// nobody writes vm.globals
	nW := 0
	for _, rel := range corePkgs {
		for _, f := range u.srcFuncs(rel) {
			for _, in := range instrsOf(f) {
				if mu, ok := in.(*ssa.MapUpdate); ok {
					if _, isG := fieldLoad(mu.Map, "globals"); isG {
						nW++
						R.viol("C06.globals", u.fname(f)+":writes-vm.globals", u.pos(mu.Pos()), "the predefined-name table of a VM is written")
					}
				}
			}
		}
	}
	if nW == 0 {
		R.hold("C06.globals", "no-writer-of-vm.globals", "", "no MapUpdate on VM.globals in any analysed package")
	}

	// ---- C06.intact
	if f := u.ssaFunc("pkg/runtime", "Scope.SetValue"); f != nil {
		var store *ssa.Store
		for _, in := range instrsOf(f) {
			if st, ok := in.(*ssa.Store); ok {
				if ia, ok := st.Addr.(*ssa.IndexAddr); ok {
					if _, isV := fieldLoad(ia.X, "values"); isV {
						store = st
					}
				}
			}
		}
		okConst, okFirst := false, false
		if store != nil {
			for _, d := range f.Blocks {
				ifi, ok := d.Instrs[len(d.Instrs)-1].(*ssa.If)
				if !ok {
					continue
				}
				if _, isC := fieldLoad(ifi.Cond, "isConst"); isC && edgeDominates(d, d.Succs[1], store.Block()) {
					okConst = true
					// the true edge (constant) must return without storing
					if reachableAvoiding(d.Succs[0], 0, func(x ssa.Instruction) bool { return x == ssa.Instruction(store) }, nil) != nil {
						okConst = false
					}
				}
			}
		}
		// name match `locals[i].name == name` (in SetValue or in the lookup helper it calls): after a match no
		// further iteration - the match test is not reachable from its true edge
		searchIn := []*ssa.Function{f}
		for _, in := range instrsOf(f) {
			if call, ok := in.(ssa.CallInstruction); ok {
				if callee := call.Common().StaticCallee(); callee != nil && callee.Pkg == f.Pkg && callee.Blocks != nil {
					searchIn = append(searchIn, callee)
				}
			}
		}
		for _, g := range searchIn {
			for _, d := range g.Blocks {
				ifi, ok := d.Instrs[len(d.Instrs)-1].(*ssa.If)
				if !ok {
					continue
				}
				if bo, ok := ifi.Cond.(*ssa.BinOp); ok && bo.Op == token.EQL {
					if _, isN := fieldLoad(bo.X, "name"); isN {
						okFirst = reachableAvoiding(d.Succs[0], 0, func(x ssa.Instruction) bool { return x == ssa.Instruction(ifi) }, nil) == nil
					}
				}
			}
		}
		R.check(store != nil && okConst, "C06.intact", "pkg/runtime.Scope.SetValue:const-guard", u.pos(f.Pos()), "the value cell is written only on the false edge of isConst; a constant returns the error with the old value intact", "a constant's value cell can be overwritten")
		R.check(okFirst, "C06.intact", "pkg/runtime.Scope.SetValue:innermost-decides", u.pos(f.Pos()), "the innermost symbol with the name decides (no search continues after a match)", "after finding the innermost symbol the search continues (an assignment could skip a shadowing constant and hit an outer variable)")
	} else {
		R.lost("C06.intact", "pkg/runtime.Scope.SetValue")
	}
	// ---- C06.visible: a lookup only sees live symbols - every element of locals / values read by a function that
	// does not itself change localCount is read at an index below localCount (symbols of ended blocks stay in the
	// slices until their slot is reused)
	nVis := 0
	for _, g := range u.srcFuncs("pkg/runtime") {
		if g.Signature.Recv() == nil || !namedTypeIs(g.Signature.Recv().Type(), "pkg/runtime", "Scope") {
			continue
		}
		storesCount := false
		for _, in := range instrsOf(g) {
			if st, ok := in.(*ssa.Store); ok {
				if fa, ok := st.Addr.(*ssa.FieldAddr); ok && fieldAddrName(fa) == "Scope.localCount" {
					storesCount = true
				}
			}
		}
		if storesCount {
			continue
		}
		pr := newBProver(g)
		for _, in := range instrsOf(g) {
			ia, ok := in.(*ssa.IndexAddr)
			if !ok {
				continue
			}
			fld := containerFieldOf(ia.X)
			if fld != "Scope.locals" && fld != "Scope.values" {
				continue
			}
			nVis++
			// reference: the localCount field of the same scope
			un, _ := ia.X.(*ssa.UnOp)
			fa, _ := un.X.(*ssa.FieldAddr)
			var cntField int = -1
			if st, isS := fa.X.Type().Underlying().(*types.Pointer).Elem().Underlying().(*types.Struct); isS {
				for i := 0; i < st.NumFields(); i++ {
					if fieldName(st.Field(i)) == "localCount" {
						cntField = i
					}
				}
			}
			okV := false
			if cntField >= 0 {
				ref := bref{fieldBase: fa.X, field: cntField, raw: true}
				if c, ok := pr.upper(ia.Index, ref, bpoint{b: ia.Block()}, map[ssa.Value]bool{}); ok && c <= -1 {
					okV = true
				}
			}
			R.check(okV, "C06.visible", u.fname(g)+":"+fld+"["+ia.Index.Name()+"]", u.pos(ia.Pos()), "read below localCount (live symbols only)", "an element of "+fld+" is read at an index that is not provably below localCount: symbols of blocks that already ended can be found (a name stays usable after its block, or a dead inner declaration keeps shadowing)")
		}
	}
	if nVis < 3 {
		R.viol("C06.visible", "instances", "", fmt.Sprintf("expected at least 3 reads of Scope.locals / Scope.values in lookup functions, found %d", nVis))
	}

	if f := u.ssaFunc("pkg/runtime", "Scope.declareValue"); f != nil {
		// the store of the new symbol (append to locals) is not reachable from the duplicate-found edge
		var dupIf *ssa.If
		for _, d := range f.Blocks {
			if ifi, ok := d.Instrs[len(d.Instrs)-1].(*ssa.If); ok {
				if bo, ok := ifi.Cond.(*ssa.BinOp); ok && bo.Op == token.EQL {
					if _, isD := fieldLoad(bo.X, "depth"); isD {
						if _, isCD := fieldLoad(bo.Y, "currentDepth"); isCD {
							dupIf = ifi
						}
					}
				}
			}
		}
		ok := false
		if dupIf != nil {
			isStoreLocals := func(x ssa.Instruction) bool {
				st, ok := x.(*ssa.Store)
				if !ok {
					return false
				}
				fa, ok := st.Addr.(*ssa.FieldAddr)
				return ok && fieldAddrName(fa) == "Scope.locals"
			}
			ok = reachableAvoiding(dupIf.Block().Succs[0], 0, isStoreLocals, nil) == nil
			// and the declaration happens at all
			found := false
			for _, in := range instrsOf(f) {
				if isStoreLocals(in) {
					found = true
				}
			}
			ok = ok && found
		}
		// every declaration records its own constness: no path reaches the localCount increment without a store of
		// the isConst parameter into the symbol (a recycled slot must not keep the previous symbol's flag)
		var inc ssa.Instruction
		for _, in := range instrsOf(f) {
			if st, isSt := in.(*ssa.Store); isSt {
				if fa, isFA := st.Addr.(*ssa.FieldAddr); isFA && fieldAddrName(fa) == "Scope.localCount" {
					inc = in
				}
			}
		}
		okFlag := inc != nil && len(f.Params) >= 4
		if okFlag {
			setsFlag := func(x ssa.Instruction) bool {
				st, isSt := x.(*ssa.Store)
				if !isSt {
					return false
				}
				fa, isFA := st.Addr.(*ssa.FieldAddr)
				return isFA && fieldAddrName(fa) == "LocalSymbol.isConst" && st.Val == ssa.Value(f.Params[3])
			}
			okFlag = reachableAvoiding(f.Blocks[0], 0, func(x ssa.Instruction) bool { return x == inc }, setsFlag) == nil
		}
		R.check(okFlag, "C06.intact", "pkg/runtime.Scope.declareValue:constness-recorded", u.pos(f.Pos()), "each declared symbol stores the isConst flag it was declared with", "a symbol can be declared without recording its own isConst flag (it keeps the flag of whatever occupied the slot before): a constant becomes assignable or a variable frozen")
		R.check(ok, "C06.intact", "pkg/runtime.Scope.declareValue:duplicate", u.pos(f.Pos()), "a second declaration at the same depth returns NameRedeclared without adding a symbol", "a name can be declared twice in the same block")
	} else {
		R.lost("C06.intact", "pkg/runtime.Scope.declareValue")
	}
}

// nameOrigin classifies where the *IDName argument of a Declare* call comes from
// nameOrigins: the syntax fields / constants the bound name can come from. Parameters are followed to the
// static call sites of the function (helpers that bind on behalf of their caller), captured variables to
// the enclosing function's cell.
func nameOrigins(u *Universe, v ssa.Value) []string {
	origins := map[string]bool{}
	seen := map[ssa.Value]bool{}
	var walk func(v ssa.Value, depth int)
	walk = func(v ssa.Value, depth int) {
		if v == nil || seen[v] {
			return
		}
		seen[v] = true
		switch x := v.(type) {
		case *ssa.Phi:
			for _, e := range x.Edges {
				walk(e, depth)
			}
		case *ssa.Extract:
			walk(x.Tuple, depth)
		case *ssa.Call:
			switch u.callName(x) {
			case "pkg/exec.MatchIDName":
				walk(x.Call.Args[0], depth)
			case "pkg/runtime.NewIDName":
				a := x.Call.Args[0]
				if k, ok := a.(*ssa.Const); ok && k.Value != nil {
					origins[constantString(k.Value)] = true
					return
				}
				// name string from a map range / slice of strings: import of exported names
				origins["import"] = true
			default:
				origins["?"] = true
			}
		case *ssa.Parameter:
			fn := x.Parent()
			idx := -1
			for i, q := range fn.Params {
				if q == x {
					idx = i
				}
			}
			sites := u.staticCallers(fn)
			if idx < 0 || len(sites) == 0 || depth >= 3 {
				origins["?"] = true
				return
			}
			for _, cs := range sites {
				args := cs.Common().Args
				if idx < len(args) {
					walk(args[idx], depth+1)
				}
			}
		case *ssa.UnOp:
			if x.Op == token.MUL {
				switch a := x.X.(type) {
				case *ssa.FieldAddr:
					origins[fieldAddrName(a)] = true
				case *ssa.IndexAddr:
					walk(a.X, depth)
				case *ssa.Alloc:
					// local variable (possibly captured): look at what is stored
					for _, r := range *a.Referrers() {
						if st, ok := r.(*ssa.Store); ok && st.Addr == a {
							walk(st.Val, depth)
						}
					}
				case *ssa.FreeVar:
					origins["freevar:"+a.Name()] = true
				}
			}
		case *ssa.Field:
			if st, ok := x.X.Type().Underlying().(*types.Struct); ok {
				origins[recvNamed(x.X.Type())+"."+fieldName(st.Field(x.Field))] = true
			}
		case *ssa.Index:
			walk(x.X, depth)
		case *ssa.Slice:
			walk(x.X, depth)
		}
	}
	walk(v, 0)
	var out []string
	for o := range origins {
		out = append(out, o)
	}
	sort.Strings(out)
	if len(out) == 0 {
		out = []string{"?"}
	}
	return out
}

// nameOrigin: the single origin of a bound name ("?" when it has several or none)
func nameOrigin(u *Universe, v ssa.Value) string {
	os := nameOrigins(u, v)
	if len(os) == 1 {
		return os[0]
	}
	return "?"
}

// containerFieldOf: "Type.field" when v is a load of that field
func containerFieldOf(v ssa.Value) string {
	un, ok := v.(*ssa.UnOp)
	if !ok || un.Op != token.MUL {
		return ""
	}
	fa, ok := un.X.(*ssa.FieldAddr)
	if !ok {
		return ""
	}
	return fieldAddrName(fa)
}
