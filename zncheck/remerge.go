package main

import (
	"encoding/json"
	"fmt"
	"go/ast"
	"go/token"
	"go/types"
	"os"
	"path/filepath"
	"sort"
	"strings"

	"golang.org/x/tools/go/packages"
)

// Re-merging of new helper functions (canonicalisation before analysis).
//
// The rules are anchored in the functions of the reference tree (tables/functions.json). A refactoring that moves part
// of such a function into a NEW function (one the inventory does not list and that is not a renamed listed function)
// leaves behaviour unchanged but spreads the facts a rule looks for over two functions. Before the analysis such new
// functions are substituted back at their call sites, in the source text handed to the type checker (packages overlay;
// the files on disk are not touched): the analysed program is the same program with the helper inlined.
//
// A new function H is re-merged only when the substitution is obviously meaning-preserving:
//   - H is a plain function or method with a body, without type parameters, variadic parameters, named results,
//     defer, recover, labels or goto, not recursive, and only ever called directly (never used as a value);
//   - every call of H is the whole of a statement: `return H(..)` with identical result types, `H(..)` as a statement,
//     `x, y := H(..)` / `x, y = H(..)` / `var x T = H(..)`, in a statement list;
//   - the names H's text uses (package-level objects, imports, predeclared names) mean the same at every call site.
//   - in a position other than `return H(..)` the helper's control flow must need no translation: no `return` in its
//     body except one as the last statement (its values go to temporaries that are assigned after the block).
// Parameters are bound to the argument values in a fresh block (or the caller's variable of the same name is used
// directly when neither side can tell the difference). Anything else is left as it is, and the per-rule helper
// summaries (family, flowsFromIP, establishedAt …) deal with it: no worse than without this step.

type remergeSite struct {
	call      *ast.CallExpr
	stmt      ast.Stmt
	kind      string // return | expr | assign | define | var
	file      *ast.File
	fileName  string
	enclosing ast.Node // *ast.FuncDecl or *ast.FuncLit
	// direct[i]: parameter i (the receiver first, when there is one) needs no binding: the helper's text uses the
	// caller's variable of the same name directly (see directParameters)
	direct []bool
	next   ast.Stmt // the statement that follows the call statement in its list
	// endPos: end of the replaced text (the statement, or the statement and the error test that follows it)
	withNext bool
}

var remergeLog []string

// newcomerDecls: function declarations of the package that the inventory neither lists nor recognises as renamed
func newcomerDecls(rel string, p *packages.Package) []*ast.FuncDecl {
	var out []*ast.FuncDecl
	anyListed := false
	for _, f := range p.Syntax {
		for _, d := range f.Decls {
			if fd, ok := d.(*ast.FuncDecl); ok {
				if listedFunction(rel, rel+"."+declNameRaw(fd)) {
					anyListed = true
				}
			}
		}
	}
	if !anyListed {
		return nil
	}
	for _, f := range p.Syntax {
		for _, d := range f.Decls {
			fd, ok := d.(*ast.FuncDecl)
			if !ok || fd.Body == nil {
				continue
			}
			if listedFunction(rel, rel+"."+declNameRaw(fd)) {
				continue
			}
			if _, renamed := declAlias[fd.Name]; renamed {
				continue
			}
			if fd.Name.Name == "init" || fd.Name.Name == "main" {
				continue
			}
			out = append(out, fd)
		}
	}
	return out
}

// remergeOverlay computes the rewritten sources for one round; nil when there is nothing to merge
func remergeOverlay(u *Universe, base map[string][]byte) (map[string][]byte, []string) {
	overlay := map[string][]byte{}
	var log []string
	var rels []string
	for rel := range u.Pkgs {
		rels = append(rels, rel)
	}
	sort.Strings(rels)
	for _, rel := range rels {
		p := u.Pkgs[rel]
		news := newcomerDecls(rel, p)
		if len(news) == 0 {
			continue
		}
		info := p.TypesInfo
		newObj := map[types.Object]*ast.FuncDecl{}
		for _, fd := range news {
			if o := info.Defs[fd.Name]; o != nil {
				newObj[o] = fd
			}
		}
		fileOf := map[*ast.FuncDecl]*ast.File{}
		nameOf := map[*ast.File]string{}
		for i, f := range p.Syntax {
			if i < len(p.CompiledGoFiles) {
				nameOf[f] = p.CompiledGoFiles[i]
			}
			for _, d := range f.Decls {
				if fd, ok := d.(*ast.FuncDecl); ok {
					fileOf[fd] = f
				}
			}
		}
		src := func(name string) []byte {
			if b, ok := overlay[name]; ok {
				return b
			}
			if b, ok := base[name]; ok {
				return b
			}
			b, _ := os.ReadFile(name)
			return b
		}
		// leaf newcomers first: those that call no other newcomer
		callsNew := func(fd *ast.FuncDecl) (other bool, self bool) {
			ast.Inspect(fd.Body, func(n ast.Node) bool {
				if id, ok := n.(*ast.Ident); ok {
					if o := info.Uses[id]; o != nil {
						if h, isNew := newObj[o]; isNew {
							if h == fd {
								self = true
							} else {
								other = true
							}
						}
					}
				}
				return true
			})
			return
		}
		type edit struct {
			from, to int
			text     string
		}
		edits := map[string][]edit{}
		labelN := 0
		for _, h := range news {
			hObj := info.Defs[h.Name]
			if other, self := callsNew(h); other || self || hObj == nil {
				continue
			}
			if why := remergeEligible(info, h); why != "" {
				log = append(log, fmt.Sprintf("%s.%s is new and stays a function of its own (%s)", rel, declNameRaw(h), why))
				continue
			}
			// all uses of H
			var sites []remergeSite
			okAll := true
			why := ""
			for _, f := range p.Syntax {
				var stack []ast.Node
				ast.Inspect(f, func(n ast.Node) bool {
					if n == nil {
						stack = stack[:len(stack)-1]
						return true
					}
					stack = append(stack, n)
					id, ok := n.(*ast.Ident)
					if !ok || info.Uses[id] != hObj {
						return true
					}
					site, reason := classifySite(info, stack, id)
					if reason != "" {
						okAll, why = false, reason
						return true
					}
					site.file, site.fileName = f, nameOf[f]
					sites = append(sites, site)
					return true
				})
			}
			if !okAll || len(sites) == 0 {
				if why == "" {
					why = "never called"
				}
				log = append(log, fmt.Sprintf("%s.%s is new and stays a function of its own (%s)", rel, declNameRaw(h), why))
				continue
			}
			hFile := fileOf[h]
			hName := nameOf[hFile]
			hSrc := src(hName)
			off := func(pos token.Pos) int { return u.Fset.Position(pos).Offset }
			var texts []edit
			var siteFiles []string
			keepH := false
			for si := range sites {
				sites[si].direct = directParameters(info, h, sites[si])
			}
			for _, s := range sites {
				if reason := namesAgree(p, info, h, hFile, s); reason != "" {
					okAll, why = false, reason
					break
				}
				labelN++
				if s.kind == "subexpr" {
					txt, reason := exprText(u, info, h, hSrc, s, src(s.fileName))
					if reason != "" {
						if len(h.Body.List) == 1 {
							// a single-expression helper: this call stays a call (the helper is kept), the others are substituted
							keepH = true
							continue
						}
						okAll, why = false, reason
						break
					}
					texts = append(texts, edit{off(s.call.Pos()), off(s.call.End()), txt})
					siteFiles = append(siteFiles, s.fileName)
					continue
				}
				txt, reason := inlineText(u, info, h, hSrc, s, src(s.fileName), labelN)
				if reason != "" {
					okAll, why = false, reason
					break
				}
				if strings.HasSuffix(txt, "\x00withnext") {
					texts = append(texts, edit{off(s.stmt.Pos()), off(s.next.End()), strings.TrimSuffix(txt, "\x00withnext")})
					siteFiles = append(siteFiles, s.fileName)
					continue
				}
				texts = append(texts, edit{off(s.stmt.Pos()), off(s.stmt.End()), txt})
				siteFiles = append(siteFiles, s.fileName)
			}
			if !okAll {
				log = append(log, fmt.Sprintf("%s.%s is new and stays a function of its own (%s)", rel, declNameRaw(h), why))
				continue
			}
			// overlapping edits (a site inside another site's statement): give up on this helper
			clash := false
			for i, e := range texts {
				for _, o := range edits[siteFiles[i]] {
					if e.from < o.to && o.from < e.to {
						clash = true
					}
				}
			}
			if clash {
				continue
			}
			for i, e := range texts {
				edits[siteFiles[i]] = append(edits[siteFiles[i]], e)
			}
			if len(texts) == 0 {
				continue
			}
			// delete H (with its doc comment) unless a call of it remains
			if !keepH {
				from := off(h.Pos())
				if h.Doc != nil {
					from = off(h.Doc.Pos())
				}
				edits[hName] = append(edits[hName], edit{from, off(h.End()), ""})
			}
			var callers []string
			for _, s := range sites {
				n := "a function literal"
				if fd, ok := s.enclosing.(*ast.FuncDecl); ok {
					n = declNameRaw(fd)
				}
				callers = append(callers, n)
			}
			log = append(log, fmt.Sprintf("%s.%s is new (not in the reference inventory): analysed as part of its caller(s) %s (re-merged)", rel, declNameRaw(h), strings.Join(uniqSorted(callers), ", ")))
		}
		for name, es := range edits {
			b := append([]byte{}, src(name)...)
			sort.Slice(es, func(i, j int) bool { return es[i].from > es[j].from })
			for _, e := range es {
				b = append(b[:e.from], append([]byte(e.text), b[e.to:]...)...)
			}
			overlay[name] = b
		}
	}
	if len(overlay) == 0 {
		return nil, log
	}
	return overlay, log
}

func remergeEligible(info *types.Info, h *ast.FuncDecl) string {
	if h.Type.TypeParams != nil {
		return "type parameters"
	}
	if h.Recv != nil {
		for _, f := range h.Recv.List {
			t := f.Type
			if st, ok := t.(*ast.StarExpr); ok {
				t = st.X
			}
			if _, ok := t.(*ast.Ident); !ok {
				return "generic receiver"
			}
		}
	}
	for _, f := range h.Type.Params.List {
		if _, ok := f.Type.(*ast.Ellipsis); ok {
			return "variadic"
		}
	}
	if h.Type.Results != nil {
		for _, f := range h.Type.Results.List {
			if len(f.Names) > 0 {
				return "named results"
			}
		}
	}
	why := ""
	ast.Inspect(h.Body, func(n ast.Node) bool {
		switch x := n.(type) {
		case *ast.DeferStmt:
			why = "defer"
		case *ast.LabeledStmt:
			why = "label"
		case *ast.BranchStmt:
			if x.Tok == token.GOTO {
				why = "goto"
			}
		case *ast.CallExpr:
			if id, ok := x.Fun.(*ast.Ident); ok && id.Name == "recover" {
				why = "recover"
			}
		}
		return true
	})
	return why
}

// classifySite: the use `id` of H must be the callee of a call that is the whole right-hand side of a statement in a list
func classifySite(info *types.Info, stack []ast.Node, id *ast.Ident) (remergeSite, string) {
	// stack: … parent-of-call?, call, [selector], id
	i := len(stack) - 2
	var fun ast.Expr = id
	if i >= 0 {
		if se, ok := stack[i].(*ast.SelectorExpr); ok && se.Sel == id {
			fun = se
			i--
		}
	}
	if i < 0 {
		return remergeSite{}, "used outside a call"
	}
	call, ok := stack[i].(*ast.CallExpr)
	if !ok || ast.Unparen(call.Fun) != fun {
		return remergeSite{}, "used as a value"
	}
	if call.Ellipsis.IsValid() {
		return remergeSite{}, "spread call"
	}
	i--
	if i < 1 {
		return remergeSite{}, "call outside a statement"
	}
	site := remergeSite{call: call}
	var stmt ast.Stmt
	switch x := stack[i].(type) {
	case *ast.ReturnStmt:
		if len(x.Results) != 1 || x.Results[0] != ast.Expr(call) {
			return subexprSite(stack, call)
		}
		stmt, site.kind = x, "return"
	case *ast.ExprStmt:
		stmt, site.kind = x, "expr"
	case *ast.AssignStmt:
		if len(x.Rhs) != 1 || x.Rhs[0] != ast.Expr(call) {
			return subexprSite(stack, call)
		}
		// `if x, err := H(..); err != nil { handler }` (no else) standing in a statement list: the same as the two
		// statements in a block of their own
		if i >= 2 && x.Tok == token.DEFINE {
			if ifs, isIf := stack[i-1].(*ast.IfStmt); isIf && ifs.Init == ast.Stmt(x) && ifs.Else == nil {
				var list []ast.Stmt
				switch par := stack[i-2].(type) {
				case *ast.BlockStmt:
					list = par.List
				case *ast.CaseClause:
					list = par.Body
				case *ast.CommClause:
					list = par.Body
				}
				for _, st := range list {
					if st == ast.Stmt(ifs) {
						site.kind, site.stmt = "ifinit", ifs
						for j := i - 2; j >= 0; j-- {
							switch stack[j].(type) {
							case *ast.FuncDecl, *ast.FuncLit:
								site.enclosing = stack[j]
								return site, ""
							}
						}
					}
				}
			}
		}
		switch x.Tok {
		case token.ASSIGN:
			site.kind = "assign"
		case token.DEFINE:
			site.kind = "define"
		default:
			return site, "compound assignment"
		}
		stmt = x
	case *ast.ValueSpec:
		if len(x.Values) != 1 || x.Values[0] != ast.Expr(call) || i < 2 {
			return subexprSite(stack, call)
		}
		gd, ok := stack[i-1].(*ast.GenDecl)
		if !ok || len(gd.Specs) != 1 || gd.Tok != token.VAR {
			return subexprSite(stack, call)
		}
		ds, ok := stack[i-2].(*ast.DeclStmt)
		if !ok {
			return site, "package-level initialiser"
		}
		stmt, site.kind = ds, "var"
		i -= 2
	default:
		return subexprSite(stack, call)
	}
	site.stmt = stmt
	// the statement must be an element of a statement list
	inList := false
	var list []ast.Stmt
	switch par := stack[i-1].(type) {
	case *ast.BlockStmt:
		list = par.List
	case *ast.CaseClause:
		list = par.Body
	case *ast.CommClause:
		list = par.Body
	}
	for k, s := range list {
		if s == stmt {
			inList = true
			if k+1 < len(list) {
				site.next = list[k+1]
			}
		}
	}
	if !inList {
		return subexprSite(stack, call)
	}
	for j := i - 1; j >= 0; j-- {
		switch stack[j].(type) {
		case *ast.FuncDecl, *ast.FuncLit:
			site.enclosing = stack[j]
			// a call statement that is the last statement of a function without results stands in a return position:
			// the helper's `return` is the caller's
			if site.kind == "expr" {
				var body *ast.BlockStmt
				var ftype *ast.FuncType
				switch e := stack[j].(type) {
				case *ast.FuncDecl:
					body, ftype = e.Body, e.Type
				case *ast.FuncLit:
					body, ftype = e.Body, e.Type
				}
				if body != nil && (ftype.Results == nil || len(ftype.Results.List) == 0) && len(body.List) > 0 && body.List[len(body.List)-1] == site.stmt {
					site.kind = "return"
				}
			}
			return site, ""
		}
	}
	return site, "call outside a function"
}

// namesAgree: every identifier of H's text that denotes a package-level object, an import or a predeclared name
// denotes the same thing at the call site
func namesAgree(p *packages.Package, info *types.Info, h *ast.FuncDecl, hFile *ast.File, s remergeSite) string {
	inner := p.Types.Scope().Innermost(s.call.Pos())
	if inner == nil {
		return "no scope at the call site"
	}
	bad := ""
	check := func(n ast.Node) {
		ast.Inspect(n, func(n ast.Node) bool {
			id, ok := n.(*ast.Ident)
			if !ok || id.Name == "_" {
				return true
			}
			o := info.Uses[id]
			if o == nil {
				return true
			}
			if v, isVar := o.(*types.Var); isVar && v.IsField() {
				return true
			}
			if _, isFunc := o.(*types.Func); isFunc && o.Parent() == nil {
				return true // method
			}
			outer := o.Parent() == p.Types.Scope() || o.Parent() == types.Universe
			if _, isPkg := o.(*types.PkgName); isPkg {
				outer = true
			}
			if !outer {
				return true
			}
			_, at := inner.LookupParent(id.Name, s.call.Pos())
			if at == nil {
				bad = "name " + id.Name + " is not visible at the call site"
				return true
			}
			if pn, isPkg := o.(*types.PkgName); isPkg {
				pn2, ok := at.(*types.PkgName)
				if !ok || pn2.Imported() != pn.Imported() {
					bad = "import " + id.Name + " means something else at the call site"
				}
				return true
			}
			if at != o {
				bad = "name " + id.Name + " is shadowed at the call site"
			}
			return true
		})
	}
	check(h.Body)
	k := 0
	isDirect := func() bool {
		d := k < len(s.direct) && s.direct[k]
		k++
		return d
	}
	if h.Recv != nil && len(h.Recv.List) == 1 {
		if !isDirect() {
			check(h.Recv)
		}
	}
	for _, fld := range h.Type.Params.List {
		n := len(fld.Names)
		if n == 0 {
			n = 1
		}
		for j := 0; j < n; j++ {
			if !isDirect() {
				check(fld.Type)
			}
		}
	}
	if s.kind != "return" && h.Type.Results != nil {
		check(h.Type.Results)
	}
	return bad
}

// directParameters: for each parameter (receiver first) whether the argument is a plain local variable named like the
// parameter, the helper never assigns to (or takes the address of) that parameter, and in the caller the variable is
// neither address-taken nor captured by a function literal: then the helper's text can use the caller's variable
// directly and no binding is needed
func directParameters(info *types.Info, h *ast.FuncDecl, s remergeSite) []bool {
	var params []*ast.Ident
	var args []ast.Expr
	if h.Recv != nil && len(h.Recv.List) == 1 {
		se, ok := ast.Unparen(s.call.Fun).(*ast.SelectorExpr)
		if !ok {
			return nil
		}
		if len(h.Recv.List[0].Names) == 1 {
			params = append(params, h.Recv.List[0].Names[0])
		} else {
			params = append(params, nil)
		}
		args = append(args, se.X)
	}
	for _, fld := range h.Type.Params.List {
		if len(fld.Names) == 0 {
			params = append(params, nil)
		}
		params = append(params, fld.Names...)
	}
	args = append(args, s.call.Args...)
	if len(params) != len(args) {
		return nil
	}
	var enclBody ast.Node
	switch e := s.enclosing.(type) {
	case *ast.FuncDecl:
		enclBody = e.Body
	case *ast.FuncLit:
		enclBody = e.Body
	}
	if enclBody == nil {
		return nil
	}
	mutated := func(root ast.Node, objs map[types.Object]bool, alsoCaptured bool) bool {
		bad := false
		var walk func(n ast.Node, inLit bool)
		walk = func(n ast.Node, inLit bool) {
			ast.Inspect(n, func(m ast.Node) bool {
				switch x := m.(type) {
				case *ast.FuncLit:
					if m != n {
						walk(x.Body, true)
						return false
					}
				case *ast.AssignStmt:
					for _, l := range x.Lhs {
						if id, ok := ast.Unparen(l).(*ast.Ident); ok && (objs[info.Uses[id]] || objs[info.Defs[id]]) && !alsoCaptured {
							bad = true
						}
					}
				case *ast.IncDecStmt:
					if id, ok := ast.Unparen(x.X).(*ast.Ident); ok && objs[info.Uses[id]] && !alsoCaptured {
						bad = true
					}
				case *ast.RangeStmt:
					for _, e := range []ast.Expr{x.Key, x.Value} {
						if id, ok := e.(*ast.Ident); ok && x.Tok == token.ASSIGN && objs[info.Uses[id]] && !alsoCaptured {
							bad = true
						}
					}
				case *ast.UnaryExpr:
					if id, ok := ast.Unparen(x.X).(*ast.Ident); ok && x.Op == token.AND && objs[info.Uses[id]] {
						bad = true
					}
				case *ast.Ident:
					if alsoCaptured && inLit && objs[info.Uses[x]] {
						bad = true
					}
				}
				return true
			})
		}
		walk(root, false)
		return bad
	}
	out := make([]bool, len(params))
	for i, p := range params {
		if p == nil || p.Name == "_" {
			continue
		}
		id, ok := ast.Unparen(args[i]).(*ast.Ident)
		if !ok || id.Name != p.Name {
			continue
		}
		v, ok := info.Uses[id].(*types.Var)
		if !ok || v.IsField() || v.Parent() == nil || v.Parent() == v.Pkg().Scope() {
			continue
		}
		if !types.Identical(v.Type(), info.Defs[p].Type()) {
			continue
		}
		// in a return position the caller's variable is dead after the call: the helper may as well assign to it
		if s.kind != "return" && mutated(h.Body, map[types.Object]bool{info.Defs[p]: true}, false) {
			continue
		}
		if mutated(enclBody, map[types.Object]bool{v: true}, true) {
			continue
		}
		out[i] = true
	}
	return out
}

// inlineText: the statement list that replaces the call statement
func inlineText(u *Universe, info *types.Info, h *ast.FuncDecl, hSrc []byte, s remergeSite, sSrc []byte, n int) (string, string) {
	off := func(pos token.Pos) int { return u.Fset.Position(pos).Offset }
	text := func(b []byte, from, to token.Pos) string { return string(b[off(from):off(to)]) }
	sig, _ := info.Defs[h.Name].Type().(*types.Signature)
	if sig == nil {
		return "", "no signature"
	}
	var sb strings.Builder
	// ---- parameter bindings
	var binds []string
	var earlier []string
	usesEarlier := func(e ast.Expr) bool {
		hit := false
		ast.Inspect(e, func(n ast.Node) bool {
			if id, ok := n.(*ast.Ident); ok {
				for _, p := range earlier {
					if id.Name == p {
						hit = true
					}
				}
			}
			return true
		})
		return hit
	}
	di := 0
	isDirect := func() bool {
		d := di < len(s.direct) && s.direct[di]
		di++
		return d
	}
	if h.Recv != nil && len(h.Recv.List) == 1 && isDirect() {
		// the receiver is the caller's variable of the same name
	} else if h.Recv != nil && len(h.Recv.List) == 1 {
		se, ok := ast.Unparen(s.call.Fun).(*ast.SelectorExpr)
		if !ok {
			return "", "method called through a method expression"
		}
		fld := h.Recv.List[0]
		rt := text(hSrc, fld.Type.Pos(), fld.Type.End())
		recvExpr := text(sSrc, se.X.Pos(), se.X.End())
		_, wantPtr := fld.Type.(*ast.StarExpr)
		_, havePtr := info.TypeOf(se.X).Underlying().(*types.Pointer)
		switch {
		case wantPtr && !havePtr:
			recvExpr = "&(" + recvExpr + ")"
		case !wantPtr && havePtr:
			recvExpr = "*(" + recvExpr + ")"
		}
		name := "_"
		if len(fld.Names) == 1 {
			name = fld.Names[0].Name
		}
		binds = append(binds, fmt.Sprintf("var %s %s = %s", name, rt, recvExpr))
		if name != "_" {
			binds = append(binds, "_ = "+name)
			earlier = append(earlier, name)
		}
	} else if _, isSel := ast.Unparen(s.call.Fun).(*ast.SelectorExpr); isSel {
		return "", "qualified call"
	}
	ai := 0
	for _, fld := range h.Type.Params.List {
		pt := text(hSrc, fld.Type.Pos(), fld.Type.End())
		names := fld.Names
		if len(names) == 0 {
			names = []*ast.Ident{{Name: "_"}}
		}
		for _, nm := range names {
			if ai >= len(s.call.Args) {
				return "", "argument count"
			}
			arg := s.call.Args[ai]
			ai++
			if isDirect() {
				continue
			}
			if usesEarlier(arg) {
				return "", "an argument mentions a name that a parameter binding has just redefined"
			}
			binds = append(binds, fmt.Sprintf("var %s %s = %s", nm.Name, pt, text(sSrc, arg.Pos(), arg.End())))
			if nm.Name != "_" {
				binds = append(binds, "_ = "+nm.Name)
				earlier = append(earlier, nm.Name)
			}
		}
	}
	if ai != len(s.call.Args) {
		return "", "argument count"
	}
	body := text(hSrc, h.Body.Lbrace+1, h.Body.Rbrace)
	if s.kind == "return" {
		// result types must be identical to the enclosing function's
		var encl *types.Signature
		switch e := s.enclosing.(type) {
		case *ast.FuncDecl:
			encl, _ = info.Defs[e.Name].Type().(*types.Signature)
		case *ast.FuncLit:
			encl, _ = info.TypeOf(e).(*types.Signature)
		}
		if encl == nil || encl.Results().Len() != sig.Results().Len() {
			return "", "result count differs from the caller's"
		}
		for i := 0; i < sig.Results().Len(); i++ {
			if !types.Identical(sig.Results().At(i).Type(), encl.Results().At(i).Type()) {
				return "", "result types differ from the caller's"
			}
		}
		sb.WriteString("{\n")
		for _, b := range binds {
			sb.WriteString(b + "\n")
		}
		sb.WriteString(body)
		sb.WriteString("\n}")
		return sb.String(), ""
	}
	if s.kind == "ifinit" {
		ifs := s.stmt.(*ast.IfStmt)
		plain := *ifs
		plain.Init = nil
		s2 := s
		s2.kind, s2.stmt, s2.next = "define", ifs.Init, &plain
		if txt, ok := errorHelperText(u, info, h, hSrc, s2, sSrc, binds, sig); ok {
			return "{\n" + txt + "}", ""
		}
		return "", "helper called in the header of an if and not of the error-helper shape"
	}
	// ---- `x, err := H(..)` followed by `if err != nil { handler }`: a helper whose early returns are all error exits
	if txt, ok := errorHelperText(u, info, h, hSrc, s, sSrc, binds, sig); ok {
		s.withNext = true
		return txt + "\x00withnext", ""
	}
	// ---- non-return position: only helpers whose control flow needs no translation are substituted - the body has no
	// `return` except, possibly, one as its last statement (results go to temporaries). A helper with early returns in
	// such a position would turn into correlated values after a join (result valid iff err == nil), which is exactly
	// what the per-rule helper summaries handle better on the un-merged form.
	{
		nRet, lastIsRet := 0, false
		ast.Inspect(h.Body, func(n ast.Node) bool {
			switch n.(type) {
			case *ast.FuncLit:
				return false
			case *ast.ReturnStmt:
				nRet++
			}
			return true
		})
		if k := len(h.Body.List); k > 0 {
			_, lastIsRet = h.Body.List[k-1].(*ast.ReturnStmt)
		}
		if nRet > 1 || (nRet == 1 && !lastIsRet) {
			return "", "early returns in a helper that is not called in a return position"
		}
		if nRet == 0 && sig.Results().Len() > 0 {
			return "", "helper never returns normally"
		}
	}
	label := fmt.Sprintf("znRemerge%d", n)
	var temps []string
	if sig.Results().Len() > 0 {
		if h.Type.Results == nil {
			return "", "results"
		}
		k := 0
		for _, fld := range h.Type.Results.List {
			rt := text(hSrc, fld.Type.Pos(), fld.Type.End())
			cnt := len(fld.Names)
			if cnt == 0 {
				cnt = 1
			}
			for j := 0; j < cnt; j++ {
				k++
				t := fmt.Sprintf("%sR%d", label, k)
				temps = append(temps, t)
				sb.WriteString(fmt.Sprintf("var %s %s\n", t, rt))
			}
		}
	}
	// rewrite the returns of H's body (not those of nested function literals)
	type ed struct {
		from, to int
		text     string
	}
	var eds []ed
	base := off(h.Body.Lbrace + 1)
	var walk func(n ast.Node) bool
	walk = func(n ast.Node) bool {
		switch x := n.(type) {
		case *ast.FuncLit:
			return false
		case *ast.ReturnStmt:
			t := ""
			if len(x.Results) > 0 {
				var rs []string
				for _, r := range x.Results {
					rs = append(rs, text(hSrc, r.Pos(), r.End()))
				}
				t = strings.Join(temps, ", ") + " = " + strings.Join(rs, ", ") + "\n"
			}
			eds = append(eds, ed{off(x.Pos()) - base, off(x.End()) - base, "{\n" + t + "}"})
		}
		return true
	}
	ast.Inspect(h.Body, walk)
	sort.Slice(eds, func(i, j int) bool { return eds[i].from > eds[j].from })
	bb := []byte(body)
	for _, e := range eds {
		bb = append(bb[:e.from], append([]byte(e.text), bb[e.to:]...)...)
	}
	sb.WriteString("{\n")
	for _, b := range binds {
		sb.WriteString(b + "\n")
	}
	sb.Write(bb)
	sb.WriteString("\n}\n")
	switch s.kind {
	case "expr":
		if len(temps) > 0 {
			sb.WriteString("_ = " + temps[0] + "\n")
			for _, t := range temps[1:] {
				sb.WriteString("_ = " + t + "\n")
			}
		}
	case "assign", "define":
		as := s.stmt.(*ast.AssignStmt)
		var ls []string
		for _, l := range as.Lhs {
			ls = append(ls, text(sSrc, l.Pos(), l.End()))
		}
		if len(ls) != len(temps) {
			return "", "assignment arity"
		}
		op := " = "
		if s.kind == "define" {
			op = " := "
		}
		sb.WriteString(strings.Join(ls, ", ") + op + strings.Join(temps, ", ") + "\n")
	case "var":
		ds := s.stmt.(*ast.DeclStmt)
		vs := ds.Decl.(*ast.GenDecl).Specs[0].(*ast.ValueSpec)
		var ns []string
		for _, nm := range vs.Names {
			ns = append(ns, nm.Name)
		}
		if len(ns) != len(temps) {
			return "", "declaration arity"
		}
		ty := ""
		if vs.Type != nil {
			ty = " " + text(sSrc, vs.Type.Pos(), vs.Type.End())
		}
		sb.WriteString("var " + strings.Join(ns, ", ") + ty + " = " + strings.Join(temps, ", ") + "\n")
	}
	return sb.String(), ""
}

// fixUnusedImports: an import of a rewritten file that nothing uses any more becomes a blank import
func fixUnusedImports(fset *token.FileSet, p *packages.Package, overlay map[string][]byte) bool {
	changed := false
	for _, e := range p.Errors {
		msg := e.Msg
		if !strings.Contains(msg, "imported and not used") {
			continue
		}
		// position file:line:col
		parts := strings.Split(e.Pos, ":")
		if len(parts) < 3 {
			continue
		}
		name := strings.Join(parts[:len(parts)-2], ":")
		b, ok := overlay[name]
		if !ok {
			continue
		}
		var line, col int
		fmt.Sscanf(parts[len(parts)-2], "%d", &line)
		fmt.Sscanf(parts[len(parts)-1], "%d", &col)
		// offset of line:col
		o, l := 0, 1
		for o < len(b) && l < line {
			if b[o] == '\n' {
				l++
			}
			o++
		}
		o += col - 1
		if o < len(b) && b[o] == '"' {
			nb := append([]byte{}, b[:o]...)
			nb = append(nb, []byte("_ ")...)
			nb = append(nb, b[o:]...)
			overlay[name] = nb
			changed = true
		}
	}
	return changed
}

// writeOverlayFiles stores the rewritten sources (for the compiler inventory and for inspection); returns the path of
// the go command's -overlay file
func writeOverlayFiles(dir string, repo string, overlay map[string][]byte) (string, error) {
	if err := os.MkdirAll(dir, 0o755); err != nil {
		return "", err
	}
	repl := map[string]string{}
	for name, b := range overlay {
		rel, err := filepath.Rel(repo, name)
		if err != nil {
			rel = filepath.Base(name)
		}
		dst := filepath.Join(dir, rel)
		os.MkdirAll(filepath.Dir(dst), 0o755)
		if err := os.WriteFile(dst, b, 0o644); err != nil {
			return "", err
		}
		repl[name] = dst
	}
	j, _ := json.Marshal(map[string]any{"Replace": repl})
	path := filepath.Join(dir, "overlay.json")
	return path, os.WriteFile(path, j, 0o644)
}

// subexprSite: the call is part of a larger expression; only a helper that is a single expression can be substituted
// there (decided in inlineText)
func subexprSite(stack []ast.Node, call *ast.CallExpr) (remergeSite, string) {
	site := remergeSite{call: call, kind: "subexpr"}
	for j := len(stack) - 1; j >= 0; j-- {
		switch stack[j].(type) {
		case *ast.FuncDecl, *ast.FuncLit:
			site.enclosing = stack[j]
			return site, ""
		}
	}
	return site, "call outside a function"
}

// exprText: for a helper whose body is `return <expr>` and a call whose arguments are plain names or literals: the
// expression with every parameter replaced by its argument
func exprText(u *Universe, info *types.Info, h *ast.FuncDecl, hSrc []byte, s remergeSite, sSrc []byte) (string, string) {
	if len(h.Body.List) != 1 {
		return "", "not a single-expression helper (call inside an expression)"
	}
	ret, ok := h.Body.List[0].(*ast.ReturnStmt)
	if !ok || len(ret.Results) != 1 {
		return "", "not a single-expression helper (call inside an expression)"
	}
	off := func(pos token.Pos) int { return u.Fset.Position(pos).Offset }
	var params []*ast.Ident
	var args []ast.Expr
	if h.Recv != nil && len(h.Recv.List) == 1 {
		se, ok := ast.Unparen(s.call.Fun).(*ast.SelectorExpr)
		if !ok || len(h.Recv.List[0].Names) != 1 {
			return "", "receiver"
		}
		params = append(params, h.Recv.List[0].Names[0])
		args = append(args, se.X)
	}
	for _, fld := range h.Type.Params.List {
		if len(fld.Names) == 0 {
			return "", "unnamed parameter"
		}
		params = append(params, fld.Names...)
	}
	args = append(args, s.call.Args...)
	if len(params) != len(args) {
		return "", "argument count"
	}
	argOf := map[types.Object]string{}
	for i, p := range params {
		switch a := ast.Unparen(args[i]).(type) {
		case *ast.Ident, *ast.BasicLit:
			_ = a
		default:
			return "", "an argument is not a plain name or literal (call inside an expression)"
		}
		// the argument must convert to the parameter type without changing meaning: identical types, or a constant
		if tv, ok := info.Types[args[i]]; !ok || (tv.Value == nil && !types.Identical(tv.Type, info.Defs[p].Type())) {
			return "", "argument type differs from the parameter type"
		}
		argOf[info.Defs[p]] = "(" + string(sSrc[off(args[i].Pos()):off(args[i].End())]) + ")"
	}
	// no function literal in the expression (it could capture and change a parameter)
	bad := false
	type ed struct {
		from, to int
		text     string
	}
	var eds []ed
	base := off(ret.Results[0].Pos())
	ast.Inspect(ret.Results[0], func(n ast.Node) bool {
		switch x := n.(type) {
		case *ast.FuncLit:
			bad = true
		case *ast.UnaryExpr:
			if x.Op == token.AND {
				bad = true
			}
		case *ast.Ident:
			if t, ok := argOf[info.Uses[x]]; ok {
				eds = append(eds, ed{off(x.Pos()) - base, off(x.End()) - base, t})
			}
		}
		return true
	})
	if bad {
		return "", "function literal or address-of in the helper's expression"
	}
	b := []byte(string(hSrc[base:off(ret.Results[0].End())]))
	sort.Slice(eds, func(i, j int) bool { return eds[i].from > eds[j].from })
	for _, e := range eds {
		b = append(b[:e.from], append([]byte(e.text), b[e.to:]...)...)
	}
	return "(" + string(b) + ")", ""
}

// errorHelperText: the call statement `x…, err := H(..)` (or `=`) is followed by `if err != nil { handler }` whose
// body ends the function, and H has one normal exit - its last statement `return v…, nil` - while every other return
// of H is an error exit (`return …, E` with E a call or a variable tested non-nil by the enclosing if). Then the pair
// of statements is equivalent to H's body with each error exit replaced by the handler (err bound to E) and the normal
// exit replaced by the assignment of the values: no value depends on a join, control flow is what a programmer would
// have written by hand.
func errorHelperText(u *Universe, info *types.Info, h *ast.FuncDecl, hSrc []byte, s remergeSite, sSrc []byte, binds []string, sig *types.Signature) (string, bool) {
	if s.kind != "define" && s.kind != "assign" {
		return "", false
	}
	n := sig.Results().Len()
	if n < 1 || !isErrorType(sig.Results().At(n-1).Type()) || h.Type.Results == nil {
		return "", false
	}
	as := s.stmt.(*ast.AssignStmt)
	if len(as.Lhs) != n {
		return "", false
	}
	var lhs []*ast.Ident
	for _, l := range as.Lhs {
		id, ok := l.(*ast.Ident)
		if !ok {
			return "", false
		}
		lhs = append(lhs, id)
	}
	errID := lhs[n-1]
	if errID.Name == "_" {
		return "", false
	}
	errObj := info.Defs[errID]
	if errObj == nil {
		errObj = info.Uses[errID]
	}
	// the following statement: if err != nil { …; return/panic }
	ifs, ok := s.next.(*ast.IfStmt)
	if !ok || ifs.Init != nil || ifs.Else != nil || len(ifs.Body.List) == 0 {
		return "", false
	}
	cond, ok := ifs.Cond.(*ast.BinaryExpr)
	if !ok || cond.Op != token.NEQ {
		return "", false
	}
	cx, ok1 := ast.Unparen(cond.X).(*ast.Ident)
	cy, ok2 := ast.Unparen(cond.Y).(*ast.Ident)
	if !ok1 || !ok2 || info.Uses[cx] != errObj || cy.Name != "nil" {
		return "", false
	}
	switch last := ifs.Body.List[len(ifs.Body.List)-1].(type) {
	case *ast.ReturnStmt:
	case *ast.ExprStmt:
		call, isCall := last.X.(*ast.CallExpr)
		if id, isID := call.Fun.(*ast.Ident); !isCall || !isID || id.Name != "panic" {
			return "", false
		}
	default:
		return "", false
	}
	off := func(pos token.Pos) int { return u.Fset.Position(pos).Offset }
	// ---- H's returns
	if len(h.Body.List) == 0 {
		return "", false
	}
	final, ok := h.Body.List[len(h.Body.List)-1].(*ast.ReturnStmt)
	if !ok || len(final.Results) != n {
		return "", false
	}
	if id, isID := ast.Unparen(final.Results[n-1]).(*ast.Ident); !isID || id.Name != "nil" {
		return "", false
	}
	type exit struct {
		ret *ast.ReturnStmt
	}
	var exits []exit
	okExits := true
	var stack []ast.Node
	ast.Inspect(h.Body, func(nd ast.Node) bool {
		if nd == nil {
			stack = stack[:len(stack)-1]
			return true
		}
		stack = append(stack, nd)
		switch x := nd.(type) {
		case *ast.FuncLit:
			stack = stack[:len(stack)-1]
			return false
		case *ast.ReturnStmt:
			if x == final {
				return true
			}
			if len(x.Results) != n {
				okExits = false
				return true
			}
			e := ast.Unparen(x.Results[n-1])
			nonNil := false
			switch y := e.(type) {
			case *ast.CallExpr:
				nonNil = true
			case *ast.Ident:
				// guarded by the innermost enclosing `if y != nil`
				for j := len(stack) - 2; j >= 0 && !nonNil; j-- {
					if is, isIf := stack[j].(*ast.IfStmt); isIf {
						if c, isB := is.Cond.(*ast.BinaryExpr); isB && c.Op == token.NEQ {
							a, okA := ast.Unparen(c.X).(*ast.Ident)
							b, okB := ast.Unparen(c.Y).(*ast.Ident)
							if okA && okB && b.Name == "nil" && info.Uses[a] != nil && info.Uses[a] == info.Uses[y] {
								// the return lies in the body (not the else part)
								if j+1 < len(stack) && stack[j+1] == ast.Node(is.Body) {
									nonNil = true
								}
							}
						}
						break
					}
				}
			}
			if !nonNil {
				okExits = false
			}
			exits = append(exits, exit{x})
		}
		return true
	})
	if !okExits {
		return "", false
	}
	// ---- the handler: err is replaced by a fresh name; it must not mention the other assigned variables, nor a name
	// that H declares
	declaredInH := map[string]bool{}
	ast.Inspect(h, func(nd ast.Node) bool {
		if id, ok := nd.(*ast.Ident); ok && info.Defs[id] != nil {
			declaredInH[id.Name] = true
		}
		return true
	})
	others := map[types.Object]bool{}
	for _, id := range lhs[:n-1] {
		if o := info.Defs[id]; o != nil {
			others[o] = true
		} else if o := info.Uses[id]; o != nil {
			others[o] = true
		}
	}
	fresh := fmt.Sprintf("znErr%d", off(s.call.Pos()))
	hb := off(ifs.Body.Lbrace + 1)
	handler := []byte(string(sSrc[hb:off(ifs.Body.Rbrace)]))
	type ed struct {
		from, to int
		text     string
	}
	var heds []ed
	bad := false
	ast.Inspect(ifs.Body, func(nd ast.Node) bool {
		id, ok := nd.(*ast.Ident)
		if !ok {
			return true
		}
		o := info.Uses[id]
		if o == nil {
			return true
		}
		if o == errObj {
			heds = append(heds, ed{off(id.Pos()) - hb, off(id.End()) - hb, fresh})
			return true
		}
		if others[o] {
			bad = true
		}
		if v, isVar := o.(*types.Var); isVar && v.IsField() {
			return true
		}
		if declaredInH[id.Name] {
			bad = true
		}
		return true
	})
	if bad {
		return "", false
	}
	sort.Slice(heds, func(i, j int) bool { return heds[i].from > heds[j].from })
	for _, e := range heds {
		handler = append(handler[:e.from], append([]byte(e.text), handler[e.to:]...)...)
	}
	// ---- H's body with the exits rewritten
	bb := off(h.Body.Lbrace + 1)
	body := []byte(string(hSrc[bb:off(h.Body.Rbrace)]))
	var beds []ed
	text := func(e ast.Expr) string { return string(hSrc[off(e.Pos()):off(e.End())]) }
	for _, x := range exits {
		// the other results of an error exit are evaluated for their effects only when they are calls; plain values vanish
		for _, r := range x.ret.Results[:n-1] {
			if _, isCall := ast.Unparen(r).(*ast.CallExpr); isCall {
				return "", false
			}
		}
		t := "{\nvar " + fresh + " error = " + text(x.ret.Results[n-1]) + "\n_ = " + fresh + "\n" + string(handler) + "\n}"
		beds = append(beds, ed{off(x.ret.Pos()) - bb, off(x.ret.End()) - bb, t})
	}
	// normal exit: the values go to fresh temporaries declared before the block (H's own declarations may shadow the
	// caller's names inside it); the caller's variables are assigned after the block
	var temps, vals []string
	for i := range lhs[:n-1] {
		temps = append(temps, fmt.Sprintf("znVal%d_%d", off(s.call.Pos()), i))
		vals = append(vals, text(final.Results[i]))
	}
	asg := ""
	if len(temps) > 0 {
		asg = strings.Join(temps, ", ") + " = " + strings.Join(vals, ", ")
	}
	beds = append(beds, ed{off(final.Pos()) - bb, off(final.End()) - bb, asg})
	sort.Slice(beds, func(i, j int) bool { return beds[i].from > beds[j].from })
	for _, e := range beds {
		body = append(body[:e.from], append([]byte(e.text), body[e.to:]...)...)
	}
	// ---- declarations of the temporaries
	var sb strings.Builder
	k := 0
	nilErr := fmt.Sprintf("znNil%d", off(s.call.Pos()))
	for _, fld := range h.Type.Results.List {
		rt := string(hSrc[off(fld.Type.Pos()):off(fld.Type.End())])
		cnt := len(fld.Names)
		if cnt == 0 {
			cnt = 1
		}
		for j := 0; j < cnt; j++ {
			if k < n-1 {
				sb.WriteString("var " + temps[k] + " " + rt + "\n")
			} else {
				sb.WriteString("var " + nilErr + " " + rt + "\n")
			}
			k++
		}
	}
	after := ""
	{
		var ls []string
		for _, id := range lhs {
			ls = append(ls, id.Name)
		}
		op := " = "
		if s.kind == "define" {
			op = " := "
		}
		after = strings.Join(ls, ", ") + op + strings.Join(append(append([]string{}, temps...), nilErr), ", ") + "\n"
		// the error test that followed is gone: keep every assigned name "used"
		for _, id := range lhs {
			if id.Name != "_" {
				after += "_ = " + id.Name + "\n"
			}
		}
	}
	sb.WriteString("{\n")
	for _, b := range binds {
		sb.WriteString(b + "\n")
	}
	sb.Write(body)
	sb.WriteString("\n}\n" + after)
	return sb.String(), true
}
