package main

// pe.go - table extraction from hand-written machines.
//
// The hand-written recognisers of Zn (numeric-literal DFA, backtick-escape machine, template
// scanner, directive machine, keyword trie) are loop bodies of the shape
//     switch ch { case …: switch state { case …: state = K … default: goto end } }
// To read their transition tables out of the source the checker propagates constants for the two
// discriminants (input class, state) through the body's syntax tree: a path-sensitive constant
// propagation over an acyclic statement list. Conditions on values the analysis does not know
// (results of Peek(), error values) fork the path and are recorded as assumptions of the outcome.
// Nothing of /repo is compiled or executed; the input is the type-checked AST only.

import (
	"fmt"
	"go/ast"
	"go/constant"
	"go/token"
	"go/types"
	"sort"
	"strings"
)

const (
	vUnknown = iota
	vInt
	vBool
	vStr
	vSym // symbolic integer (e.g. the rune returned by Peek())
	vNil
	vZeroStruct // a struct variable declared without initialiser: unassigned fields read as zero
	vStruct     // a struct value with tracked fields (F)
)

type Val struct {
	K   int
	I   int64
	B   bool
	S   string
	Sym string
	F   map[string]Val // vStruct: field values by field name (never mutated in place)
}

func (v Val) String() string {
	switch v.K {
	case vInt:
		return fmt.Sprint(v.I)
	case vBool:
		return fmt.Sprint(v.B)
	case vStr:
		return fmt.Sprintf("%q", v.S)
	case vSym:
		return "$" + v.Sym
	case vNil:
		return "nil"
	case vStruct:
		var ks []string
		for k := range v.F {
			ks = append(ks, k)
		}
		sort.Strings(ks)
		var sb strings.Builder
		sb.WriteString("{")
		for _, k := range ks {
			sb.WriteString(k + ":" + v.F[k].String() + ",")
		}
		return sb.String() + "}"
	}
	return "?"
}

// zeroOf: the zero value of a type as far as it is tracked (basic kinds and structs of them)
func zeroOf(t types.Type) Val {
	switch u := t.Underlying().(type) {
	case *types.Basic:
		switch {
		case u.Info()&types.IsInteger != 0:
			return intVal(0)
		case u.Info()&types.IsBoolean != 0:
			return boolVal(false)
		case u.Info()&types.IsString != 0:
			return Val{K: vStr}
		}
	case *types.Struct:
		f := map[string]Val{}
		for i := 0; i < u.NumFields(); i++ {
			f[u.Field(i).Name()] = zeroOf(u.Field(i).Type())
		}
		return Val{K: vStruct, F: f}
	case *types.Pointer, *types.Interface, *types.Slice, *types.Map, *types.Signature, *types.Chan:
		return Val{K: vNil}
	}
	return Val{}
}

func intVal(i int64) Val { return Val{K: vInt, I: i} }
func boolVal(b bool) Val { return Val{K: vBool, B: b} }

// symCons - what is known about a symbolic value
type symCons struct {
	eq  *int64
	neq map[int64]bool
}

// State of one path
type peState struct {
	env     map[types.Object]Val
	sel     map[string]Val // x.f lvalues
	cons    map[string]*symCons
	assumed []string // unknown conditions assumed on this path
	effects []string // calls with effects seen on this path (callee ids)
}

func (s *peState) clone() *peState {
	n := &peState{env: map[types.Object]Val{}, sel: map[string]Val{}, cons: map[string]*symCons{}}
	for k, v := range s.env {
		n.env[k] = v
	}
	for k, v := range s.sel {
		n.sel[k] = v
	}
	for k, v := range s.cons {
		c := &symCons{neq: map[int64]bool{}}
		if v.eq != nil {
			e := *v.eq
			c.eq = &e
		}
		for x := range v.neq {
			c.neq[x] = true
		}
		n.cons[k] = c
	}
	n.assumed = append([]string{}, s.assumed...)
	n.effects = append([]string{}, s.effects...)
	return n
}

// Outcome of executing a statement list on one path
type Outcome struct {
	Kind  string // next | continue | break | goto | return | panic
	Label string
	Ret   []ast.Expr
	RetV  []Val
	St    *peState
}

// PE - the evaluator
type PE struct {
	info *types.Info
	u    *Universe
	// oracle supplies values for calls the analysis treats as inputs (Peek(), len(x), string(buf)…)
	oracle func(pe *PE, st *peState, call *ast.CallExpr, id string) (Val, bool)
	// lists: package-level or local slice variables with constant elements (for Contains* helpers)
	fn          *ast.FuncDecl
	failed      string // set when an unsupported construct was met (extraction undecided)
	steps       int
	inlineDepth int
	// selOracle supplies values for field reads the analysis treats as inputs (e.g. expr.Type)
	selOracle func(pe *PE, st *peState, sel *ast.SelectorExpr) (Val, bool)
}

func newPE(u *Universe, info *types.Info, fn *ast.FuncDecl) *PE {
	return &PE{info: info, u: u, fn: fn}
}

func newState() *peState {
	return &peState{env: map[types.Object]Val{}, sel: map[string]Val{}, cons: map[string]*symCons{}}
}

func (pe *PE) fail(n ast.Node, msg string) {
	if pe.failed == "" {
		pe.failed = fmt.Sprintf("%s at %s", msg, pe.u.pos(n.Pos()))
	}
}

// ---- expressions

func (pe *PE) constOf(e ast.Expr) (Val, bool) {
	if tv, ok := pe.info.Types[e]; ok && tv.Value != nil {
		switch tv.Value.Kind() {
		case constant.Int:
			i, _ := constant.Int64Val(tv.Value)
			return intVal(i), true
		case constant.Bool:
			return boolVal(constant.BoolVal(tv.Value)), true
		case constant.String:
			return Val{K: vStr, S: constant.StringVal(tv.Value)}, true
		case constant.Float:
			f, _ := constant.Float64Val(tv.Value)
			if f == float64(int64(f)) {
				return intVal(int64(f)), true
			}
		}
	}
	return Val{}, false
}

func (pe *PE) eval(st *peState, e ast.Expr) Val {
	e = ast.Unparen(e)
	if v, ok := pe.constOf(e); ok {
		return v
	}
	switch x := e.(type) {
	case *ast.Ident:
		if x.Name == "nil" {
			return Val{K: vNil}
		}
		if o := pe.info.Uses[x]; o != nil {
			if v, ok := st.env[o]; ok {
				return v
			}
		}
		if o := pe.info.Defs[x]; o != nil {
			if v, ok := st.env[o]; ok {
				return v
			}
		}
		// a package-level table of rune / integer constants (never written: C16.nowrite) is a known sequence
		if v, isVar := pe.info.Uses[x].(*types.Var); isVar && v.Pkg() != nil && v.Parent() == v.Pkg().Scope() {
			if _, isSlice := v.Type().Underlying().(*types.Slice); isSlice {
				if list, ok := pe.constList(x); ok && len(list) > 0 && len(list) <= 256 {
					var sb strings.Builder
					for _, c := range list {
						sb.WriteRune(rune(c))
					}
					return Val{K: vStr, S: sb.String()}
				}
			}
		}
		return Val{}
	case *ast.SelectorExpr:
		if base, ok := ast.Unparen(x.X).(*ast.Ident); ok {
			if o := pe.info.Uses[base]; o != nil {
				if bv, ok := st.env[o]; ok && bv.K == vStruct {
					return bv.F[x.Sel.Name]
				}
			}
		}
		if v, ok := st.sel[pe.selKey(x)]; ok {
			return v
		}
		if pe.selOracle != nil {
			if v, ok := pe.selOracle(pe, st, x); ok {
				return v
			}
		}
		if base := pe.eval(st, x.X); base.K == vZeroStruct {
			if b, ok := pe.info.TypeOf(x).Underlying().(*types.Basic); ok {
				switch {
				case b.Info()&types.IsInteger != 0:
					return intVal(0)
				case b.Info()&types.IsBoolean != 0:
					return boolVal(false)
				case b.Info()&types.IsString != 0:
					return Val{K: vStr}
				}
			}
		}
		return Val{}
	case *ast.UnaryExpr:
		v := pe.eval(st, x.X)
		switch x.Op {
		case token.NOT:
			if v.K == vBool {
				return boolVal(!v.B)
			}
		case token.SUB:
			if v.K == vInt {
				return intVal(-v.I)
			}
		}
		return Val{}
	case *ast.BinaryExpr:
		l, r := pe.eval(st, x.X), pe.eval(st, x.Y)
		if l.K == vInt && r.K == vInt {
			switch x.Op {
			case token.ADD:
				return intVal(l.I + r.I)
			case token.SUB:
				return intVal(l.I - r.I)
			case token.MUL:
				return intVal(l.I * r.I)
			case token.EQL:
				return boolVal(l.I == r.I)
			case token.NEQ:
				return boolVal(l.I != r.I)
			case token.LSS:
				return boolVal(l.I < r.I)
			case token.LEQ:
				return boolVal(l.I <= r.I)
			case token.GTR:
				return boolVal(l.I > r.I)
			case token.GEQ:
				return boolVal(l.I >= r.I)
			case token.REM:
				if r.I != 0 {
					return intVal(l.I % r.I)
				}
			case token.QUO:
				if r.I != 0 {
					return intVal(l.I / r.I)
				}
			}
		}
		if l.K == vStr && r.K == vStr {
			switch x.Op {
			case token.EQL:
				return boolVal(l.S == r.S)
			case token.NEQ:
				return boolVal(l.S != r.S)
			case token.ADD:
				return Val{K: vStr, S: l.S + r.S}
			}
		}
		if l.K == vBool && r.K == vBool {
			switch x.Op {
			case token.LAND:
				return boolVal(l.B && r.B)
			case token.LOR:
				return boolVal(l.B || r.B)
			case token.EQL:
				return boolVal(l.B == r.B)
			case token.NEQ:
				return boolVal(l.B != r.B)
			}
		}
		if (l.K == vNil || r.K == vNil) && (x.Op == token.EQL || x.Op == token.NEQ) {
			if l.K == vNil && r.K == vNil {
				return boolVal(x.Op == token.EQL)
			}
			// a tracked struct value (e.g. supplied by an oracle for a pointer result) is not nil
			if l.K == vStruct || r.K == vStruct {
				return boolVal(x.Op == token.NEQ)
			}
		}
		return Val{}
	case *ast.CallExpr:
		return pe.evalCall(st, x)
	case *ast.CompositeLit:
		// []rune{…} / []int{…} of constants is tracked as a string of runes
		if _, ok := pe.info.TypeOf(x).Underlying().(*types.Slice); ok {
			var sb strings.Builder
			for _, el := range x.Elts {
				v := pe.eval(st, el)
				if v.K != vInt {
					return Val{}
				}
				sb.WriteRune(rune(v.I))
			}
			return Val{K: vStr, S: sb.String()}
		}
		if stt, ok := pe.info.TypeOf(x).Underlying().(*types.Struct); ok {
			v := zeroOf(stt)
			for i, el := range x.Elts {
				if kv, ok := el.(*ast.KeyValueExpr); ok {
					if id, ok := kv.Key.(*ast.Ident); ok {
						v.F[id.Name] = pe.eval(st, kv.Value)
					}
				} else if i < stt.NumFields() {
					v.F[stt.Field(i).Name()] = pe.eval(st, el)
				}
			}
			return v
		}
		return Val{}
	case *ast.IndexExpr:
		// constant map literal lookup, e.g. quoteMatchMap[sch]
		if isMapType(pe.info.TypeOf(x.X)) {
			k := pe.eval(st, x.Index)
			if m, ok := pe.constMap(x.X); ok && k.K == vInt {
				if v, ok := m[k.I]; ok {
					return intVal(v)
				}
				return intVal(0)
			}
		}
		// element of a known rune sequence
		if _, isSlice := pe.info.TypeOf(x.X).Underlying().(*types.Slice); isSlice {
			b, k := pe.eval(st, x.X), pe.eval(st, x.Index)
			if rs := []rune(b.S); b.K == vStr && k.K == vInt && k.I >= 0 && k.I < int64(len(rs)) && rs[k.I] != unknownRune {
				return intVal(int64(rs[k.I]))
			}
		}
		return Val{}
	case *ast.SliceExpr:
		b := pe.eval(st, x.X)
		if b.K == vStr {
			rs := []rune(b.S)
			lo, hi := int64(0), int64(len(rs))
			if x.Low != nil {
				v := pe.eval(st, x.Low)
				if v.K != vInt {
					return Val{}
				}
				lo = v.I
			}
			if x.High != nil {
				v := pe.eval(st, x.High)
				if v.K != vInt {
					return Val{}
				}
				hi = v.I
			}
			if lo < 0 || hi > int64(len(rs)) || lo > hi {
				return Val{}
			}
			return Val{K: vStr, S: string(rs[lo:hi])}
		}
		return Val{}
	}
	return Val{}
}

// constMap resolves a package-level map variable with constant integer keys and values
func (pe *PE) constMap(e ast.Expr) (map[int64]int64, bool) {
	id, ok := ast.Unparen(e).(*ast.Ident)
	if !ok {
		return nil, false
	}
	o := pe.info.Uses[id]
	if o == nil {
		return nil, false
	}
	lit := pe.findListLiteral(o)
	if lit == nil {
		return nil, false
	}
	out := map[int64]int64{}
	for _, el := range lit.Elts {
		kv, ok := el.(*ast.KeyValueExpr)
		if !ok {
			return nil, false
		}
		k, ok1 := pe.constOf(kv.Key)
		v, ok2 := pe.constOf(kv.Value)
		if !ok1 || !ok2 || k.K != vInt || v.K != vInt {
			return nil, false
		}
		out[k.I] = v.I
	}
	return out, true
}

// unknownRune marks an element of a tracked string whose value the analysis does not know
const unknownRune = '\uE000'

func (pe *PE) callID(call *ast.CallExpr) string {
	if f := calleeFunc(pe.info, call); f != nil {
		return funcID(f)
	}
	// conversions and builtins
	switch fn := ast.Unparen(call.Fun).(type) {
	case *ast.Ident:
		if _, ok := pe.info.Uses[fn].(*types.Builtin); ok {
			return "builtin." + fn.Name
		}
		if tn, ok := pe.info.Uses[fn].(*types.TypeName); ok {
			return "conv." + tn.Name()
		}
	case *ast.ArrayType:
		return "conv.slice"
	}
	if tv, ok := pe.info.Types[call.Fun]; ok && tv.IsType() {
		return "conv." + types.ExprString(call.Fun)
	}
	return ""
}

// constList resolves a slice-typed identifier to its constant elements (package-level var or a
// local `var x = []T{…}` / `x := []T{…}` of the analysed function)
func (pe *PE) constList(e ast.Expr) ([]int64, bool) {
	e = ast.Unparen(e)
	var lit *ast.CompositeLit
	switch x := e.(type) {
	case *ast.CompositeLit:
		lit = x
	case *ast.Ident:
		o := pe.info.Uses[x]
		if o == nil {
			return nil, false
		}
		lit = pe.findListLiteral(o)
	}
	if lit == nil {
		return nil, false
	}
	var out []int64
	for _, el := range lit.Elts {
		v, ok := pe.constOf(el)
		if !ok || v.K != vInt {
			return nil, false
		}
		out = append(out, v.I)
	}
	return out, true
}

func (pe *PE) findListLiteral(o types.Object) *ast.CompositeLit {
	var lit *ast.CompositeLit
	visit := func(n ast.Node) bool {
		switch x := n.(type) {
		case *ast.ValueSpec:
			for i, nm := range x.Names {
				if pe.info.Defs[nm] == o && i < len(x.Values) {
					if cl, ok := ast.Unparen(x.Values[i]).(*ast.CompositeLit); ok {
						lit = cl
					}
				}
			}
		case *ast.AssignStmt:
			if x.Tok == token.DEFINE {
				for i, l := range x.Lhs {
					if id, ok := l.(*ast.Ident); ok && pe.info.Defs[id] == o && i < len(x.Rhs) {
						if cl, ok := ast.Unparen(x.Rhs[i]).(*ast.CompositeLit); ok {
							lit = cl
						}
					}
				}
			}
		}
		return true
	}
	if pe.fn != nil {
		ast.Inspect(pe.fn, visit)
	}
	if lit == nil {
		// package level (any package of the universe)
		for _, p := range pe.u.Pkgs {
			if p.Types != o.Pkg() {
				continue
			}
			for _, f := range p.Syntax {
				for _, d := range f.Decls {
					if gd, ok := d.(*ast.GenDecl); ok {
						for _, sp := range gd.Specs {
							if vs, ok := sp.(*ast.ValueSpec); ok {
								for i, nm := range vs.Names {
									if p.TypesInfo.Defs[nm] == o && i < len(vs.Values) {
										if cl, ok := ast.Unparen(vs.Values[i]).(*ast.CompositeLit); ok {
											lit = cl
										}
									}
								}
							}
						}
					}
				}
			}
		}
	}
	return lit
}

func (pe *PE) evalCall(st *peState, call *ast.CallExpr) Val {
	id := pe.callID(call)
	if pe.oracle != nil {
		if v, ok := pe.oracle(pe, st, call, id); ok {
			return v
		}
	}
	switch id {
	case "pkg/syntax.ContainsInt", "pkg/syntax.ContainsRune", "pkg/syntax.containsRune":
		if len(call.Args) == 2 {
			x := pe.eval(st, call.Args[0])
			if list, ok := pe.constList(call.Args[1]); ok && x.K == vInt {
				for _, it := range list {
					if it == x.I {
						return boolVal(true)
					}
				}
				return boolVal(false)
			}
		}
		return Val{}
	case "conv.int", "conv.rune", "conv.uint8", "conv.int64", "conv.int32":
		if len(call.Args) == 1 {
			return pe.eval(st, call.Args[0])
		}
	case "conv.string", "conv.slice":
		if len(call.Args) == 1 {
			v := pe.eval(st, call.Args[0])
			if v.K == vStr {
				return v
			}
			if v.K == vInt && id == "conv.string" {
				return Val{K: vStr, S: string(rune(v.I))}
			}
		}
	default:
		if v, ok := pe.inlineCall(st, call); ok {
			return v
		}
	case "builtin.len":
		if len(call.Args) == 1 {
			if v := pe.eval(st, call.Args[0]); v.K == vStr {
				return intVal(int64(len([]rune(v.S))))
			}
		}
	case "builtin.append":
		if len(call.Args) >= 1 {
			base := pe.eval(st, call.Args[0])
			if base.K != vStr {
				return Val{}
			}
			out := base.S
			if call.Ellipsis.IsValid() && len(call.Args) == 2 {
				sp := pe.eval(st, call.Args[1])
				if sp.K != vStr {
					return Val{K: vStr, S: out + string(unknownRune)}
				}
				return Val{K: vStr, S: out + sp.S}
			}
			for _, a := range call.Args[1:] {
				v := pe.eval(st, a)
				if v.K == vInt {
					out += string(rune(v.I))
				} else {
					out += string(unknownRune)
				}
			}
			return Val{K: vStr, S: out}
		}
	}
	return Val{}
}

// ---- conditions (with forks)

type condRes struct {
	b  bool
	st *peState
}

func (pe *PE) symCompare(st *peState, sym string, c int64, wantEq bool) []condRes {
	cs := st.cons[sym]
	if cs == nil {
		cs = &symCons{neq: map[int64]bool{}}
	}
	if cs.eq != nil {
		return []condRes{{(*cs.eq == c) == wantEq, st}}
	}
	if cs.neq[c] {
		return []condRes{{!wantEq, st}}
	}
	// fork
	s1 := st.clone()
	c1 := s1.cons[sym]
	if c1 == nil {
		c1 = &symCons{neq: map[int64]bool{}}
		s1.cons[sym] = c1
	}
	cc := c
	c1.eq = &cc
	s2 := st.clone()
	c2 := s2.cons[sym]
	if c2 == nil {
		c2 = &symCons{neq: map[int64]bool{}}
		s2.cons[sym] = c2
	}
	c2.neq[c] = true
	return []condRes{{wantEq, s1}, {!wantEq, s2}}
}

func (pe *PE) evalCond(st *peState, e ast.Expr) []condRes {
	e = ast.Unparen(e)
	switch x := e.(type) {
	case *ast.UnaryExpr:
		if x.Op == token.NOT {
			rs := pe.evalCond(st, x.X)
			for i := range rs {
				rs[i].b = !rs[i].b
			}
			return rs
		}
	case *ast.BinaryExpr:
		switch x.Op {
		case token.LAND:
			var out []condRes
			for _, l := range pe.evalCond(st, x.X) {
				if !l.b {
					out = append(out, l)
					continue
				}
				out = append(out, pe.evalCond(l.st, x.Y)...)
			}
			return out
		case token.LOR:
			var out []condRes
			for _, l := range pe.evalCond(st, x.X) {
				if l.b {
					out = append(out, l)
					continue
				}
				out = append(out, pe.evalCond(l.st, x.Y)...)
			}
			return out
		case token.EQL, token.NEQ:
			l, r := pe.eval(st, x.X), pe.eval(st, x.Y)
			if l.K == vSym && r.K == vInt {
				return pe.symCompare(st, l.Sym, r.I, x.Op == token.EQL)
			}
			if r.K == vSym && l.K == vInt {
				return pe.symCompare(st, r.Sym, l.I, x.Op == token.EQL)
			}
		}
	}
	v := pe.eval(st, e)
	if v.K == vBool {
		return []condRes{{v.B, st}}
	}
	// unknown condition: fork, record the assumption (text independent of local names)
	txt := pe.normText(st, e)
	s1, s2 := st.clone(), st.clone()
	s1.assumed = append(s1.assumed, txt)
	s2.assumed = append(s2.assumed, "!("+txt+")")
	return []condRes{{true, s1}, {false, s2}}
}

// ---- statements

func (pe *PE) assign(st *peState, lhs ast.Expr, v Val) {
	lhs = ast.Unparen(lhs)
	switch x := lhs.(type) {
	case *ast.Ident:
		if x.Name == "_" {
			return
		}
		o := pe.info.Defs[x]
		if o == nil {
			o = pe.info.Uses[x]
		}
		if o != nil {
			st.env[o] = v
		}
	case *ast.SelectorExpr:
		if base, ok := ast.Unparen(x.X).(*ast.Ident); ok {
			if o := pe.info.Uses[base]; o != nil {
				if bv, ok := st.env[o]; ok && bv.K == vStruct {
					f := map[string]Val{}
					for k, fv := range bv.F {
						f[k] = fv
					}
					f[x.Sel.Name] = v
					st.env[o] = Val{K: vStruct, F: f}
					return
				}
			}
		}
		st.sel[pe.selKey(x)] = v
	}
}

func (pe *PE) exec(st *peState, list []ast.Stmt) []Outcome {
	if len(list) == 0 {
		return []Outcome{{Kind: "next", St: st}}
	}
	var out []Outcome
	for _, o := range pe.execStmt(st, list[0]) {
		if o.Kind == "next" {
			out = append(out, pe.exec(o.St, list[1:])...)
		} else {
			out = append(out, o)
		}
	}
	return out
}

func (pe *PE) execStmt(st *peState, s ast.Stmt) []Outcome {
	pe.steps++
	if pe.steps > 2_000_000 {
		pe.fail(s, "path explosion")
		return nil
	}
	next := func(s *peState) []Outcome { return []Outcome{{Kind: "next", St: s}} }
	switch x := s.(type) {
	case *ast.BlockStmt:
		return pe.exec(st, x.List)
	case *ast.EmptyStmt:
		return next(st)
	case *ast.DeclStmt:
		if gd, ok := x.Decl.(*ast.GenDecl); ok {
			for _, sp := range gd.Specs {
				if vs, ok := sp.(*ast.ValueSpec); ok {
					for i, nm := range vs.Names {
						if i < len(vs.Values) {
							pe.assign(st, nm, pe.eval(st, vs.Values[i]))
						} else {
							// zero value
							if t := pe.info.TypeOf(nm); t != nil {
								if _, ok := t.Underlying().(*types.Struct); ok {
									pe.assign(st, nm, Val{K: vZeroStruct})
								}
								if b, ok := t.Underlying().(*types.Basic); ok {
									switch {
									case b.Info()&types.IsInteger != 0:
										pe.assign(st, nm, intVal(0))
									case b.Info()&types.IsBoolean != 0:
										pe.assign(st, nm, boolVal(false))
									case b.Info()&types.IsString != 0:
										pe.assign(st, nm, Val{K: vStr})
									}
								}
							}
						}
					}
				}
			}
		}
		return next(st)
	case *ast.LabeledStmt:
		return pe.execStmt(st, x.Stmt)
	case *ast.ExprStmt:
		if call, ok := ast.Unparen(x.X).(*ast.CallExpr); ok {
			id := pe.callID(call)
			if id == "builtin.panic" {
				return []Outcome{{Kind: "panic", St: st, Ret: call.Args}}
			}
			st.effects = append(st.effects, id)
			pe.evalCall(st, call) // let the oracle observe it (e.g. l.Next())
		}
		return next(st)
	case *ast.IncDecStmt:
		v := pe.eval(st, x.X)
		if v.K == vInt {
			if x.Tok == token.INC {
				pe.assign(st, x.X, intVal(v.I+1))
			} else {
				pe.assign(st, x.X, intVal(v.I-1))
			}
		} else {
			pe.assign(st, x.X, Val{})
		}
		return next(st)
	case *ast.AssignStmt:
		switch x.Tok {
		case token.ASSIGN, token.DEFINE:
			if len(x.Lhs) == len(x.Rhs) {
				vals := make([]Val, len(x.Rhs))
				for i, r := range x.Rhs {
					vals[i] = pe.eval(st, r)
					if call, ok := ast.Unparen(r).(*ast.CallExpr); ok {
						st.effects = append(st.effects, pe.callID(call))
					}
				}
				for i, l := range x.Lhs {
					pe.assign(st, l, vals[i])
				}
			} else {
				// tuple assignment from a helper of the package that yields its results on a single path
				if call, ok := ast.Unparen(x.Rhs[0]).(*ast.CallExpr); ok && len(x.Rhs) == 1 {
					if vals, ok := pe.inlineCallN(st, call); ok && len(vals) == len(x.Lhs) {
						st.effects = append(st.effects, pe.callID(call))
						for i, l := range x.Lhs {
							pe.assign(st, l, vals[i])
						}
						return next(st)
					}
				}
				// tuple assignment from a call: all unknown (oracle may have observed the call)
				for _, r := range x.Rhs {
					if call, ok := ast.Unparen(r).(*ast.CallExpr); ok {
						st.effects = append(st.effects, pe.callID(call))
						pe.evalCall(st, call)
					}
				}
				for _, l := range x.Lhs {
					pe.assign(st, l, Val{})
				}
			}
		case token.ADD_ASSIGN, token.SUB_ASSIGN:
			l, r := pe.eval(st, x.Lhs[0]), pe.eval(st, x.Rhs[0])
			if l.K == vInt && r.K == vInt {
				if x.Tok == token.ADD_ASSIGN {
					pe.assign(st, x.Lhs[0], intVal(l.I+r.I))
				} else {
					pe.assign(st, x.Lhs[0], intVal(l.I-r.I))
				}
			} else if l.K == vStr && r.K == vStr && x.Tok == token.ADD_ASSIGN {
				pe.assign(st, x.Lhs[0], Val{K: vStr, S: l.S + r.S})
			} else {
				pe.assign(st, x.Lhs[0], Val{})
			}
		default:
			pe.assign(st, x.Lhs[0], Val{})
		}
		return next(st)
	case *ast.IfStmt:
		var out []Outcome
		starts := []*peState{st}
		if x.Init != nil {
			starts = nil
			for _, o := range pe.execStmt(st, x.Init) {
				if o.Kind == "next" {
					starts = append(starts, o.St)
				} else {
					out = append(out, o)
				}
			}
		}
		for _, s0 := range starts {
			for _, c := range pe.evalCond(s0, x.Cond) {
				if c.b {
					out = append(out, pe.exec(c.st, x.Body.List)...)
				} else if x.Else != nil {
					out = append(out, pe.execStmt(c.st, x.Else)...)
				} else {
					out = append(out, Outcome{Kind: "next", St: c.st})
				}
			}
		}
		return out
	case *ast.SwitchStmt:
		return pe.execSwitch(st, x)
	case *ast.BranchStmt:
		switch x.Tok {
		case token.GOTO:
			return []Outcome{{Kind: "goto", Label: x.Label.Name, St: st}}
		case token.CONTINUE:
			lb := ""
			if x.Label != nil {
				lb = x.Label.Name
			}
			return []Outcome{{Kind: "continue", Label: lb, St: st}}
		case token.BREAK:
			lb := ""
			if x.Label != nil {
				lb = x.Label.Name
			}
			return []Outcome{{Kind: "break", Label: lb, St: st}}
		}
		pe.fail(x, "fallthrough is not supported by the extractor")
		return nil
	case *ast.ReturnStmt:
		o := Outcome{Kind: "return", St: st, Ret: x.Results}
		for _, r := range x.Results {
			o.RetV = append(o.RetV, pe.eval(st, r))
		}
		return []Outcome{o}
	case *ast.ForStmt:
		return pe.execFor(st, x)
	case *ast.RangeStmt:
		// over a known text: one pass per character
		seq := pe.eval(st, x.X)
		if seq.K == 0 {
			// a package-level table of constants
			if list, ok := pe.constList(x.X); ok {
				var sb strings.Builder
				for _, v := range list {
					sb.WriteRune(rune(v))
				}
				seq = Val{K: vStr, S: sb.String()}
			}
		}
		if seq.K == vStr && !strings.ContainsRune(seq.S, unknownRune) && len(seq.S) <= 256 {
			_, isString := pe.info.TypeOf(x.X).Underlying().(*types.Basic)
			var out []Outcome
			cur := []*peState{st}
			n := 0
			for off, ch := range seq.S {
				idx := int64(n)
				if isString {
					idx = int64(off)
				}
				n++
				var nextCur []*peState
				for _, s0 := range cur {
					if x.Key != nil {
						pe.assign(s0, x.Key, intVal(idx))
					}
					if x.Value != nil {
						pe.assign(s0, x.Value, intVal(int64(ch)))
					}
					for _, o := range pe.exec(s0, x.Body.List) {
						switch {
						case o.Kind == "next" || (o.Kind == "continue" && o.Label == ""):
							nextCur = append(nextCur, o.St)
						case o.Kind == "break" && o.Label == "":
							out = append(out, Outcome{Kind: "next", St: o.St})
						default:
							out = append(out, o)
						}
					}
				}
				cur = nextCur
			}
			for _, s0 := range cur {
				out = append(out, Outcome{Kind: "next", St: s0})
			}
			return out
		}
		// a nested range loop inside a machine body: havoc what it assigns
		pe.havoc(st, x.Body)
		return next(st)
	}
	pe.fail(s, fmt.Sprintf("statement %T is not supported by the extractor", s))
	return nil
}

func (pe *PE) havoc(st *peState, n ast.Node) {
	ast.Inspect(n, func(n ast.Node) bool {
		switch x := n.(type) {
		case *ast.AssignStmt:
			for _, l := range x.Lhs {
				pe.assign(st, l, Val{})
			}
		case *ast.IncDecStmt:
			pe.assign(st, x.X, Val{})
		case *ast.CallExpr:
			st.effects = append(st.effects, pe.callID(x))
		}
		return true
	})
}

// execFor unrolls small counted loops with known bounds, otherwise havocs
func (pe *PE) execFor(st *peState, x *ast.ForStmt) []Outcome {
	cur := []*peState{st}
	var out []Outcome
	if x.Init != nil {
		cur = nil
		for _, o := range pe.execStmt(st, x.Init) {
			if o.Kind == "next" {
				cur = append(cur, o.St)
			}
		}
	}
	for iter := 0; iter < 64 && len(cur) > 0; iter++ {
		var nextCur []*peState
		for _, s0 := range cur {
			if x.Cond == nil {
				pe.havoc(s0, x.Body)
				out = append(out, Outcome{Kind: "next", St: s0})
				continue
			}
			v := pe.eval(s0, x.Cond)
			if v.K != vBool {
				pe.havoc(s0, x.Body)
				out = append(out, Outcome{Kind: "next", St: s0})
				continue
			}
			if !v.B {
				out = append(out, Outcome{Kind: "next", St: s0})
				continue
			}
			for _, o := range pe.exec(s0, x.Body.List) {
				switch o.Kind {
				case "next", "continue":
					s1 := o.St
					if x.Post != nil {
						for _, p := range pe.execStmt(s1, x.Post) {
							nextCur = append(nextCur, p.St)
						}
					} else {
						nextCur = append(nextCur, s1)
					}
				case "break":
					out = append(out, Outcome{Kind: "next", St: o.St})
				default:
					out = append(out, o)
				}
			}
		}
		cur = nextCur
	}
	for _, s0 := range cur {
		pe.havoc(s0, x.Body)
		out = append(out, Outcome{Kind: "next", St: s0})
	}
	return out
}

func (pe *PE) execSwitch(st *peState, x *ast.SwitchStmt) []Outcome {
	var out []Outcome
	starts := []*peState{st}
	if x.Init != nil {
		starts = nil
		for _, o := range pe.execStmt(st, x.Init) {
			if o.Kind == "next" {
				starts = append(starts, o.St)
			} else {
				out = append(out, o)
			}
		}
	}
	finish := func(os []Outcome) {
		for _, o := range os {
			if o.Kind == "break" && o.Label == "" {
				o.Kind = "next"
			}
			out = append(out, o)
		}
	}
	for _, s0 := range starts {
		// pending: states for which no earlier case matched
		pending := []*peState{s0}
		var deflt *ast.CaseClause
		for _, cc := range x.Body.List {
			cl := cc.(*ast.CaseClause)
			if cl.List == nil {
				deflt = cl
				continue
			}
			var still []*peState
			for _, ps := range pending {
				// evaluate "tag == e1 || tag == e2 …" with forks
				matched, unmatched := pe.caseMatch(ps, x.Tag, cl.List)
				for _, m := range matched {
					finish(pe.exec(m, cl.Body))
				}
				still = append(still, unmatched...)
			}
			pending = still
		}
		for _, ps := range pending {
			if deflt != nil {
				finish(pe.exec(ps, deflt.Body))
			} else {
				out = append(out, Outcome{Kind: "next", St: ps})
			}
		}
	}
	return out
}

// caseMatch splits a state into the sub-states matching one of the case expressions and the rest
func (pe *PE) caseMatch(st *peState, tag ast.Expr, list []ast.Expr) (matched, unmatched []*peState) {
	rest := []*peState{st}
	for _, ce := range list {
		var nextRest []*peState
		for _, rs := range rest {
			var res []condRes
			if tag == nil {
				res = pe.evalCond(rs, ce)
			} else {
				tv, cv := pe.eval(rs, tag), pe.eval(rs, ce)
				switch {
				case tv.K == vInt && cv.K == vInt:
					res = []condRes{{tv.I == cv.I, rs}}
				case tv.K == vStr && cv.K == vStr:
					res = []condRes{{tv.S == cv.S, rs}}
				case tv.K == vBool && cv.K == vBool:
					res = []condRes{{tv.B == cv.B, rs}}
				case tv.K == vSym && cv.K == vInt:
					res = pe.symCompare(rs, tv.Sym, cv.I, true)
				default:
					txt := pe.normText(rs, tag) + " == " + pe.normText(rs, ce)
					s1, s2 := rs.clone(), rs.clone()
					s1.assumed = append(s1.assumed, txt)
					s2.assumed = append(s2.assumed, "!("+txt+")")
					res = []condRes{{true, s1}, {false, s2}}
				}
			}
			for _, r := range res {
				if r.b {
					matched = append(matched, r.st)
				} else {
					nextRest = append(nextRest, r.st)
				}
			}
		}
		rest = nextRest
	}
	return matched, rest
}

// ---- helpers for machine checks

// findLocal finds a local variable or constant object of fn by name
func findLocal(info *types.Info, fn *ast.FuncDecl, name string) types.Object {
	var res types.Object
	ast.Inspect(fn, func(n ast.Node) bool {
		if id, ok := n.(*ast.Ident); ok && id.Name == name {
			if o := info.Defs[id]; o != nil && res == nil {
				res = o
			}
		}
		return true
	})
	return res
}

// localIntConsts returns the integer constants declared inside fn (name -> value)
func localIntConsts(info *types.Info, fn *ast.FuncDecl) map[string]int64 {
	out := map[string]int64{}
	ast.Inspect(fn, func(n ast.Node) bool {
		if id, ok := n.(*ast.Ident); ok {
			if c, ok := info.Defs[id].(*types.Const); ok && c.Val().Kind() == constant.Int {
				v, _ := constant.Int64Val(c.Val())
				out[id.Name] = v
			}
		}
		return true
	})
	return out
}

func invert(m map[string]int64) map[int64]string {
	out := map[int64]string{}
	ks := sortedKeys(m)
	for _, k := range ks {
		if _, dup := out[m[k]]; !dup {
			out[m[k]] = k
		}
	}
	return out
}

// findLoopBody returns the body of the first for/range loop of fn that contains a switch statement
// (the machine's main loop), and the statements following a given label
func findMachineLoop(fn *ast.FuncDecl) (body *ast.BlockStmt, loop ast.Stmt) {
	ast.Inspect(fn.Body, func(n ast.Node) bool {
		if body != nil {
			return false
		}
		var b *ast.BlockStmt
		switch x := n.(type) {
		case *ast.ForStmt:
			b = x.Body
		case *ast.RangeStmt:
			b = x.Body
		default:
			return true
		}
		has := false
		ast.Inspect(b, func(m ast.Node) bool {
			if _, ok := m.(*ast.SwitchStmt); ok {
				has = true
			}
			return true
		})
		if has {
			body, loop = b, n.(ast.Stmt)
			return false
		}
		return true
	})
	return
}

// stmtsAfterLabel returns the labeled statement and everything after it in the function body
// stmtsAfterLabel: the statements from the top-level label onwards; label "" = the first top-level label that a
// goto of the function targets (label names are not relied upon)
func stmtsAfterLabel(fn *ast.FuncDecl, label string) []ast.Stmt {
	if label == "" {
		label = exitLabelOf(fn)
	}
	for i, s := range fn.Body.List {
		if ls, ok := s.(*ast.LabeledStmt); ok && label != "" && ls.Label.Name == label {
			return append([]ast.Stmt{ls.Stmt}, fn.Body.List[i+1:]...)
		}
	}
	return nil
}

// exitLabelOf: the first top-level label of the function that a goto targets
func exitLabelOf(fn *ast.FuncDecl) string {
	label := ""
	{
		targets := map[string]bool{}
		ast.Inspect(fn, func(n ast.Node) bool {
			if b, ok := n.(*ast.BranchStmt); ok && b.Tok == token.GOTO && b.Label != nil {
				targets[b.Label.Name] = true
			}
			return true
		})
		for _, s := range fn.Body.List {
			if ls, ok := s.(*ast.LabeledStmt); ok && targets[ls.Label.Name] {
				label = ls.Label.Name
				break
			}
		}
	}
	return label
}

func outcomeKey(o Outcome) string {
	k := o.Kind
	if o.Label != "" {
		k += ":" + o.Label
	}
	return k
}

func uniqSorted(s []string) []string {
	m := map[string]bool{}
	for _, x := range s {
		m[x] = true
	}
	var out []string
	for x := range m {
		out = append(out, x)
	}
	sort.Strings(out)
	return out
}

func joinAssumed(st *peState) string { return strings.Join(st.assumed, " && ") }

// inlineCall evaluates a call of a plain function of the analysed package (a helper split off the analysed
// function) on the argument values: the helper must return exactly one value on a single path
func (pe *PE) inlineCall(st *peState, call *ast.CallExpr) (Val, bool) {
	vals, ok := pe.inlineCallN(st, call)
	if !ok || len(vals) != 1 || vals[0].K == 0 {
		return Val{}, false
	}
	return vals[0], true
}

// inlineCallN: the same for any number of results
func (pe *PE) inlineCallN(st *peState, call *ast.CallExpr) ([]Val, bool) {
	f := calleeFunc(pe.info, call)
	if f == nil || f.Pkg() == nil || pe.inlineDepth >= 3 {
		return nil, false
	}
	sig, _ := f.Type().(*types.Signature)
	if sig == nil || sig.Recv() != nil || sig.Results().Len() == 0 || sig.Variadic() {
		return nil, false
	}
	var fd *ast.FuncDecl
	for _, p := range pe.u.Pkgs {
		if p.Types != f.Pkg() || p.TypesInfo != pe.info {
			continue
		}
		for _, file := range p.Syntax {
			for _, d := range file.Decls {
				if x, ok := d.(*ast.FuncDecl); ok && p.TypesInfo.Defs[x.Name] == types.Object(f) {
					fd = x
				}
			}
		}
	}
	if fd == nil || fd.Body == nil {
		return nil, false
	}
	st2 := newState()
	i := 0
	for _, fld := range fd.Type.Params.List {
		for _, nm := range fld.Names {
			if i < len(call.Args) {
				if o := pe.info.Defs[nm]; o != nil {
					st2.env[o] = pe.eval(st, call.Args[i])
				}
			}
			i++
		}
	}
	savedFailed, savedOracle := pe.failed, pe.oracle
	pe.inlineDepth++
	outs := pe.exec(st2, fd.Body.List)
	pe.inlineDepth--
	failed := pe.failed != savedFailed
	pe.failed, pe.oracle = savedFailed, savedOracle
	if failed || len(outs) != 1 || outs[0].Kind != "return" || len(outs[0].RetV) != sig.Results().Len() {
		return nil, false
	}
	known := false
	for _, v := range outs[0].RetV {
		if v.K != 0 {
			known = true
		}
	}
	return outs[0].RetV, known
}

// ---- name-independent identification of locals (roles)

// originField follows an expression back through the single definitions of local variables (assignments,
// type assertions, call arguments) until a field selector named one of names is met; "" if none
func originField(info *types.Info, fn *ast.FuncDecl, e ast.Expr, names ...string) string {
	seen := map[types.Object]bool{}
	var walk func(e ast.Expr, depth int) string
	walk = func(e ast.Expr, depth int) string {
		if e == nil || depth > 8 {
			return ""
		}
		res := ""
		ast.Inspect(e, func(n ast.Node) bool {
			if res != "" {
				return false
			}
			switch x := n.(type) {
			case *ast.SelectorExpr:
				for _, nm := range names {
					if astFieldName(info, x.Sel) == nm {
						res = nm
						return false
					}
				}
			case *ast.Ident:
				o := info.Uses[x]
				if o == nil || seen[o] {
					return true
				}
				if v, ok := o.(*types.Var); !ok || v.IsField() {
					return true
				}
				seen[o] = true
				for _, rhs := range definitionsOf(info, fn, o) {
					if r := walk(rhs, depth+1); r != "" {
						res = r
						return false
					}
				}
			}
			return true
		})
		return res
	}
	return walk(e, 0)
}

// definitionsOf lists the right-hand sides assigned to local object o in fn
func definitionsOf(info *types.Info, fn *ast.FuncDecl, o types.Object) []ast.Expr {
	var out []ast.Expr
	ast.Inspect(fn, func(n ast.Node) bool {
		switch x := n.(type) {
		case *ast.AssignStmt:
			for i, l := range x.Lhs {
				if identObj(info, l) != o {
					continue
				}
				if len(x.Rhs) == len(x.Lhs) {
					out = append(out, x.Rhs[i])
				} else if len(x.Rhs) == 1 {
					out = append(out, x.Rhs[0])
				}
			}
		case *ast.ValueSpec:
			for i, nm := range x.Names {
				if info.Defs[nm] == o {
					if i < len(x.Values) {
						out = append(out, x.Values[i])
					} else if len(x.Values) == 1 {
						out = append(out, x.Values[0])
					}
				}
			}
		case *ast.RangeStmt:
			if identObj(info, x.Key) == o || (x.Value != nil && identObj(info, x.Value) == o) {
				out = append(out, x.X)
			}
		}
		return true
	})
	return out
}

// localsInOrder lists the local variables of fn (parameters and results included) in declaration order
func localsInOrder(info *types.Info, fn *ast.FuncDecl) []*types.Var {
	var out []*types.Var
	seen := map[types.Object]bool{}
	ast.Inspect(fn, func(n ast.Node) bool {
		if id, ok := n.(*ast.Ident); ok {
			if v, ok := info.Defs[id].(*types.Var); ok && !v.IsField() && !seen[v] {
				seen[v] = true
				out = append(out, v)
			}
		}
		return true
	})
	return out
}

// switchTagVars: local variables used as the tag of a switch statement inside node, outermost first
func switchTagVars(info *types.Info, node ast.Node) []types.Object {
	var out []types.Object
	ast.Inspect(node, func(n ast.Node) bool {
		if sw, ok := n.(*ast.SwitchStmt); ok && sw.Tag != nil {
			if o := identObj(info, sw.Tag); o != nil {
				dup := false
				for _, x := range out {
					if x == o {
						dup = true
					}
				}
				if !dup {
					out = append(out, o)
				}
			}
		}
		return true
	})
	return out
}

// assignedOnlyLocalConsts: local int variables every assignment of which (inside node) stores a local constant
func stateLikeVars(info *types.Info, fn *ast.FuncDecl) []types.Object {
	consts := map[types.Object]bool{}
	ast.Inspect(fn, func(n ast.Node) bool {
		if id, ok := n.(*ast.Ident); ok {
			if c, ok := info.Defs[id].(*types.Const); ok {
				consts[c] = true
			}
		}
		return true
	})
	return constAssignedVars(info, fn, func(c types.Object) bool { return consts[c] })
}

// constAssignedVars: local variables every assignment of which stores a named constant accepted by isConst
// (at least two such assignments), in order of first assignment
func constAssignedVars(info *types.Info, fn *ast.FuncDecl, isConst func(types.Object) bool) []types.Object {
	consts := map[types.Object]bool{}
	ast.Inspect(fn, func(n ast.Node) bool {
		if id, ok := n.(*ast.Ident); ok {
			if c, ok := info.Uses[id].(*types.Const); ok && isConst(c) {
				consts[c] = true
			}
			if c, ok := info.Defs[id].(*types.Const); ok && isConst(c) {
				consts[c] = true
			}
		}
		return true
	})
	count := map[types.Object]int{}
	bad := map[types.Object]bool{}
	var order []types.Object
	note := func(l ast.Expr, r ast.Expr) {
		o := identObj(info, l)
		v, ok := o.(*types.Var)
		if !ok || v.IsField() {
			return
		}
		if ro := identObj(info, r); ro != nil && consts[ro] {
			if count[o] == 0 {
				order = append(order, o)
			}
			count[o]++
			return
		}
		bad[o] = true
	}
	ast.Inspect(fn, func(n ast.Node) bool {
		switch x := n.(type) {
		case *ast.AssignStmt:
			if len(x.Lhs) == len(x.Rhs) {
				for i := range x.Lhs {
					note(x.Lhs[i], x.Rhs[i])
				}
			}
		case *ast.ValueSpec:
			for i, nm := range x.Names {
				if i < len(x.Values) {
					note(nm, x.Values[i])
				}
			}
		case *ast.IncDecStmt:
			if o := identObj(info, x.X); o != nil {
				bad[o] = true
			}
		}
		return true
	})
	var out []types.Object
	for _, o := range order {
		if !bad[o] && count[o] >= 2 {
			out = append(out, o)
		}
	}
	return out
}

// counterVars: local integer variables that node increments (x++, x += 1, x = x + 1), in order of appearance
func counterVars(info *types.Info, node ast.Node) []types.Object {
	var out []types.Object
	add := func(o types.Object) {
		if o == nil {
			return
		}
		if v, ok := o.(*types.Var); !ok || v.IsField() {
			return
		}
		for _, x := range out {
			if x == o {
				return
			}
		}
		out = append(out, o)
	}
	ast.Inspect(node, func(n ast.Node) bool {
		switch x := n.(type) {
		case *ast.IncDecStmt:
			if x.Tok == token.INC {
				add(identObj(info, x.X))
			}
		case *ast.AssignStmt:
			if x.Tok == token.ADD_ASSIGN && len(x.Lhs) == 1 {
				if v, ok := constInt(info, x.Rhs[0]); ok && v == 1 {
					add(identObj(info, x.Lhs[0]))
				}
			}
			if x.Tok == token.ASSIGN && len(x.Lhs) == 1 && len(x.Rhs) == 1 {
				if be, ok := ast.Unparen(x.Rhs[0]).(*ast.BinaryExpr); ok && be.Op == token.ADD {
					if identObj(info, be.X) != nil && identObj(info, be.X) == identObj(info, x.Lhs[0]) {
						if v, ok := constInt(info, be.Y); ok && v == 1 {
							add(identObj(info, x.Lhs[0]))
						}
					}
				}
			}
		}
		return true
	})
	return out
}

// normText renders an expression with every local variable replaced by its symbolic value ($p1) or its type
// ($error, $rune): assumption texts do not depend on what locals are called
func (pe *PE) normText(st *peState, e ast.Expr) string {
	var cp func(e ast.Expr) ast.Expr
	cp = func(e ast.Expr) ast.Expr {
		switch x := e.(type) {
		case *ast.Ident:
			o := pe.info.Uses[x]
			if o == nil {
				o = pe.info.Defs[x]
			}
			if v, ok := o.(*types.Var); ok && !v.IsField() && v.Parent() != nil && v.Pkg() != nil && v.Parent() != v.Pkg().Scope() {
				if val, has := st.env[o]; has && val.K == vSym {
					return &ast.Ident{Name: "$" + val.Sym}
				}
				return &ast.Ident{Name: "$" + typeShort(v.Type())}
			}
			return x
		case *ast.SelectorExpr:
			return &ast.SelectorExpr{X: cp(x.X), Sel: x.Sel}
		case *ast.IndexExpr:
			return &ast.IndexExpr{X: cp(x.X), Index: cp(x.Index)}
		case *ast.BinaryExpr:
			return &ast.BinaryExpr{X: cp(x.X), Op: x.Op, Y: cp(x.Y)}
		case *ast.UnaryExpr:
			return &ast.UnaryExpr{Op: x.Op, X: cp(x.X)}
		case *ast.ParenExpr:
			return cp(x.X)
		case *ast.StarExpr:
			return &ast.StarExpr{X: cp(x.X)}
		case *ast.CallExpr:
			n := &ast.CallExpr{Fun: cp(x.Fun)}
			for _, a := range x.Args {
				n.Args = append(n.Args, cp(a))
			}
			return n
		}
		return e
	}
	return types.ExprString(cp(e))
}

// selfAppendedLocal: the single local slice variable that node extends with x = append(x, …) (nil if none or several)
func selfAppendedLocal(info *types.Info, node ast.Node) types.Object {
	var res types.Object
	multi := false
	ast.Inspect(node, func(n ast.Node) bool {
		as, ok := n.(*ast.AssignStmt)
		if !ok || len(as.Lhs) != 1 || len(as.Rhs) != 1 {
			return true
		}
		call, ok := as.Rhs[0].(*ast.CallExpr)
		if !ok || len(call.Args) < 1 {
			return true
		}
		id, _ := ast.Unparen(call.Fun).(*ast.Ident)
		if id == nil {
			return true
		}
		if bi, isB := info.Uses[id].(*types.Builtin); !isB || bi.Name() != "append" {
			return true
		}
		o := identObj(info, as.Lhs[0])
		if v, ok := o.(*types.Var); !ok || v.IsField() || o != identObj(info, call.Args[0]) {
			return true
		}
		if res == nil {
			res = o
		} else if res != o {
			multi = true
		}
		return true
	})
	if multi {
		return nil
	}
	return res
}

// selKey: the key under which a selector lvalue is tracked; the field is named by its listed name
func (pe *PE) selKey(x *ast.SelectorExpr) string {
	return types.ExprString(x.X) + "." + astFieldName(pe.info, x.Sel)
}

// elementLoop: the loop visits the elements of a sequence one by one, front to back: `for _, ch := range X` or its
// index form `for i := 0; i < len(X); i++ { ch := X[i]; … }` (i not assigned in the body). Returns the body without
// the element binding, and the element variable.
func elementLoop(info *types.Info, loop ast.Stmt) (*ast.BlockStmt, types.Object) {
	switch x := loop.(type) {
	case *ast.RangeStmt:
		if x.Value == nil {
			return nil, nil
		}
		return x.Body, identObj(info, x.Value)
	case *ast.ForStmt:
		init, ok := x.Init.(*ast.AssignStmt)
		if !ok || init.Tok != token.DEFINE || len(init.Lhs) != 1 || len(init.Rhs) != 1 {
			return nil, nil
		}
		iObj := identObj(info, init.Lhs[0])
		if v := constVal(info, init.Rhs[0]); iObj == nil || v == nil || v.String() != "0" {
			return nil, nil
		}
		cond, ok := x.Cond.(*ast.BinaryExpr)
		if !ok || cond.Op != token.LSS || identObj(info, cond.X) != iObj {
			return nil, nil
		}
		lenCall, ok := ast.Unparen(cond.Y).(*ast.CallExpr)
		if !ok || len(lenCall.Args) != 1 {
			return nil, nil
		}
		if id, ok := lenCall.Fun.(*ast.Ident); !ok || id.Name != "len" {
			return nil, nil
		}
		seq := types.ExprString(lenCall.Args[0])
		post, ok := x.Post.(*ast.IncDecStmt)
		if !ok || post.Tok != token.INC || identObj(info, post.X) != iObj {
			return nil, nil
		}
		if len(x.Body.List) == 0 {
			return nil, nil
		}
		bind, ok := x.Body.List[0].(*ast.AssignStmt)
		if !ok || bind.Tok != token.DEFINE || len(bind.Lhs) != 1 || len(bind.Rhs) != 1 {
			return nil, nil
		}
		ix, ok := ast.Unparen(bind.Rhs[0]).(*ast.IndexExpr)
		if !ok || types.ExprString(ix.X) != seq || identObj(info, ix.Index) != iObj {
			return nil, nil
		}
		rest := &ast.BlockStmt{Lbrace: x.Body.Lbrace, List: x.Body.List[1:], Rbrace: x.Body.Rbrace}
		assigned := false
		ast.Inspect(rest, func(n ast.Node) bool {
			switch y := n.(type) {
			case *ast.AssignStmt:
				for _, l := range y.Lhs {
					if identObj(info, l) == iObj {
						assigned = true
					}
				}
			case *ast.IncDecStmt:
				if identObj(info, y.X) == iObj {
					assigned = true
				}
			}
			return true
		})
		if assigned {
			return nil, nil
		}
		return rest, identObj(info, bind.Lhs[0])
	}
	return nil, nil
}

// flatStmts: a statement list with plain nested blocks spliced in (a block that is a statement of its own only limits
// the scope of its declarations; its statements simply follow one another)
func flatStmts(list []ast.Stmt) []ast.Stmt {
	var out []ast.Stmt
	for _, st := range list {
		if b, ok := st.(*ast.BlockStmt); ok {
			out = append(out, flatStmts(b.List)...)
		} else {
			out = append(out, st)
		}
	}
	return out
}

// elementLoopIdx: elementLoop plus the variable that holds the element's position (nil when the loop has none)
func elementLoopIdx(info *types.Info, loop ast.Stmt) (*ast.BlockStmt, types.Object, types.Object) {
	body, ch := elementLoop(info, loop)
	if body == nil {
		return nil, nil, nil
	}
	switch x := loop.(type) {
	case *ast.RangeStmt:
		if x.Key != nil {
			return body, ch, identObj(info, x.Key)
		}
		return body, ch, nil
	case *ast.ForStmt:
		if init, ok := x.Init.(*ast.AssignStmt); ok && len(init.Lhs) == 1 {
			return body, ch, identObj(info, init.Lhs[0])
		}
	}
	return body, ch, nil
}
