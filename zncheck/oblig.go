package main

import (
	"encoding/json"
	"fmt"
	"os"
	"path/filepath"
	"sort"
	"strings"
	"time"
)

// Status of an obligation
const (
	Holds      = "holds"
	Violated   = "violated"
	Undecided  = "undecided"
	AnchorLost = "anchor-lost"
	Known      = "known-finding"
)

// Obligation - one decided instance of a rule; keyed by rule + construct (never by line)
type Obligation struct {
	Rule      string `json:"rule"`
	Construct string `json:"construct"`
	Status    string `json:"status"`
	Pos       string `json:"pos,omitempty"`
	Detail    string `json:"detail,omitempty"`
}

// Report collects obligations of one property run
type Report struct {
	Prop            string
	Tier            string
	Obls            []Obligation
	Notes           []string       // informational notes (not verdicts)
	MinCount        map[string]int // rule -> minimum number of instances confirmed by hand
	Explain         string         // what is decided / not decided
	Assumptions     []string       // trusted base
	Extra           map[string]any // extra coverage keys
	Exhaustive      bool
	Analysed        map[string]int // counters: packages, functions, call sites ...
	start           time.Time
	selfTestResults []selfTestResult
	benignResults   []selfTestResult
}

func newReport(prop, tier string) *Report {
	return &Report{Prop: prop, Tier: tier, MinCount: map[string]int{}, Extra: map[string]any{}, Analysed: map[string]int{}, start: time.Now()}
}

func (r *Report) add(rule, construct, status, pos, detail string) {
	r.Obls = append(r.Obls, Obligation{Rule: rule, Construct: construct, Status: status, Pos: pos, Detail: detail})
}

func (r *Report) hold(rule, construct, pos, detail string) {
	r.add(rule, construct, Holds, pos, detail)
}
func (r *Report) viol(rule, construct, pos, detail string) {
	r.add(rule, construct, Violated, pos, detail)
}
func (r *Report) lost(rule, construct string) {
	r.add(rule, construct, AnchorLost, "", "anchored declaration not found in /repo (renamed or removed?)")
}
func (r *Report) undecided(rule, construct, pos, detail string) {
	r.add(rule, construct, Undecided, pos, detail)
}

// check adds holds/violated by a boolean
func (r *Report) check(ok bool, rule, construct, pos, okDetail, badDetail string) bool {
	if ok {
		r.hold(rule, construct, pos, okDetail)
	} else {
		r.viol(rule, construct, pos, badDetail)
	}
	return ok
}

func (r *Report) note(format string, a ...any) { r.Notes = append(r.Notes, fmt.Sprintf(format, a...)) }
func (r *Report) min(rule string, n int)       { r.MinCount[rule] = n }
func (r *Report) count(key string, n int)      { r.Analysed[key] += n }

// ---- known findings

type KnownFinding struct {
	Property  string `json:"property"`
	Rule      string `json:"rule"`
	Construct string `json:"construct"`
	What      string `json:"what"`
	Input     string `json:"failing_input,omitempty"`
}

type KnownFile struct {
	Findings []KnownFinding `json:"findings"`
	Fixed    []string       `json:"fixed"`
}

func loadKnown(path string) (*KnownFile, error) {
	b, err := os.ReadFile(path)
	if err != nil {
		if os.IsNotExist(err) {
			return &KnownFile{}, nil
		}
		return nil, err
	}
	var k KnownFile
	if err := json.Unmarshal(b, &k); err != nil {
		return nil, fmt.Errorf("known_findings.json: %v", err)
	}
	return &k, nil
}

// finish applies minimum counts and known findings, prints the verdict, writes evidence and
// returns the process exit code
func (r *Report) finish(verifDir string, seed int64) int {
	known, err := loadKnown(filepath.Join(verifDir, "known_findings.json"))
	if err != nil {
		fmt.Println("ERROR:", err)
		r.viol(r.Prop+".infra", "known_findings.json", "", err.Error())
		known = &KnownFile{}
	}
	// minimum instance counts: a rule matching fewer sites than confirmed by hand fails
	perRule := map[string]int{}
	for _, o := range r.Obls {
		perRule[o.Rule]++
	}
	var rules []string
	for rule := range r.MinCount {
		rules = append(rules, rule)
	}
	sort.Strings(rules)
	for _, rule := range rules {
		if perRule[rule] < r.MinCount[rule] {
			r.viol(rule, "instance-count", "", fmt.Sprintf("rule matched %d instances, fewer than the %d confirmed by hand (rule is going vacuous: code moved or idiom changed)", perRule[rule], r.MinCount[rule]))
		}
	}
	// known findings: only exact (property, rule, construct) matches of violated obligations
	usedKnown := map[int]bool{}
	for i := range r.Obls {
		o := &r.Obls[i]
		if o.Status != Violated {
			continue
		}
		for j, k := range known.Findings {
			if k.Property == r.Prop && k.Rule == o.Rule && k.Construct == o.Construct {
				o.Status = Known
				usedKnown[j] = true
			}
		}
	}
	sort.SliceStable(r.Obls, func(i, j int) bool {
		if r.Obls[i].Rule != r.Obls[j].Rule {
			return r.Obls[i].Rule < r.Obls[j].Rule
		}
		return r.Obls[i].Construct < r.Obls[j].Construct
	})

	nHold, nBad, nKnown := 0, 0, 0
	var bad []Obligation
	for _, o := range r.Obls {
		switch o.Status {
		case Holds:
			nHold++
		case Known:
			nKnown++
		default:
			nBad++
			bad = append(bad, o)
		}
	}
	// summary per rule
	type agg struct{ h, b, k int }
	per := map[string]*agg{}
	var order []string
	for _, o := range r.Obls {
		a := per[o.Rule]
		if a == nil {
			a = &agg{}
			per[o.Rule] = a
			order = append(order, o.Rule)
		}
		switch o.Status {
		case Holds:
			a.h++
		case Known:
			a.k++
		default:
			a.b++
		}
	}
	fmt.Printf("== %s (%s tier): %d obligations, %d hold, %d known findings, %d failing\n", r.Prop, r.Tier, len(r.Obls), nHold, nKnown, nBad)
	for _, rule := range order {
		a := per[rule]
		fmt.Printf("   %-22s holds=%d known=%d failing=%d\n", rule, a.h, a.k, a.b)
	}
	if len(renameLog) > 0 {
		seenRn := map[string]bool{}
		for _, n := range renameLog {
			if !seenRn[n] {
				seenRn[n] = true
				r.Notes = append(r.Notes, n)
			}
		}
	}
	if len(remergeLog) > 0 {
		seenRm := map[string]bool{}
		for _, n := range remergeLog {
			if !seenRm[n] {
				seenRm[n] = true
				r.Notes = append(r.Notes, n)
			}
		}
	}
	for _, n := range r.Notes {
		fmt.Println("   note:", n)
	}
	if os.Getenv("ZNCHECK_VERBOSE") != "" {
		for _, o := range r.Obls {
			fmt.Printf("   OBL %s [%s] %s at %s: %s\n", o.Status, o.Rule, o.Construct, o.Pos, oneLine(o.Detail))
		}
	}
	for _, o := range r.Obls {
		if o.Status == Known {
			what := o.Detail
			for _, k := range known.Findings {
				if k.Property == r.Prop && k.Rule == o.Rule && k.Construct == o.Construct {
					what = k.What
					if k.Input != "" {
						what += " [input: " + k.Input + "]"
					}
				}
			}
			fmt.Printf("KNOWN-FINDING: property=%s %s %s (%s): %s\n", r.Prop, o.Rule, o.Construct, o.Pos, oneLine(what))
		}
	}
	// a listed finding that no longer reproduces is reported as a note (never an alarm)
	for j, k := range known.Findings {
		if k.Property == r.Prop && !usedKnown[j] {
			fmt.Printf("   note: listed finding %s %s no longer reproduces on this tree\n", k.Rule, k.Construct)
		}
	}

	evDir := filepath.Join(verifDir, "evidence")
	os.MkdirAll(evDir, 0o755)
	replay := filepath.Join(evDir, r.Prop+".violation.json")
	os.Remove(replay)
	exit := 0
	if nBad > 0 {
		exit = 1
		for _, o := range bad {
			fmt.Printf("FAIL %s [%s] %s at %s: %s\n", o.Status, o.Rule, o.Construct, o.Pos, oneLine(o.Detail))
		}
		b, _ := json.MarshalIndent(map[string]any{"property": r.Prop, "tier": r.Tier, "failing": bad}, "", " ")
		os.WriteFile(replay, b, 0o644)
		fmt.Printf("VIOLATION property=%s replay=%s\n", r.Prop, replay)
	}

	// evidence
	distinct := map[string]bool{}
	for _, o := range r.Obls {
		distinct[o.Rule+"|"+o.Construct] = true
	}
	var samples []Obligation
	seenRule := map[string]int{}
	for _, o := range r.Obls {
		if seenRule[o.Rule] < 3 {
			samples = append(samples, o)
			seenRule[o.Rule]++
		}
	}
	ruleList := make([]string, 0, len(order))
	for _, rule := range order {
		a := per[rule]
		ruleList = append(ruleList, fmt.Sprintf("%s:%d", rule, a.h+a.b+a.k))
	}
	cov := map[string]any{
		"explanation":         r.Explain,
		"obligations":         len(r.Obls),
		"discharged":          nHold,
		"known_findings":      nKnown,
		"evaluations":         len(r.Obls),
		"distinct_nontrivial": len(distinct),
		"rule":                "one obligation per (rule, construct) instance found in /repo's current source; distinct = distinct (rule, construct) pairs; every obligation is non-vacuous (it names a concrete function, call site, table entry or path). Rules with instance counts: " + strings.Join(ruleList, " "),
		"samples":             samples,
		"analysed":            r.Analysed,
		"checker_cmd":         "/verif/check " + r.Prop + " --tier " + r.Tier,
		"exhaustive":          r.Exhaustive,
		"notes":               r.Notes,
	}
	for k, v := range r.Extra {
		cov[k] = v
	}
	if r.selfTestResults != nil {
		d, m, sk := printSelfTest(r.selfTestResults)
		cov["selftest"] = map[string]any{"seeded_changes": len(r.selfTestResults), "detected": d, "missed": m, "skipped": sk, "results": r.selfTestResults,
			"note": "each seeded change (see /verif/seeded/<id>/meta.json) applied to a scratch copy of /repo; this checker must report it"}
	}
	if r.benignResults != nil {
		q, a, sk := printSelfTestBenign(r.benignResults)
		var alarming []selfTestResult
		for _, b := range r.benignResults {
			if b.Result != "quiet" {
				alarming = append(alarming, b)
			}
		}
		cov["selftest_benign"] = map[string]any{"variants": len(r.benignResults), "quiet": q, "alarms": a, "skipped": sk, "not_quiet": alarming,
			"note": "behaviour-preserving refactorings by independent sub-agents (/verif/refactorings) and an alpha-renamed copy of the tree; this check must stay quiet on each"}
	}
	ev := map[string]any{
		"property_id": r.Prop,
		"tier":        r.Tier,
		"seed":        seed,
		"level":       "other",
		"coverage":    cov,
		"assumptions": r.Assumptions,
		"wall_s":      time.Since(r.start).Seconds(),
		"violations":  nBad,
	}
	b, _ := json.MarshalIndent(ev, "", " ")
	if err := os.WriteFile(filepath.Join(evDir, r.Prop+".json"), b, 0o644); err != nil {
		fmt.Println("ERROR: cannot write evidence:", err)
		return 1
	}
	return exit
}

func oneLine(s string) string {
	return strings.Join(strings.Fields(s), " ")
}
