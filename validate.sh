#!/bin/bash
# validates MANIFEST.json and all evidence files against the schemas
python3-vt - <<'PY'
import json,glob,jsonschema,sys
ok=True
try:
    jsonschema.validate(json.load(open('/verif/MANIFEST.json')), json.load(open('/root/.vp/MANIFEST.schema.json'))); print('MANIFEST valid')
except Exception as e:
    ok=False; print('MANIFEST INVALID', e)
es=json.load(open('/root/.vp/EVIDENCE.schema.json'))
for f in sorted(glob.glob('/verif/evidence/C??.json')):
    try:
        jsonschema.validate(json.load(open(f)), es)
    except Exception as e:
        ok=False; print(f,'INVALID',str(e)[:200])
print('evidence files checked:', len(glob.glob('/verif/evidence/C??.json')))
sys.exit(0 if ok else 1)
PY
